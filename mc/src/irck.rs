//! Stage consistency checkers (C03): independent scope-and-type checks of the IRs a compilation
//! exposes. ANF is checked structurally (every variable use in scope of a binder of the same type;
//! calls, branches, operators, projections agree with the types they carry); Mono, Lift and ANF are
//! scanned for residue of type parameters / inference variables / generic applications.

use compiler::anf::{AExpr, CExpr, ImmExpr};
use compiler::pipeline::pipeline::Compilation;
use compiler::tast::Ty;
use std::collections::HashMap;

fn ty_eq(a: &Ty, b: &Ty) -> bool {
    match (a, b) {
        (Ty::TArray { len: l1, elem: e1 }, Ty::TArray { len: l2, elem: e2 }) => {
            (l1 == l2 || *l1 == compiler::tast::ARRAY_WILDCARD_LEN || *l2 == compiler::tast::ARRAY_WILDCARD_LEN) && ty_eq(e1, e2)
        }
        (Ty::TTuple { typs: a }, Ty::TTuple { typs: b }) => a.len() == b.len() && a.iter().zip(b).all(|(x, y)| ty_eq(x, y)),
        (Ty::TVec { elem: a }, Ty::TVec { elem: b }) | (Ty::TRef { elem: a }, Ty::TRef { elem: b }) => ty_eq(a, b),
        (Ty::TFunc { params: p1, ret_ty: r1 }, Ty::TFunc { params: p2, ret_ty: r2 }) => p1.len() == p2.len() && p1.iter().zip(p2).all(|(x, y)| ty_eq(x, y)) && ty_eq(r1, r2),
        (Ty::TApp { ty: t1, args: a1 }, Ty::TApp { ty: t2, args: a2 }) => ty_eq(t1, t2) && a1.len() == a2.len() && a1.iter().zip(a2).all(|(x, y)| ty_eq(x, y)),
        (Ty::TApp { ty, args }, other) | (other, Ty::TApp { ty, args }) if args.is_empty() => ty_eq(ty, other),
        _ => a == b,
    }
}

fn has_residue(t: &Ty) -> Option<&'static str> {
    match t {
        Ty::TVar(_) => Some("inference variable"),
        Ty::TParam { .. } => Some("type parameter"),
        Ty::TApp { args, ty } => {
            if !args.is_empty() {
                Some("generic type application")
            } else {
                has_residue(ty)
            }
        }
        Ty::TTuple { typs } => typs.iter().find_map(has_residue),
        Ty::TArray { elem, .. } | Ty::TVec { elem } | Ty::TRef { elem } => has_residue(elem),
        Ty::TFunc { params, ret_ty } => params.iter().find_map(has_residue).or_else(|| has_residue(ret_ty)),
        _ => None,
    }
}

struct AnfCk<'a> {
    globals: &'a HashMap<String, Ty>,
    errs: Vec<String>,
    fn_name: String,
    nodes: u64,
}

// runtime helpers whose type is instantiated per use (`missing` is what a match without a matching arm calls)
const POLY_BUILTINS: [&str; 10] = ["array_get", "array_set", "ref", "ref_get", "ref_set", "vec_new", "vec_push", "vec_get", "vec_len", "missing"];

impl<'a> AnfCk<'a> {
    fn err(&mut self, m: String) {
        if self.errs.len() < 5 {
            self.errs.push(format!("in {}: {}", self.fn_name, m));
        }
    }
    fn ty_ok(&mut self, t: &Ty, what: &str) {
        if let Some(r) = has_residue(t) {
            self.err(format!("{} has type {:?} containing a {}", what, t, r));
        }
    }
    fn imm(&mut self, i: &ImmExpr, env: &Vec<(String, Ty)>) -> Ty {
        self.nodes += 1;
        match i {
            ImmExpr::ImmVar { name, ty } => {
                self.ty_ok(ty, &format!("variable {}", name));
                if let Some((_, bt)) = env.iter().rev().find(|(n, _)| n == name) {
                    if !ty_eq(bt, ty) {
                        self.err(format!("use of {} at type {:?} but its binder has type {:?}", name, ty, bt));
                    }
                } else if let Some(gt) = self.globals.get(name) {
                    if has_residue(gt).is_none() && !ty_eq(gt, ty) {
                        self.err(format!("use of global {} at type {:?} but it is declared {:?}", name, ty, gt));
                    }
                } else if !POLY_BUILTINS.contains(&name.as_str()) && !self.globals.contains_key(name) {
                    self.err(format!("variable {} is not in scope of any binder", name));
                }
                ty.clone()
            }
            ImmExpr::ImmPrim { ty, .. } => ty.clone(),
            ImmExpr::ImmTag { ty, .. } => ty.clone(),
        }
    }
    fn cexpr(&mut self, e: &CExpr, env: &mut Vec<(String, Ty)>) -> Ty {
        self.nodes += 1;
        match e {
            CExpr::CImm { imm } => self.imm(imm, env),
            CExpr::EConstr { args, ty, .. } => {
                for a in args {
                    self.imm(a, env);
                }
                ty.clone()
            }
            CExpr::ETuple { items, ty } => {
                let ts: Vec<Ty> = items.iter().map(|i| self.imm(i, env)).collect();
                if let Ty::TTuple { typs } = ty {
                    if typs.len() != ts.len() || !typs.iter().zip(&ts).all(|(a, b)| ty_eq(a, b)) {
                        self.err(format!("tuple of element types {:?} built at type {:?}", ts, ty));
                    }
                } else {
                    self.err(format!("tuple built at non-tuple type {:?}", ty));
                }
                ty.clone()
            }
            CExpr::EArray { items, ty } => {
                let ts: Vec<Ty> = items.iter().map(|i| self.imm(i, env)).collect();
                if let Ty::TArray { elem, len } = ty {
                    if *len != ts.len() && *len != compiler::tast::ARRAY_WILDCARD_LEN {
                        self.err(format!("array literal of {} elements at type {:?}", ts.len(), ty));
                    }
                    for t in &ts {
                        if !ty_eq(t, elem) {
                            self.err(format!("array element of type {:?} in array of {:?}", t, elem));
                        }
                    }
                } else {
                    self.err(format!("array built at non-array type {:?}", ty));
                }
                ty.clone()
            }
            CExpr::EMatch { expr, arms, default, ty } => {
                self.imm(expr, env);
                for a in arms {
                    let t = self.aexpr(&a.body, env);
                    if !ty_eq(&t, ty) {
                        self.err(format!("match arm of type {:?} in match of type {:?}", t, ty));
                    }
                }
                if let Some(d) = default {
                    let t = self.aexpr(d, env);
                    if !ty_eq(&t, ty) {
                        self.err(format!("match default of type {:?} in match of type {:?}", t, ty));
                    }
                }
                ty.clone()
            }
            CExpr::EIf { cond, then, else_, ty } => {
                let ct = self.imm(cond, env);
                if ct != Ty::TBool {
                    self.err(format!("if condition of type {:?}", ct));
                }
                let t1 = self.aexpr(then, env);
                let t2 = self.aexpr(else_, env);
                if !ty_eq(&t1, ty) || !ty_eq(&t2, ty) {
                    self.err(format!("if branches of types {:?} / {:?} at type {:?}", t1, t2, ty));
                }
                ty.clone()
            }
            CExpr::EWhile { cond, body, ty } => {
                let ct = self.aexpr(cond, env);
                if ct != Ty::TBool {
                    self.err(format!("while condition of type {:?}", ct));
                }
                self.aexpr(body, env);
                ty.clone()
            }
            CExpr::EConstrGet { expr, ty, .. } => {
                self.imm(expr, env);
                ty.clone()
            }
            CExpr::EUnary { expr, ty, op } => {
                let t = self.imm(expr, env);
                match op {
                    common_defs::UnaryOp::Not => {
                        if t != Ty::TBool || *ty != Ty::TBool {
                            self.err(format!("! applied at {:?} -> {:?}", t, ty));
                        }
                    }
                    common_defs::UnaryOp::Neg => {
                        if !ty_eq(&t, ty) {
                            self.err(format!("- applied at {:?} -> {:?}", t, ty));
                        }
                    }
                }
                ty.clone()
            }
            CExpr::EBinary { op, lhs, rhs, ty } => {
                let (l, r) = (self.imm(lhs, env), self.imm(rhs, env));
                if !ty_eq(&l, &r) {
                    self.err(format!("operator {:?} on operands of types {:?} and {:?}", op, l, r));
                }
                use common_defs::BinaryOp::*;
                match op {
                    Add | Sub | Mul | Div => {
                        if !ty_eq(&l, ty) {
                            self.err(format!("operator {:?} on {:?} yields {:?}", op, l, ty));
                        }
                    }
                    _ => {
                        if *ty != Ty::TBool {
                            self.err(format!("operator {:?} yields {:?}", op, ty));
                        }
                    }
                }
                ty.clone()
            }
            CExpr::ECall { func, args, ty } => {
                let ft = self.imm(func, env);
                let ats: Vec<Ty> = args.iter().map(|a| self.imm(a, env)).collect();
                let poly = matches!(func, ImmExpr::ImmVar { name, .. } if POLY_BUILTINS.contains(&name.as_str()));
                match &ft {
                    Ty::TFunc { params, ret_ty } if !poly => {
                        if params.len() != ats.len() {
                            self.err(format!("call with {} arguments of a function of type {:?}", ats.len(), ft));
                        } else {
                            for (p, a) in params.iter().zip(&ats) {
                                // values of closure type flow into function-typed parameters (closure conversion)
                                let closureish = matches!(a, Ty::TStruct { name } if name.starts_with("closure_env_"));
                                if !ty_eq(p, a) && !closureish {
                                    self.err(format!("argument of type {:?} for parameter of type {:?}", a, p));
                                }
                            }
                        }
                        if !ty_eq(ret_ty, ty) {
                            self.err(format!("call of {:?} at result type {:?}", ft, ty));
                        }
                    }
                    _ => {}
                }
                ty.clone()
            }
            CExpr::EToDyn { expr, ty, .. } => {
                self.imm(expr, env);
                ty.clone()
            }
            CExpr::EDynCall { receiver, args, ty, .. } => {
                self.imm(receiver, env);
                for a in args {
                    self.imm(a, env);
                }
                ty.clone()
            }
            CExpr::EGo { closure, ty } => {
                self.imm(closure, env);
                ty.clone()
            }
            CExpr::EProj { tuple, index, ty } => {
                let tt = self.imm(tuple, env);
                match &tt {
                    Ty::TTuple { typs } => match typs.get(*index) {
                        Some(et) => {
                            if !ty_eq(et, ty) {
                                self.err(format!("projection .{} of {:?} at type {:?}", index, tt, ty));
                            }
                        }
                        None => self.err(format!("projection .{} out of range for {:?}", index, tt)),
                    },
                    other => self.err(format!("projection on non-tuple {:?}", other)),
                }
                ty.clone()
            }
            // a closure as a function value: its function is apply(env, params..) -> result
            CExpr::EClosureFn { closure, ty } => {
                let ct = self.imm(closure, env);
                match (&ct, ty) {
                    (Ty::TStruct { name }, Ty::TFunc { params, ret_ty }) if name.starts_with("closure_env_") => {
                        let apply = compiler::names::inherent_method_fn_name(&ct, "apply");
                        match self.globals.get(&apply) {
                            Some(Ty::TFunc { params: ap, ret_ty: ar }) => {
                                if ap.len() != params.len() + 1 || !ty_eq(&ap[0], &ct) || !ap[1..].iter().zip(params.iter()).all(|(a, b)| ty_eq(a, b)) || !ty_eq(ar, ret_ty) {
                                    self.err(format!("closure {} whose function has type {:?} used as a function value of type {:?}", name, self.globals.get(&apply), ty));
                                }
                            }
                            _ => self.err(format!("closure {} used as a function value has no function {}", name, apply)),
                        }
                    }
                    _ => self.err(format!("a value of type {:?} used as a function value of type {:?}", ct, ty)),
                }
                ty.clone()
            }
        }
    }
    fn aexpr(&mut self, e: &AExpr, env: &mut Vec<(String, Ty)>) -> Ty {
        match e {
            AExpr::ACExpr { expr } => self.cexpr(expr, env),
            AExpr::ALet { name, value, body, ty } => {
                let vt = self.cexpr(value, env);
                self.ty_ok(&vt, &format!("let {}", name));
                env.push((name.clone(), vt));
                let bt = self.aexpr(body, env);
                env.pop();
                // the `ty` annotation of a let is not relied upon by later stages (it is the type of the
                // enclosing expression only when the let is in tail position): not checked
                let _ = ty;
                bt
            }
        }
    }
}

/// Core: every expression node carries its type; the carried type must be the type of what the
/// node evaluates to (a `let` has the type of its body, a branch construct the type of each
/// branch, a projection the component's type, a variable its binder's type). Later stages read
/// these annotations (trait dispatch reads the receiver's), so a stale one is a wrong program.
struct CoreCk {
    errs: Vec<String>,
    fn_name: String,
}

impl CoreCk {
    fn err(&mut self, m: String) {
        if self.errs.len() < 5 {
            self.errs.push(format!("in {}: {}", self.fn_name, m));
        }
    }
    fn same(&mut self, what: &str, carried: &Ty, actual: &Ty) {
        // a diverging sub-expression (missing / a loop) may carry any type
        if !ty_eq(carried, actual) {
            self.err(format!("{} carries type {:?} but evaluates to {:?}", what, carried, actual));
        }
    }
    fn expr(&mut self, e: &compiler::core::Expr, env: &mut Vec<(String, Ty)>) {
        use compiler::core::Expr as X;
        match e {
            X::EVar { name, ty } => {
                if let Some((_, bt)) = env.iter().rev().find(|(n, _)| n == name) {
                    let bt = bt.clone();
                    self.same(&format!("variable {}", name), ty, &bt);
                }
            }
            X::EPrim { .. } => {}
            X::EConstr { args, .. } => args.iter().for_each(|a| self.expr(a, env)),
            X::ETuple { items, ty } => {
                items.iter().for_each(|a| self.expr(a, env));
                let actual = Ty::TTuple { typs: items.iter().map(|i| i.get_ty()).collect() };
                self.same("tuple", ty, &actual);
            }
            X::EArray { items, .. } => items.iter().for_each(|a| self.expr(a, env)),
            X::EClosure { params, body, .. } => {
                let n = env.len();
                for p in params {
                    env.push((p.name.clone(), p.ty.clone()));
                }
                self.expr(body, env);
                env.truncate(n);
            }
            X::ELet { name, value, body, ty } => {
                self.expr(value, env);
                env.push((name.clone(), value.get_ty()));
                self.expr(body, env);
                env.pop();
                self.same(&format!("let {}", name), ty, &body.get_ty());
            }
            X::EMatch { expr, arms, default, ty } => {
                self.expr(expr, env);
                for a in arms {
                    self.expr(&a.body, env);
                    if !is_missing(&a.body) {
                        self.same("match arm", ty, &a.body.get_ty());
                    }
                }
                if let Some(d) = default {
                    self.expr(d, env);
                    if !is_missing(d) {
                        self.same("match default", ty, &d.get_ty());
                    }
                }
            }
            X::EIf { cond, then_branch, else_branch, ty } => {
                self.expr(cond, env);
                self.expr(then_branch, env);
                self.expr(else_branch, env);
                self.same("if condition", &Ty::TBool, &cond.get_ty());
                self.same("then branch", ty, &then_branch.get_ty());
                self.same("else branch", ty, &else_branch.get_ty());
            }
            X::EWhile { cond, body, .. } => {
                self.expr(cond, env);
                self.expr(body, env);
            }
            X::EGo { expr, .. } | X::EUnary { expr, .. } | X::EToDyn { expr, .. } | X::EConstrGet { expr, .. } => self.expr(expr, env),
            X::EBinary { lhs, rhs, .. } => {
                self.expr(lhs, env);
                self.expr(rhs, env);
            }
            X::ECall { func, args, .. } => {
                self.expr(func, env);
                args.iter().for_each(|a| self.expr(a, env));
            }
            X::EDynCall { receiver, args, .. } | X::ETraitCall { receiver, args, .. } => {
                self.expr(receiver, env);
                args.iter().for_each(|a| self.expr(a, env));
            }
            X::EProj { tuple, index, ty } => {
                self.expr(tuple, env);
                if let Ty::TTuple { typs } = tuple.get_ty() {
                    if let Some(ct) = typs.get(*index) {
                        self.same(&format!("projection .{}", index), ty, ct);
                    }
                }
            }
        }
    }
}

fn is_missing(e: &compiler::core::Expr) -> bool {
    matches!(e, compiler::core::Expr::ECall { func, .. } if matches!(&**func, compiler::core::Expr::EVar { name, .. } if name == "missing"))
}

pub struct IrStats {
    pub anf_nodes: u64,
}

pub fn check_all(c: &Compilation) -> Vec<(&'static str, String)> {
    let mut out: Vec<(&'static str, String)> = Vec::new();
    // --- ANF: scope + types
    let mut globals: HashMap<String, Ty> = HashMap::new();
    for f in &c.anf.toplevels {
        globals.insert(f.name.clone(), Ty::TFunc { params: f.params.iter().map(|(_, t)| t.clone()).collect(), ret_ty: Box::new(f.ret_ty.clone()) });
    }
    for (name, scheme) in c.genv.value_env.funcs.iter() {
        globals.entry(name.clone()).or_insert_with(|| scheme.ty.clone());
    }
    for (name, ext) in c.genv.value_env.extern_funcs.iter() {
        globals.entry(name.clone()).or_insert_with(|| ext.ty.clone());
    }
    let mut seen_names = std::collections::HashSet::new();
    for f in &c.anf.toplevels {
        if !seen_names.insert(f.name.clone()) {
            out.push(("anf", format!("function {} is defined twice", f.name)));
        }
        let mut ck = AnfCk { globals: &globals, errs: Vec::new(), fn_name: f.name.clone(), nodes: 0 };
        let mut env: Vec<(String, Ty)> = f.params.clone();
        for (p, t) in &f.params {
            ck.ty_ok(t, &format!("parameter {}", p));
        }
        ck.ty_ok(&f.ret_ty, "return type");
        let bt = ck.aexpr(&f.body, &mut env);
        let closureish = matches!(&bt, Ty::TStruct { name } if name.starts_with("closure_env_"));
        if !ty_eq(&bt, &f.ret_ty) && f.ret_ty != Ty::TUnit && !closureish {
            ck.err(format!("body of type {:?} but declared return type {:?}", bt, f.ret_ty));
        }
        for e in ck.errs {
            out.push(("anf", e));
        }
    }
    // --- Core: carried types
    for f in &c.core.toplevels {
        let mut ck = CoreCk { errs: Vec::new(), fn_name: f.name.clone() };
        let mut env: Vec<(String, Ty)> = f.params.clone();
        ck.expr(&f.body, &mut env);
        if !is_missing(&f.body) {
            ck.same("function body", &f.ret_ty, &f.body.get_ty());
        }
        for e in ck.errs {
            out.push(("core", e));
        }
    }
    // --- Core / Mono / Lift: structural scope-and-type check (irstage.rs)
    let (stage_errs, _nodes) = crate::irstage::check_stages(c);
    out.extend(stage_errs);
    // --- residue scans (Mono / Lift): no type parameter, inference variable or generic application
    for (stage, dump) in [("mono", format!("{:?}", c.mono)), ("lift", format!("{:?}", c.lambda))] {
        if let Some(pos) = dump.find("TParam") {
            out.push((stage, format!("type parameter residue: …{}…", &dump[pos.saturating_sub(60)..(pos + 40).min(dump.len())].replace('\n', " "))));
        }
        if let Some(pos) = dump.find("TVar(") {
            out.push((stage, format!("inference variable residue: …{}…", &dump[pos.saturating_sub(60)..(pos + 40).min(dump.len())].replace('\n', " "))));
        }
    }
    out.truncate(8);
    out
}
