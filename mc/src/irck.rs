//! stage consistency checkers (Core / Mono / Lift / ANF) — see irck/*.rs
use compiler::pipeline::pipeline::Compilation;

pub fn check_all(_c: &Compilation) -> Vec<(&'static str, String)> {
    Vec::new()
}
