//! C03, stage checker for Core, Mono and Lift: one structural scope-and-type checker over a
//! common view of the three IRs (they share their expression forms). Checked per node:
//!  * a variable use is in scope of a binder (parameter, let, closure parameter) of the same type,
//!    or names a top-level function whose declared type has the carried type as an instance;
//!  * a call: the callee has a function type, the argument count and every argument type agree
//!    with its parameters and the call's carried type with its result;
//!  * a constructor application / field extraction agrees with the declared payload / field
//!    types of the enum or struct (instantiated at the type arguments of the value's type);
//!  * operators: operands of one type; arithmetic yields the operand type, comparisons and
//!    logical operators bool; `!` on bool; conditions are bool;
//!  * branches: every arm / branch has the construct's type; arm tags have the scrutinee's type;
//!  * tuples, arrays, projections: component-wise;
//!  * after monomorphisation (Mono, Lift): no type parameter / inference variable / generic
//!    application in any carried type.
//! Representation conventions that are *not* violations are listed where they are skipped.

use compiler::common::Constructor;
use compiler::env::{EnumDef, StructDef};
use compiler::pipeline::pipeline::Compilation;
use compiler::tast::Ty;
use std::collections::HashMap;

#[derive(Debug, Clone)]
pub enum U {
    Var { name: String, ty: Ty },
    Prim { ty: Ty },
    Constr { c: Constructor, args: Vec<U>, ty: Ty },
    Tuple { items: Vec<U>, ty: Ty },
    Array { items: Vec<U>, ty: Ty },
    Closure { params: Vec<(String, Ty)>, body: Box<U>, ty: Ty },
    Let { name: String, value: Box<U>, body: Box<U>, ty: Ty },
    Match { expr: Box<U>, arms: Vec<(U, U)>, default: Option<Box<U>>, ty: Ty },
    If { cond: Box<U>, then_: Box<U>, else_: Box<U>, ty: Ty },
    While { cond: Box<U>, body: Box<U>, ty: Ty },
    Go { expr: Box<U>, ty: Ty },
    Get { expr: Box<U>, c: Constructor, idx: usize, ty: Ty },
    Unary { op: common_defs::UnaryOp, expr: Box<U>, ty: Ty },
    Binary { op: common_defs::BinaryOp, lhs: Box<U>, rhs: Box<U>, ty: Ty },
    Call { func: Box<U>, args: Vec<U>, ty: Ty },
    ToDyn { for_ty: Ty, expr: Box<U>, ty: Ty },
    /// dyn call / trait call: receiver and arguments are checked, the signature is not looked up
    Opaque { subs: Vec<U>, ty: Ty },
    Proj { tuple: Box<U>, idx: usize, ty: Ty },
}

impl U {
    pub fn ty(&self) -> &Ty {
        match self {
            U::Var { ty, .. }
            | U::Prim { ty }
            | U::Constr { ty, .. }
            | U::Tuple { ty, .. }
            | U::Array { ty, .. }
            | U::Closure { ty, .. }
            | U::Let { ty, .. }
            | U::Match { ty, .. }
            | U::If { ty, .. }
            | U::While { ty, .. }
            | U::Go { ty, .. }
            | U::Get { ty, .. }
            | U::Unary { ty, .. }
            | U::Binary { ty, .. }
            | U::Call { ty, .. }
            | U::ToDyn { ty, .. }
            | U::Opaque { ty, .. }
            | U::Proj { ty, .. } => ty,
        }
    }
}

macro_rules! conv_common {
    ($e:expr, $X:ident, $conv:ident) => {
        match $e {
            $X::EVar { name, ty } => Some(U::Var { name: name.clone(), ty: ty.clone() }),
            $X::EPrim { ty, .. } => Some(U::Prim { ty: ty.clone() }),
            $X::EConstr { constructor, args, ty } => Some(U::Constr { c: constructor.clone(), args: args.iter().map($conv).collect(), ty: ty.clone() }),
            $X::ETuple { items, ty } => Some(U::Tuple { items: items.iter().map($conv).collect(), ty: ty.clone() }),
            $X::EArray { items, ty } => Some(U::Array { items: items.iter().map($conv).collect(), ty: ty.clone() }),
            $X::ELet { name, value, body, ty } => Some(U::Let { name: name.clone(), value: Box::new($conv(value)), body: Box::new($conv(body)), ty: ty.clone() }),
            $X::EMatch { expr, arms, default, ty } => Some(U::Match {
                expr: Box::new($conv(expr)),
                arms: arms.iter().map(|a| ($conv(&a.lhs), $conv(&a.body))).collect(),
                default: default.as_ref().map(|d| Box::new($conv(d))),
                ty: ty.clone(),
            }),
            $X::EIf { cond, then_branch, else_branch, ty } => {
                Some(U::If { cond: Box::new($conv(cond)), then_: Box::new($conv(then_branch)), else_: Box::new($conv(else_branch)), ty: ty.clone() })
            }
            $X::EWhile { cond, body, ty } => Some(U::While { cond: Box::new($conv(cond)), body: Box::new($conv(body)), ty: ty.clone() }),
            $X::EGo { expr, ty } => Some(U::Go { expr: Box::new($conv(expr)), ty: ty.clone() }),
            $X::EConstrGet { expr, constructor, field_index, ty } => Some(U::Get { expr: Box::new($conv(expr)), c: constructor.clone(), idx: *field_index, ty: ty.clone() }),
            $X::EUnary { op, expr, ty } => Some(U::Unary { op: *op, expr: Box::new($conv(expr)), ty: ty.clone() }),
            $X::EBinary { op, lhs, rhs, ty } => Some(U::Binary { op: *op, lhs: Box::new($conv(lhs)), rhs: Box::new($conv(rhs)), ty: ty.clone() }),
            $X::ECall { func, args, ty } => Some(U::Call { func: Box::new($conv(func)), args: args.iter().map($conv).collect(), ty: ty.clone() }),
            $X::EToDyn { for_ty, expr, ty, .. } => Some(U::ToDyn { for_ty: for_ty.clone(), expr: Box::new($conv(expr)), ty: ty.clone() }),
            $X::EDynCall { receiver, args, ty, .. } => {
                let mut subs = vec![$conv(receiver)];
                subs.extend(args.iter().map($conv));
                Some(U::Opaque { subs, ty: ty.clone() })
            }
            $X::EProj { tuple, index, ty } => Some(U::Proj { tuple: Box::new($conv(tuple)), idx: *index, ty: ty.clone() }),
            #[allow(unreachable_patterns)]
            _ => None,
        }
    };
}

fn conv_core(e: &compiler::core::Expr) -> U {
    use compiler::core::Expr as X;
    if let Some(u) = conv_common!(e, X, conv_core) {
        return u;
    }
    match e {
        X::EClosure { params, body, ty } => U::Closure { params: params.iter().map(|p| (p.name.clone(), p.ty.clone())).collect(), body: Box::new(conv_core(body)), ty: ty.clone() },
        X::ETraitCall { receiver, args, ty, .. } => {
            let mut subs = vec![conv_core(receiver)];
            subs.extend(args.iter().map(conv_core));
            U::Opaque { subs, ty: ty.clone() }
        }
        _ => unreachable!(),
    }
}

fn conv_mono(e: &compiler::mono::MonoExpr) -> U {
    use compiler::mono::MonoExpr as X;
    if let Some(u) = conv_common!(e, X, conv_mono) {
        return u;
    }
    match e {
        X::EClosure { params, body, ty } => U::Closure { params: params.iter().map(|p| (p.name.clone(), p.ty.clone())).collect(), body: Box::new(conv_mono(body)), ty: ty.clone() },
        #[allow(unreachable_patterns)]
        _ => unreachable!(),
    }
}

fn conv_lift(e: &compiler::lift::LiftExpr) -> U {
    use compiler::lift::LiftExpr as X;
    if let Some(u) = conv_common!(e, X, conv_lift) {
        return u;
    }
    match e {
        // a closure as a function value: the ANF checker compares it with the closure's function
        X::EClosureFn { closure, ty } => U::Opaque { subs: vec![conv_lift(closure)], ty: ty.clone() },
        #[allow(unreachable_patterns)]
        _ => unreachable!(),
    }
}

pub fn ty_eq(a: &Ty, b: &Ty) -> bool {
    match (a, b) {
        (Ty::TArray { len: l1, elem: e1 }, Ty::TArray { len: l2, elem: e2 }) => {
            (l1 == l2 || *l1 == compiler::tast::ARRAY_WILDCARD_LEN || *l2 == compiler::tast::ARRAY_WILDCARD_LEN) && ty_eq(e1, e2)
        }
        (Ty::TTuple { typs: a }, Ty::TTuple { typs: b }) => a.len() == b.len() && a.iter().zip(b).all(|(x, y)| ty_eq(x, y)),
        (Ty::TVec { elem: a }, Ty::TVec { elem: b }) | (Ty::TRef { elem: a }, Ty::TRef { elem: b }) => ty_eq(a, b),
        (Ty::TFunc { params: p1, ret_ty: r1 }, Ty::TFunc { params: p2, ret_ty: r2 }) => p1.len() == p2.len() && p1.iter().zip(p2).all(|(x, y)| ty_eq(x, y)) && ty_eq(r1, r2),
        (Ty::TApp { ty: t1, args: a1 }, Ty::TApp { ty: t2, args: a2 }) => ty_eq(t1, t2) && a1.len() == a2.len() && a1.iter().zip(a2).all(|(x, y)| ty_eq(x, y)),
        (Ty::TApp { ty, args }, other) | (other, Ty::TApp { ty, args }) if args.is_empty() => ty_eq(ty, other),
        _ => a == b,
    }
}

pub fn residue(t: &Ty) -> Option<&'static str> {
    match t {
        Ty::TVar(_) => Some("inference variable"),
        Ty::TParam { .. } => Some("type parameter"),
        Ty::TApp { args, ty } => {
            if !args.is_empty() {
                Some("generic type application")
            } else {
                residue(ty)
            }
        }
        Ty::TTuple { typs } => typs.iter().find_map(residue),
        Ty::TArray { elem, .. } | Ty::TVec { elem } | Ty::TRef { elem } => residue(elem),
        Ty::TFunc { params, ret_ty } => params.iter().find_map(residue).or_else(|| residue(ret_ty)),
        _ => None,
    }
}

fn has_tvar(t: &Ty) -> bool {
    match t {
        Ty::TVar(_) => true,
        Ty::TApp { args, ty } => has_tvar(ty) || args.iter().any(has_tvar),
        Ty::TTuple { typs } => typs.iter().any(has_tvar),
        Ty::TArray { elem, .. } | Ty::TVec { elem } | Ty::TRef { elem } => has_tvar(elem),
        Ty::TFunc { params, ret_ty } => params.iter().any(has_tvar) || has_tvar(ret_ty),
        _ => false,
    }
}

fn subst(t: &Ty, s: &HashMap<String, Ty>) -> Ty {
    match t {
        Ty::TParam { name } => s.get(name).cloned().unwrap_or_else(|| t.clone()),
        Ty::TTuple { typs } => Ty::TTuple { typs: typs.iter().map(|x| subst(x, s)).collect() },
        Ty::TArray { len, elem } => Ty::TArray { len: *len, elem: Box::new(subst(elem, s)) },
        Ty::TVec { elem } => Ty::TVec { elem: Box::new(subst(elem, s)) },
        Ty::TRef { elem } => Ty::TRef { elem: Box::new(subst(elem, s)) },
        Ty::TFunc { params, ret_ty } => Ty::TFunc { params: params.iter().map(|x| subst(x, s)).collect(), ret_ty: Box::new(subst(ret_ty, s)) },
        Ty::TApp { ty, args } => Ty::TApp { ty: Box::new(subst(ty, s)), args: args.iter().map(|x| subst(x, s)).collect() },
        o => o.clone(),
    }
}

/// is `carried` an instance of `declared` (type parameters of `declared` bound consistently)?
fn instance_of(declared: &Ty, carried: &Ty, tparams: &[String], s: &mut HashMap<String, Ty>) -> bool {
    match (declared, carried) {
        (Ty::TParam { name }, c) if tparams.is_empty() || tparams.contains(name) => match s.get(name) {
            Some(prev) => ty_eq(prev, c),
            None => {
                s.insert(name.clone(), c.clone());
                true
            }
        },
        (Ty::TTuple { typs: a }, Ty::TTuple { typs: b }) => a.len() == b.len() && a.iter().zip(b).all(|(x, y)| instance_of(x, y, tparams, s)),
        (Ty::TArray { len: l1, elem: e1 }, Ty::TArray { len: l2, elem: e2 }) => {
            (l1 == l2 || *l1 == compiler::tast::ARRAY_WILDCARD_LEN || *l2 == compiler::tast::ARRAY_WILDCARD_LEN) && instance_of(e1, e2, tparams, s)
        }
        (Ty::TVec { elem: a }, Ty::TVec { elem: b }) | (Ty::TRef { elem: a }, Ty::TRef { elem: b }) => instance_of(a, b, tparams, s),
        (Ty::TFunc { params: p1, ret_ty: r1 }, Ty::TFunc { params: p2, ret_ty: r2 }) => {
            p1.len() == p2.len() && p1.iter().zip(p2).all(|(x, y)| instance_of(x, y, tparams, s)) && instance_of(r1, r2, tparams, s)
        }
        (Ty::TApp { ty: t1, args: a1 }, Ty::TApp { ty: t2, args: a2 }) => instance_of(t1, t2, tparams, s) && a1.len() == a2.len() && a1.iter().zip(a2).all(|(x, y)| instance_of(x, y, tparams, s)),
        (Ty::TApp { ty, args }, other) | (other, Ty::TApp { ty, args }) if args.is_empty() => instance_of(ty, other, tparams, s) || instance_of(other, ty, tparams, s),
        (a, b) => a == b,
    }
}

pub struct Defs<'a> {
    pub enums: HashMap<String, &'a EnumDef>,
    pub structs: HashMap<String, &'a StructDef>,
    /// top-level functions: name -> (type parameters, declared type)
    pub funcs: HashMap<String, (Vec<String>, Ty)>,
    pub mono: bool,
    pub stage: &'static str,
}

struct Ck<'a> {
    d: &'a Defs<'a>,
    errs: Vec<String>,
    fn_name: String,
    pub nodes: u64,
}

const POLY_BUILTINS: [&str; 10] = ["array_get", "array_set", "ref", "ref_get", "ref_set", "vec_new", "vec_push", "vec_get", "vec_len", "missing"];

fn is_closure_env(t: &Ty) -> bool {
    matches!(t, Ty::TStruct { name } if name.starts_with("closure_env_"))
}

fn contains_closure_env(t: &Ty) -> bool {
    match t {
        Ty::TStruct { .. } => is_closure_env(t),
        Ty::TTuple { typs } => typs.iter().any(contains_closure_env),
        Ty::TArray { elem, .. } | Ty::TVec { elem } | Ty::TRef { elem } => contains_closure_env(elem),
        Ty::TFunc { params, ret_ty } => params.iter().any(contains_closure_env) || contains_closure_env(ret_ty),
        Ty::TApp { ty, args } => contains_closure_env(ty) || args.iter().any(contains_closure_env),
        _ => false,
    }
}

fn is_missing_call(e: &U) -> bool {
    matches!(e, U::Call { func, .. } if matches!(&**func, U::Var { name, .. } if name == "missing"))
}

/// expressions that never yield a value (the uncovered case of a match): they may stand at any type
fn diverges(e: &U) -> bool {
    match e {
        U::Let { body, .. } => diverges(body),
        _ => is_missing_call(e),
    }
}

impl<'a> Ck<'a> {
    fn err(&mut self, m: String) {
        if self.errs.len() < 4 {
            self.errs.push(format!("in {}: {}", self.fn_name, m));
        }
    }
    fn carried(&mut self, t: &Ty, what: &str) {
        if has_tvar(t) {
            self.err(format!("{} carries type {:?} containing an inference variable", what, t));
        } else if self.d.mono {
            if let Some(r) = residue(t) {
                self.err(format!("{} carries type {:?} containing a {}", what, t, r));
            }
        }
    }
    fn same(&mut self, what: &str, want: &Ty, got: &Ty) {
        // Lift gives closure values their environment struct type while function-typed positions keep
        // the function type (closure conversion's representation, K-closure-flow judges its consequences)
        if self.d.stage == "lift" && (contains_closure_env(want) || contains_closure_env(got)) {
            return;
        }
        if !ty_eq(want, got) {
            self.err(format!("{}: expected {:?}, found {:?}", what, want, got));
        }
    }
    /// declared component types of a constructor, instantiated at the type arguments of `at`
    fn constr_fields(&mut self, c: &Constructor, at: &Ty) -> Option<Vec<Ty>> {
        let targs: Vec<Ty> = match at {
            Ty::TApp { args, .. } => args.clone(),
            _ => vec![],
        };
        match c {
            Constructor::Enum(ec) => {
                let def = match self.d.enums.get(&ec.type_name.0) {
                    Some(d) => *d,
                    None => {
                        self.err(format!("constructor {}::{} of an enum that is not declared", ec.type_name.0, ec.variant.0));
                        return None;
                    }
                };
                let fields = match def.variants.iter().find(|(v, _)| v == &ec.variant) {
                    Some((_, f)) => f.clone(),
                    None => {
                        self.err(format!("enum {} has no variant {}", ec.type_name.0, ec.variant.0));
                        return None;
                    }
                };
                if def.generics.len() != targs.len() {
                    if !def.generics.is_empty() || !targs.is_empty() {
                        self.err(format!("enum {} has {} type parameters, value type {:?}", def.name.0, def.generics.len(), at));
                    }
                    return None;
                }
                let s: HashMap<String, Ty> = def.generics.iter().map(|g| g.0.clone()).zip(targs).collect();
                Some(fields.iter().map(|f| subst(f, &s)).collect())
            }
            Constructor::Struct(sc) => {
                let def = match self.d.structs.get(&sc.type_name.0) {
                    Some(d) => *d,
                    None => {
                        self.err(format!("constructor of struct {} which is not declared", sc.type_name.0));
                        return None;
                    }
                };
                if def.generics.len() != targs.len() {
                    if !def.generics.is_empty() || !targs.is_empty() {
                        self.err(format!("struct {} has {} type parameters, value type {:?}", def.name.0, def.generics.len(), at));
                    }
                    return None;
                }
                let s: HashMap<String, Ty> = def.generics.iter().map(|g| g.0.clone()).zip(targs).collect();
                Some(def.fields.iter().map(|(_, f)| subst(f, &s)).collect())
            }
        }
    }
    fn constr_matches_type(&mut self, c: &Constructor, at: &Ty) {
        let base = match at {
            Ty::TApp { ty, .. } => (**ty).clone(),
            o => o.clone(),
        };
        let ok = match (&base, c) {
            (Ty::TEnum { name }, Constructor::Enum(ec)) => *name == ec.type_name.0,
            (Ty::TStruct { name }, Constructor::Struct(sc)) => *name == sc.type_name.0,
            _ => false,
        };
        if !ok {
            self.err(format!("constructor of {} at type {:?}", c.type_name().0, at));
        }
    }
    fn expr(&mut self, e: &U, env: &mut Vec<(String, Ty)>) {
        self.nodes += 1;
        self.carried(e.ty(), "an expression");
        match e {
            U::Var { name, ty } => {
                if let Some((_, bt)) = env.iter().rev().find(|(n, _)| n == name) {
                    let bt = bt.clone();
                    self.same(&format!("use of variable {}", name), &bt, ty);
                } else if let Some((tps, dt)) = self.d.funcs.get(name) {
                    let mut s = HashMap::new();
                    // Lift: a call through a closure variable names the lifted apply function but carries
                    // the closure's own function type (convention, see lift.rs ECall)
                    let lifted_apply = self.d.stage == "lift" && name.starts_with("inherent#closure_env_");
                    if !lifted_apply && !has_tvar(dt) && !instance_of(dt, ty, tps, &mut s) {
                        self.err(format!("use of function {} at type {:?} which is not an instance of its declared type {:?}", name, ty, dt));
                    }
                } else if !POLY_BUILTINS.contains(&name.as_str()) {
                    // Core names a method of a generic inherent impl by (base type, receiver type as written
                    // at the call, method); monomorphisation resolves it to the impl's function by base
                    // and method name. Accept a use that some declared function answers that way.
                    let by_base_and_method = self.d.stage == "core"
                        && compiler::names::parse_inherent_method_fn_name(name)
                            .map(|bm| self.d.funcs.keys().any(|k| compiler::names::parse_inherent_method_fn_name(k) == Some(bm)))
                            .unwrap_or(false);
                    if !by_base_and_method {
                        self.err(format!("variable {} is not in scope of any binder", name));
                    }
                }
            }
            U::Prim { .. } => {}
            U::Constr { c, args, ty } => {
                for a in args {
                    self.expr(a, env);
                }
                self.constr_matches_type(c, ty);
                if let Some(fields) = self.constr_fields(c, ty) {
                    if fields.len() != args.len() {
                        self.err(format!("constructor {} applied to {} arguments, declared with {}", c.name().0, args.len(), fields.len()));
                    } else {
                        for (i, (f, a)) in fields.iter().zip(args).enumerate() {
                            self.same(&format!("argument {} of constructor {}", i, c.name().0), f, a.ty());
                        }
                    }
                }
            }
            U::Tuple { items, ty } => {
                for a in items {
                    self.expr(a, env);
                }
                let actual = Ty::TTuple { typs: items.iter().map(|i| i.ty().clone()).collect() };
                self.same("tuple", ty, &actual);
            }
            U::Array { items, ty } => {
                for a in items {
                    self.expr(a, env);
                }
                match ty {
                    Ty::TArray { len, elem } => {
                        if *len != items.len() && *len != compiler::tast::ARRAY_WILDCARD_LEN {
                            self.err(format!("array literal of {} elements at type {:?}", items.len(), ty));
                        }
                        for a in items {
                            self.same("array element", elem, a.ty());
                        }
                    }
                    o => self.err(format!("array literal at type {:?}", o)),
                }
            }
            U::Closure { params, body, ty } => {
                let n = env.len();
                for (p, t) in params {
                    self.carried(t, &format!("closure parameter {}", p));
                    env.push((p.clone(), t.clone()));
                }
                self.expr(body, env);
                env.truncate(n);
                match ty {
                    Ty::TFunc { params: pts, ret_ty } => {
                        if pts.len() != params.len() {
                            self.err(format!("closure with {} parameters at type {:?}", params.len(), ty));
                        } else {
                            for ((p, t), pt) in params.iter().zip(pts) {
                                self.same(&format!("closure parameter {}", p), pt, t);
                            }
                        }
                        if !diverges(body) {
                            self.same("closure body", ret_ty, body.ty());
                        }
                    }
                    o => self.err(format!("closure at type {:?}", o)),
                }
            }
            U::Let { name, value, body, ty } => {
                self.expr(value, env);
                env.push((name.clone(), value.ty().clone()));
                self.expr(body, env);
                env.pop();
                self.same(&format!("let {}", name), ty, body.ty());
            }
            U::Match { expr, arms, default, ty } => {
                self.expr(expr, env);
                for (lhs, body) in arms {
                    // arm tags: constructor applications (arguments are placeholders) or literals
                    if let U::Constr { c, ty: lt, .. } = lhs {
                        self.constr_matches_type(c, lt);
                    }
                    self.same("match arm tag", expr.ty(), lhs.ty());
                    self.expr(body, env);
                    if !diverges(body) {
                        self.same("match arm", ty, body.ty());
                    }
                }
                if let Some(d) = default {
                    self.expr(d, env);
                    if !diverges(d) {
                        self.same("match default", ty, d.ty());
                    }
                }
            }
            U::If { cond, then_, else_, ty } => {
                self.expr(cond, env);
                self.expr(then_, env);
                self.expr(else_, env);
                self.same("if condition", &Ty::TBool, cond.ty());
                if !diverges(then_) {
                    self.same("then branch", ty, then_.ty());
                }
                if !diverges(else_) {
                    self.same("else branch", ty, else_.ty());
                }
            }
            U::While { cond, body, ty } => {
                self.expr(cond, env);
                self.expr(body, env);
                self.same("while condition", &Ty::TBool, cond.ty());
                self.same("while", &Ty::TUnit, ty);
            }
            U::Go { expr, ty } => {
                self.expr(expr, env);
                self.same("go", &Ty::TUnit, ty);
                match expr.ty() {
                    Ty::TFunc { params, .. } if params.is_empty() => {}
                    t if is_closure_env(t) => {}
                    o => self.err(format!("go applied to a value of type {:?}", o)),
                }
            }
            U::Get { expr, c, idx, ty } => {
                self.expr(expr, env);
                self.constr_matches_type(c, expr.ty());
                let et = expr.ty().clone();
                if let Some(fields) = self.constr_fields(c, &et) {
                    match fields.get(*idx) {
                        Some(f) => self.same(&format!("field {} of {}", idx, c.name().0), f, ty),
                        None => self.err(format!("field {} of {} which has {} fields", idx, c.name().0, fields.len())),
                    }
                }
            }
            U::Unary { op, expr, ty } => {
                self.expr(expr, env);
                match op {
                    common_defs::UnaryOp::Not => {
                        self.same("operand of !", &Ty::TBool, expr.ty());
                        self.same("result of !", &Ty::TBool, ty);
                    }
                    common_defs::UnaryOp::Neg => self.same("result of unary -", expr.ty(), ty),
                }
            }
            U::Binary { op, lhs, rhs, ty } => {
                self.expr(lhs, env);
                self.expr(rhs, env);
                self.same(&format!("operands of {:?}", op), lhs.ty(), rhs.ty());
                use common_defs::BinaryOp::*;
                match op {
                    Add | Sub | Mul | Div => self.same(&format!("result of {:?}", op), lhs.ty(), ty),
                    And | Or => {
                        self.same(&format!("operand of {:?}", op), &Ty::TBool, lhs.ty());
                        self.same(&format!("result of {:?}", op), &Ty::TBool, ty);
                    }
                    _ => self.same(&format!("result of {:?}", op), &Ty::TBool, ty),
                }
            }
            U::Call { func, args, ty } => {
                self.expr(func, env);
                for a in args {
                    self.expr(a, env);
                }
                let lifted_apply = self.d.stage == "lift" && matches!(&**func, U::Var { name, .. } if name.starts_with("inherent#closure_env_"));
                if lifted_apply {
                    return;
                }
                match func.ty() {
                    Ty::TFunc { params, ret_ty } => {
                        if params.len() != args.len() {
                            self.err(format!("call with {} arguments of a function of type {:?}", args.len(), func.ty()));
                        } else {
                            for (i, (p, a)) in params.iter().zip(args).enumerate() {
                                self.same(&format!("argument {} of a call", i), p, a.ty());
                            }
                        }
                        if !is_missing_call(e) {
                            self.same("result of a call", ret_ty, ty);
                        }
                    }
                    t if is_closure_env(t) => {}
                    o => self.err(format!("call of a value of type {:?}", o)),
                }
            }
            U::ToDyn { for_ty, expr, ty } => {
                self.expr(expr, env);
                self.same("value coerced to dyn", for_ty, expr.ty());
                if !matches!(ty, Ty::TDyn { .. }) {
                    self.err(format!("dyn coercion at type {:?}", ty));
                }
            }
            U::Opaque { subs, .. } => {
                for a in subs {
                    self.expr(a, env);
                }
            }
            U::Proj { tuple, idx, ty } => {
                self.expr(tuple, env);
                match tuple.ty() {
                    Ty::TTuple { typs } => match typs.get(*idx) {
                        Some(ct) => {
                            let ct = ct.clone();
                            self.same(&format!("projection .{}", idx), &ct, ty)
                        }
                        None => self.err(format!("projection .{} of {:?}", idx, tuple.ty())),
                    },
                    o => self.err(format!("projection .{} of a value of type {:?}", idx, o)),
                }
            }
        }
    }
}

fn check_fns(d: &Defs, fns: Vec<(String, Vec<(String, Ty)>, Ty, U)>, out: &mut Vec<(&'static str, String)>, nodes: &mut u64) {
    let mut seen = std::collections::HashSet::new();
    for (name, params, ret, body) in fns {
        if !seen.insert(name.clone()) {
            out.push((d.stage, format!("function {} is defined twice", name)));
        }
        let mut ck = Ck { d, errs: Vec::new(), fn_name: name.clone(), nodes: 0 };
        for (p, t) in &params {
            ck.carried(t, &format!("parameter {}", p));
        }
        ck.carried(&ret, "the return type");
        let mut env = params.clone();
        ck.expr(&body, &mut env);
        if !diverges(&body) {
            ck.same("function body", &ret, body.ty());
        }
        *nodes += ck.nodes;
        for e in ck.errs {
            out.push((d.stage, e));
        }
    }
}

pub fn check_stages(c: &Compilation) -> (Vec<(&'static str, String)>, u64) {
    let mut out = Vec::new();
    let mut nodes = 0u64;
    // ---- Core (generic): definitions of the typing environment
    {
        let genv = &c.genv;
        let mut funcs: HashMap<String, (Vec<String>, Ty)> = HashMap::new();
        for (n, s) in genv.value_env.funcs.iter() {
            funcs.insert(n.clone(), (s.type_params.clone(), s.ty.clone()));
        }
        for (n, x) in genv.value_env.extern_funcs.iter() {
            funcs.entry(n.clone()).or_insert_with(|| (vec![], x.ty.clone()));
        }
        for f in &c.core.toplevels {
            funcs.entry(f.name.clone()).or_insert_with(|| (f.generics.clone(), Ty::TFunc { params: f.params.iter().map(|(_, t)| t.clone()).collect(), ret_ty: Box::new(f.ret_ty.clone()) }));
        }
        let d = Defs {
            enums: genv.type_env.enums.iter().map(|(k, v)| (k.0.clone(), v)).collect(),
            structs: genv.type_env.structs.iter().map(|(k, v)| (k.0.clone(), v)).collect(),
            funcs,
            mono: false,
            stage: "core",
        };
        let fns = c.core.toplevels.iter().map(|f| (f.name.clone(), f.params.clone(), f.ret_ty.clone(), conv_core(&f.body))).collect();
        check_fns(&d, fns, &mut out, &mut nodes);
    }
    // ---- Mono
    {
        let env = &c.monoenv;
        let mut funcs: HashMap<String, (Vec<String>, Ty)> = HashMap::new();
        for f in &c.mono.toplevels {
            funcs.insert(f.name.clone(), (vec![], Ty::TFunc { params: f.params.iter().map(|(_, t)| t.clone()).collect(), ret_ty: Box::new(f.ret_ty.clone()) }));
        }
        for (n, x) in env.genv.value_env.extern_funcs.iter() {
            funcs.entry(n.clone()).or_insert_with(|| (vec![], x.ty.clone()));
        }
        for (n, s) in env.genv.value_env.funcs.iter() {
            funcs.entry(n.clone()).or_insert_with(|| (s.type_params.clone(), s.ty.clone()));
        }
        let d = Defs { enums: env.enums().map(|(k, v)| (k.0.clone(), v)).collect(), structs: env.structs().map(|(k, v)| (k.0.clone(), v)).collect(), funcs, mono: true, stage: "mono" };
        let fns = c.mono.toplevels.iter().map(|f| (f.name.clone(), f.params.clone(), f.ret_ty.clone(), conv_mono(&f.body))).collect();
        check_fns(&d, fns, &mut out, &mut nodes);
    }
    // ---- Lift
    {
        let env = &c.liftenv;
        let mut funcs: HashMap<String, (Vec<String>, Ty)> = HashMap::new();
        for f in &c.lambda.toplevels {
            funcs.insert(f.name.clone(), (vec![], Ty::TFunc { params: f.params.iter().map(|(_, t)| t.clone()).collect(), ret_ty: Box::new(f.ret_ty.clone()) }));
        }
        for (n, x) in env.monoenv.genv.value_env.extern_funcs.iter() {
            funcs.entry(n.clone()).or_insert_with(|| (vec![], x.ty.clone()));
        }
        for (n, s) in env.monoenv.genv.value_env.funcs.iter() {
            funcs.entry(n.clone()).or_insert_with(|| (s.type_params.clone(), s.ty.clone()));
        }
        let d = Defs { enums: env.enums().map(|(k, v)| (k.0.clone(), v)).collect(), structs: env.structs().map(|(k, v)| (k.0.clone(), v)).collect(), funcs, mono: true, stage: "lift" };
        let fns = c.lambda.toplevels.iter().map(|f| (f.name.clone(), f.params.clone(), f.ret_ty.clone(), conv_lift(&f.body))).collect();
        check_fns(&d, fns, &mut out, &mut nodes);
    }
    (out, nodes)
}
