//! Shared pipeline: source text → real compiler → emitted Go text → gosem.

use crate::gosem::{self, GoVerdict};
use compiler::pipeline::pipeline::{Compilation, CompilationError, compile};
use std::panic::{AssertUnwindSafe, catch_unwind};
use std::path::{Path, PathBuf};

pub enum CompileOutcome {
    Ok(Box<Compilation>),
    Err(CompilationError),
    Panic(String),
}

pub fn panic_message(e: Box<dyn std::any::Any + Send>) -> String {
    if let Some(s) = e.downcast_ref::<&str>() {
        s.to_string()
    } else if let Some(s) = e.downcast_ref::<String>() {
        s.clone()
    } else {
        "<non-string panic>".to_string()
    }
}

pub fn compile_at(path: &Path, src: &str) -> CompileOutcome {
    match catch_unwind(AssertUnwindSafe(|| compile(path, src))) {
        Ok(Ok(c)) => CompileOutcome::Ok(Box::new(c)),
        Ok(Err(e)) => CompileOutcome::Err(e),
        Err(p) => CompileOutcome::Panic(panic_message(p)),
    }
}

pub fn go_text(c: &Compilation) -> Result<String, String> {
    match catch_unwind(AssertUnwindSafe(|| c.go.to_pretty(&c.goenv, 120))) {
        Ok(s) => Ok(s),
        Err(p) => Err(panic_message(p)),
    }
}

/// scratch directory for this process: an empty directory whose (non-existent) main.gom is the
/// path handed to `compile` for single-file cases.
pub struct Scratch {
    pub root: PathBuf,
    pub empty: PathBuf,
}

impl Scratch {
    pub fn new(tag: &str) -> Scratch {
        let base = if Path::new("/dev/shm").is_dir() { PathBuf::from("/dev/shm") } else { std::env::temp_dir() };
        let root = base.join(format!("gomlmc-{}-{}", tag, std::process::id()));
        let _ = std::fs::remove_dir_all(&root);
        let empty = root.join("single");
        std::fs::create_dir_all(&empty).expect("create scratch");
        Scratch { root, empty }
    }
    pub fn single_path(&self) -> PathBuf {
        self.empty.join("main.gom")
    }
    /// fresh sub-directory (removed and recreated)
    pub fn fresh_dir(&self, name: &str) -> PathBuf {
        let d = self.root.join(name);
        let _ = std::fs::remove_dir_all(&d);
        std::fs::create_dir_all(&d).expect("create scratch sub dir");
        d
    }
}

impl Drop for Scratch {
    fn drop(&mut self) {
        let _ = std::fs::remove_dir_all(&self.root);
    }
}

/// normalised end of an execution, comparable between the Go model and the reference semantics
#[derive(Debug, Clone, PartialEq, Eq, Hash, PartialOrd, Ord)]
pub enum NEnd {
    Ok,
    TrapDivZero,
    TrapIndex,
    TrapMissing,
    /// a Go panic with no source-level counterpart
    GoPanic(String),
    Horizon,
    Unsupported(String),
}

#[derive(Debug, Clone, PartialEq, Eq, Hash, PartialOrd, Ord)]
pub struct Obs {
    pub stdout: Vec<u8>,
    pub end: NEnd,
}

pub fn obs_of_go(r: &gosem::run::RunResult) -> Obs {
    use gosem::run::{End, PanicKind};
    let end = match &r.end {
        End::Ok => NEnd::Ok,
        End::Panic(PanicKind::DivZero) => NEnd::TrapDivZero,
        End::Panic(PanicKind::Index) => NEnd::TrapIndex,
        End::Panic(PanicKind::Explicit(m)) if m.is_empty() && r.stderr.starts_with(b"missing: ") || ends_with_missing(&r.stderr) => {
            NEnd::TrapMissing
        }
        End::Panic(k) => NEnd::GoPanic(format!("{:?}", k)),
        End::Fuel => NEnd::Horizon,
        End::Unsupported(s) => NEnd::Unsupported(s.clone()),
        End::Deadlock => NEnd::GoPanic("deadlock".into()),
    };
    Obs {
        stdout: r.stdout.clone(),
        end,
    }
}

fn ends_with_missing(stderr: &[u8]) -> bool {
    // the runtime helper prints "missing: <msg>" with println (stderr) and then panics with ""
    let s = String::from_utf8_lossy(stderr);
    s.contains("missing: ") && s.trim_end().ends_with("panic:")
}

pub fn obs_of_ref(r: &crate::ug::eval::RunResult) -> Obs {
    use crate::ug::eval::{End, Trap};
    let end = match &r.end {
        End::Ok => NEnd::Ok,
        End::Trap(Trap::DivZero) => NEnd::TrapDivZero,
        End::Trap(Trap::Index) => NEnd::TrapIndex,
        End::Trap(Trap::Missing) => NEnd::TrapMissing,
        End::Fuel => NEnd::Horizon,
        End::Unsupported(s) => NEnd::Unsupported(s.clone()),
    };
    Obs {
        stdout: r.stdout.clone(),
        end,
    }
}

/// `%!d(float64=27.25)` → `27.25` (known finding class `float-verb`); returns whether anything changed
pub fn strip_float_verb(s: &[u8]) -> (Vec<u8>, bool) {
    let text = String::from_utf8_lossy(s).into_owned();
    let mut out = String::new();
    let mut changed = false;
    let mut rest = text.as_str();
    loop {
        let p32 = rest.find("%!d(float32=");
        let p64 = rest.find("%!d(float64=");
        let p = match (p32, p64) {
            (Some(a), Some(b)) => a.min(b),
            (Some(a), None) => a,
            (None, Some(b)) => b,
            (None, None) => break,
        };
        out.push_str(&rest[..p]);
        let after = &rest[p + 12..];
        if let Some(close) = after.find(')') {
            out.push_str(&after[..close]);
            rest = &after[close + 1..];
            changed = true;
        } else {
            out.push_str(&rest[p..]);
            rest = "";
            break;
        }
    }
    out.push_str(rest);
    (out.into_bytes(), changed)
}

pub struct GoRun {
    pub text: String,
    pub verdict: GoVerdict,
    pub run: Option<gosem::run::RunResult>,
}

pub fn analyse_and_run(text: String, fuel: u64) -> GoRun {
    let verdict = gosem::analyse(&text);
    let run = match &verdict {
        GoVerdict::Ok(p) => Some(gosem::run::run_main(p.clone(), fuel)),
        _ => None,
    };
    GoRun { text, verdict, run }
}
