mod drive;
mod families;
mod gosem;
mod irck;
mod irstage;
mod oracle;
mod projects;
mod replay;
mod sched;
mod ug;

use drive::Tier;
use std::path::Path;

fn conformance(verbose: bool) -> i32 {
    let root = Path::new("/repo/crates/compiler/src/tests/pipeline");
    let mut dirs: Vec<_> = std::fs::read_dir(root).unwrap().map(|e| e.unwrap().path()).collect();
    dirs.sort();
    let mut bad = 0;
    let mut ok = 0;
    let mut skipped = 0;
    for d in dirs {
        let go = d.join("main.gom.go");
        if !go.exists() {
            continue;
        }
        let text = std::fs::read_to_string(&go).unwrap();
        let name = d.file_name().unwrap().to_string_lossy().to_string();
        let want = std::fs::read(d.join("main.gom.out")).unwrap_or_default();
        match gosem::analyse(&text) {
            gosem::GoVerdict::Ok(p) => {
                let r = gosem::run::run_main(p, 50_000_000);
                let mut got = r.stdout.clone();
                if r.end != gosem::run::End::Ok {
                    got.extend_from_slice(&r.stderr);
                }
                let same = if r.end == gosem::run::End::Ok { got == want } else { want.starts_with(&got) && String::from_utf8_lossy(&want).contains("exit status 2") };
                let no_out = !d.join("main.gom.out").exists();
                if matches!(r.end, gosem::run::End::Unsupported(_)) {
                    skipped += 1;
                    if verbose { println!("{}: skipped ({:?})", name, r.end); }
                } else if (same || no_out) && r.end != gosem::run::End::Fuel {
                    ok += 1;
                } else {
                    bad += 1;
                    println!("{}: MISMATCH end={:?}\n--- got\n{}\n--- want\n{}", name, r.end, String::from_utf8_lossy(&got), String::from_utf8_lossy(&want));
                }
            }
            gosem::GoVerdict::Rejected(errs) => {
                // a golden whose recorded output is a Go compile error at the same line is conformance too
                let w = String::from_utf8_lossy(&want);
                let e = &errs[0];
                if w.contains(&format!("./main.go:{}:", e.line)) {
                    ok += 1;
                    if verbose { println!("{}: rejected as recorded ({} line {})", name, e.rule, e.line); }
                } else {
                    bad += 1;
                    println!("{}: REJECTED {:?}", name, &errs[..errs.len().min(3)]);
                }
            }
            gosem::GoVerdict::Unsupported(m) => {
                skipped += 1;
                if verbose { println!("{}: unsupported {}", name, m); }
            }
        }
    }
    // the hand-written table: verdicts known from the Go specification
    let mut t_ok = 0;
    let mut t_bad = 0;
    for (name, src, want) in gosem::table::table() {
        let got = match gosem::analyse(&src) {
            gosem::GoVerdict::Ok(p) => {
                let r = gosem::run::run_main(p, 1_000_000);
                match r.end {
                    gosem::run::End::Ok => format!("ok:{}", String::from_utf8_lossy(&r.stdout)),
                    gosem::run::End::Panic(_) => format!("panic:{}", String::from_utf8_lossy(&r.stdout)),
                    other => format!("end:{:?}", other),
                }
            }
            gosem::GoVerdict::Rejected(errs) => format!("reject:{}", errs[0].rule),
            gosem::GoVerdict::Unsupported(m) => format!("unsupported:{}", m),
        };
        let expect = match &want {
            gosem::table::Want::Ok(o) => format!("ok:{}", o),
            gosem::table::Want::Reject(r) => format!("reject:{}", r),
            gosem::table::Want::Panics(o) => format!("panic:{}", o),
        };
        if got == expect {
            t_ok += 1;
            if verbose { println!("table {}: {}", name, got.replace('\n', "\\n")); }
        } else {
            t_bad += 1;
            println!("table {}: MISMATCH expected {:?} got {:?}", name, expect, got);
        }
    }
    println!("conformance: ok={} bad={} skipped={} table_ok={} table_bad={}", ok, bad, skipped, t_ok, t_bad);
    if bad > 0 || ok < 70 || t_bad > 0 { 2 } else { 0 }
}

fn oracle_first(e: &compiler::pipeline::pipeline::CompilationError) -> String {
    e.diagnostics().iter().next().map(|d| d.message().to_string()).unwrap_or_default()
}

fn main() {
    let args: Vec<String> = std::env::args().collect();
    match args.get(1).map(|s| s.as_str()) {
        Some("conformance") => std::process::exit(conformance(true)),
        Some("worker") => {
            // worker <family> <tier> <w> <k> <from> <skip|->
            let fam = families::by_name(&args[2]).expect("family");
            let tier = Tier::parse(&args[3]);
            let w: usize = args[4].parse().unwrap();
            let k: usize = args[5].parse().unwrap();
            let from: usize = args[6].parse().unwrap();
            let skip: Vec<usize> = if args[7] == "-" { vec![] } else { args[7].split(',').filter_map(|s| s.parse().ok()).collect() };
            drive::worker_main(&*fam, tier, w, k, from, &skip);
        }
        Some("check") => {
            // check <Cxx> <tier> <verif_root>
            let prop: &'static str = Box::leak(args[2].clone().into_boxed_str());
            let tier = Tier::parse(args.get(3).map(|s| s.as_str()).unwrap_or("quick"));
            let root = args.get(4).cloned().unwrap_or("/verif".into());
            let seed: i64 = std::env::var("VERIF_SEED").ok().and_then(|s| s.parse().ok()).unwrap_or(0);
            if conformance(false) != 0 {
                eprintln!("machinery: gosem conformance against the recorded goldens failed");
                std::process::exit(2);
            }
            let mut fams = families::for_property(prop);
            // triage aid: one family only (never into the committed evidence directory)
            if let Ok(only) = std::env::var("GOMLMC_ONLY") {
                if root == "/verif" {
                    eprintln!("machinery: GOMLMC_ONLY needs a scratch root (the evidence it writes is partial)");
                    std::process::exit(2);
                }
                fams.retain(|f| f.name() == only);
            }
            if fams.is_empty() {
                eprintln!("machinery: no family serves {}", prop);
                std::process::exit(2);
            }
            let refs: Vec<&dyn drive::Family> = fams.iter().map(|f| &**f).collect();
            std::process::exit(drive::run_check(prop, &refs, tier, &root, seed));
        }
        Some("replay") => std::process::exit(replay::replay(&args[2])),
        Some("det-seq") => {
            let idxs: Vec<usize> = args[2..].iter().filter_map(|a| a.parse().ok()).collect();
            families::determinism::det_seq(&idxs);
        }
        Some("det-one") => {
            families::determinism::det_one(args[2].parse().unwrap(), args[3].parse().unwrap());
        }
        Some("list") => {
            // list <family> [tier]: index and case of every case
            let fam = families::by_name(&args[2]).expect("family");
            let tier = Tier::parse(args.get(3).map(|s| s.as_str()).unwrap_or("thorough"));
            for (i, c) in fam.cases(tier).enumerate() {
                println!("{} {}", i, c);
            }
        }
        Some("show") => {
            // show <family> <index>: print the case and its source
            let fam = families::by_name(&args[2]).expect("family");
            let idx: usize = args[3].parse().unwrap();
            let tier = Tier::parse(args.get(4).map(|s| s.as_str()).unwrap_or("thorough"));
            let case = fam.cases(tier).nth(idx).expect("index");
            let mut ctx = drive::Ctx { scratch: oracle::Scratch::new("show"), tier };
            let rep = fam.run(&case, &mut ctx);
            println!("case: {}", case);
            println!("tags: {:?}", rep.tags);
            for f in rep.findings {
                println!("FINDING {} {} {}\n  {}\n{}", f.property, f.class, f.site, f.detail, serde_json::to_string_pretty(&f.replay).unwrap());
            }
            if let Some(s) = rep.sample { println!("sample: {}", serde_json::to_string_pretty(&s).unwrap()); }
        }
        Some("cst") => {
            let path = std::path::PathBuf::from(&args[2]);
            let src = std::fs::read_to_string(&path).unwrap();
            let r = parser::parse(&path, &src);
            println!("{}", parser::debug_tree(&r.green_node));
        }
        Some("irck") => {
            // gomlmc irck <file.gom>… : stage checkers on single files (triage aid)
            for a in &args[2..] {
                let path = std::path::PathBuf::from(a);
                let src = std::fs::read_to_string(&path).unwrap();
                match oracle::compile_at(&path, &src) {
                    oracle::CompileOutcome::Ok(c) => {
                        let r = irck::check_all(&c);
                        println!("{}: {} findings", a, r.len());
                        for (st, m) in r { println!("  [{}] {}", st, m); }
                    }
                    oracle::CompileOutcome::Err(e) => println!("{}: COMPILE ERROR {:?}", a, oracle_first(&e)),
                    oracle::CompileOutcome::Panic(m) => println!("{}: PANIC {}", a, m),
                }
            }
        }
        Some("try") => {
            let path = std::path::PathBuf::from(&args[2]);
            let src = std::fs::read_to_string(&path).unwrap();
            match oracle::compile_at(&path, &src) {
                oracle::CompileOutcome::Ok(c) => {
                    let text = oracle::go_text(&c).unwrap();
                    if args.iter().any(|a| a == "--go") { println!("{}", text); }
                    let r = oracle::analyse_and_run(text, 50_000_000);
                    match &r.verdict {
                        gosem::GoVerdict::Ok(_) => {
                            let run = r.run.unwrap();
                            println!("--- stdout\n{}--- stderr\n{}--- end {:?} steps {}", String::from_utf8_lossy(&run.stdout), String::from_utf8_lossy(&run.stderr), run.end, run.steps);
                        }
                        v => println!("GO VERDICT: {:?}", v),
                    }
                }
                oracle::CompileOutcome::Err(e) => println!("COMPILE ERROR: {:?}", e),
                oracle::CompileOutcome::Panic(m) => println!("COMPILER PANIC: {}", m),
            }
        }
        _ => eprintln!("usage: gomlmc conformance | check <Cxx> <tier> [root] | worker … | show <family> <idx> | try <file.gom> [--go]"),
    }
}
