mod gosem;

use std::path::Path;

fn conformance() -> i32 {
    let root = Path::new("/repo/crates/compiler/src/tests/pipeline");
    let mut dirs: Vec<_> = std::fs::read_dir(root).unwrap().map(|e| e.unwrap().path()).collect();
    dirs.sort();
    let mut bad = 0;
    let mut ok = 0;
    for d in dirs {
        let go = d.join("main.gom.go");
        if !go.exists() {
            continue;
        }
        let text = std::fs::read_to_string(&go).unwrap();
        let name = d.file_name().unwrap().to_string_lossy().to_string();
        match gosem::analyse(&text) {
            gosem::GoVerdict::Ok(p) => {
                let r = gosem::run::run_main(p, 50_000_000);
                let outp = d.join("main.gom.out");
                let want = std::fs::read(&outp).unwrap_or_default();
                let mut got = r.stdout.clone();
                if r.end != gosem::run::End::Ok {
                    got.extend_from_slice(&r.stderr);
                }
                let same = if r.end == gosem::run::End::Ok { got == want } else { want.starts_with(&got) };
                if same && !matches!(r.end, gosem::run::End::Unsupported(_) | gosem::run::End::Fuel) {
                    ok += 1;
                } else {
                    bad += 1;
                    println!("{}: MISMATCH end={:?}\n--- got\n{}\n--- want\n{}", name, r.end, String::from_utf8_lossy(&got), String::from_utf8_lossy(&want));
                }
            }
            gosem::GoVerdict::Rejected(errs) => {
                bad += 1;
                println!("{}: REJECTED {:?}", name, &errs[..errs.len().min(3)]);
            }
            gosem::GoVerdict::Unsupported(m) => {
                println!("{}: unsupported {}", name, m);
            }
        }
    }
    println!("ok={} bad={}", ok, bad);
    if bad > 0 { 2 } else { 0 }
}

fn main() {
    let args: Vec<String> = std::env::args().collect();
    match args.get(1).map(|s| s.as_str()) {
        Some("conformance") => std::process::exit(conformance()),
        _ => eprintln!("usage"),
    }
}
