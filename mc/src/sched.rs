//! Controlled scheduler for `go`: every goroutine runs on its own OS thread but only the thread
//! holding the token runs; at every yield point (shared-memory operation, print, loop back-edge,
//! goroutine end) the schedule (a list of choices) decides who runs next. A stateless DFS over the
//! choice lists enumerates all interleavings (optionally preemption-bounded).

use std::sync::{Arc, Condvar, Mutex};

#[derive(Debug, Clone, Copy, PartialEq, Eq)]
pub enum Point {
    Shared,
    BackEdge,
    Finished,
}

#[derive(Debug, Clone)]
pub struct Choice {
    pub enabled: usize,
    pub chosen: usize,
    /// does choosing an alternative other than 0 here count as a preemption?
    pub preemptive: bool,
}

struct State {
    current: usize,
    alive: Vec<bool>,
    prefix: Vec<usize>,
    pos: usize,
    trace: Vec<Choice>,
    killed: bool,
    divergence: bool,
    spins: Vec<u32>,
}

pub struct Core {
    st: Mutex<State>,
    cv: Condvar,
}

pub enum Decision {
    Continue,
    Killed,
}

impl Core {
    pub fn new(prefix: Vec<usize>) -> Arc<Core> {
        Arc::new(Core {
            st: Mutex::new(State {
                current: 0,
                alive: vec![true],
                prefix,
                pos: 0,
                trace: Vec::new(),
                killed: false,
                divergence: false,
                spins: vec![0],
            }),
            cv: Condvar::new(),
        })
    }

    /// register a new goroutine; returns its id. It will not run until scheduled.
    pub fn register(&self) -> usize {
        let mut st = self.st.lock().unwrap();
        st.alive.push(true);
        st.spins.push(0);
        st.alive.len() - 1
    }

    /// block until this goroutine holds the token (or the program was killed)
    pub fn wait_turn(&self, me: usize) -> Decision {
        let mut st = self.st.lock().unwrap();
        loop {
            if st.killed {
                return Decision::Killed;
            }
            if st.current == me {
                return Decision::Continue;
            }
            st = self.cv.wait(st).unwrap();
        }
    }

    /// a scheduling point reached by the running goroutine `me`
    pub fn point(&self, me: usize, kind: Point) -> Decision {
        let mut st = self.st.lock().unwrap();
        if st.killed {
            return Decision::Killed;
        }
        if kind == Point::Finished {
            st.alive[me] = false;
            if me == 0 {
                // main returned: the program ends, remaining goroutines are discarded
                st.killed = true;
                self.cv.notify_all();
                return Decision::Killed;
            }
        }
        // canonical order of enabled goroutines: the running one first (unless it finished, or it is
        // spinning on a loop back-edge: then the others go first so that spinning cannot starve them)
        let others: Vec<usize> = (0..st.alive.len()).filter(|g| st.alive[*g] && *g != me).collect();
        let mut enabled: Vec<usize> = Vec::new();
        let me_runnable = st.alive[me];
        if kind == Point::BackEdge {
            st.spins[me] += 1;
            // a loop iteration with nobody else having moved re-checks an unchanged state (stutter):
            // hand the token to someone else whenever someone else can run. No interleaving is lost,
            // because every goroutine yields *before* each of its shared operations.
            enabled.extend(others.iter().cloned());
            if enabled.is_empty() && me_runnable {
                enabled.push(me);
            }
        } else {
            if me_runnable {
                enabled.push(me);
            }
            enabled.extend(others.iter().cloned());
        }
        if enabled.is_empty() {
            st.killed = true;
            self.cv.notify_all();
            return Decision::Killed;
        }
        if kind == Point::BackEdge && st.spins[me] > 300 {
            // only a spinner is left and nobody can change what it waits for
            st.divergence = true;
            st.killed = true;
            self.cv.notify_all();
            return Decision::Killed;
        }
        let idx = if enabled.len() == 1 {
            0
        } else {
            let i = if st.pos < st.prefix.len() { st.prefix[st.pos] } else { 0 };
            st.pos += 1;
            let i = i.min(enabled.len() - 1);
            st.trace.push(Choice { enabled: enabled.len(), chosen: i, preemptive: kind == Point::Shared });
            i
        };
        let next = enabled[idx];
        st.current = next;
        self.cv.notify_all();
        if next == me {
            return Decision::Continue;
        }
        if !me_runnable {
            return Decision::Killed; // finished goroutine: its thread simply ends
        }
        loop {
            if st.killed {
                return Decision::Killed;
            }
            if st.current == me {
                return Decision::Continue;
            }
            st = self.cv.wait(st).unwrap();
        }
    }

    pub fn kill(&self) {
        let mut st = self.st.lock().unwrap();
        st.killed = true;
        self.cv.notify_all();
    }

    pub fn trace(&self) -> Vec<Choice> {
        self.st.lock().unwrap().trace.clone()
    }
    pub fn diverged(&self) -> bool {
        self.st.lock().unwrap().divergence
    }
}

pub struct Exploration<O> {
    pub outcomes: std::collections::BTreeMap<O, (u64, Vec<usize>)>,
    pub schedules: u64,
    pub max_choice_points: usize,
    pub capped: bool,
}

/// DFS over all schedules. `run(prefix)` executes the program once under the schedule prefix and
/// returns (outcome, trace).
pub fn explore<O: Ord + Clone>(run: &mut dyn FnMut(&[usize]) -> (O, Vec<Choice>), preemption_bound: Option<u32>, cap: u64) -> Exploration<O> {
    let mut ex = Exploration { outcomes: std::collections::BTreeMap::new(), schedules: 0, max_choice_points: 0, capped: false };
    let mut stack: Vec<Vec<usize>> = vec![vec![]];
    while let Some(prefix) = stack.pop() {
        if ex.schedules >= cap {
            ex.capped = true;
            break;
        }
        let (o, trace) = run(&prefix);
        ex.schedules += 1;
        ex.max_choice_points = ex.max_choice_points.max(trace.len());
        let e = ex.outcomes.entry(o).or_insert((0, prefix.clone()));
        e.0 += 1;
        // preemptions used by the chosen path up to each point
        let mut used = 0u32;
        for i in 0..trace.len() {
            if i >= prefix.len() {
                for alt in 1..trace[i].enabled {
                    let cost = used + if trace[i].preemptive { 1 } else { 0 };
                    if let Some(b) = preemption_bound {
                        if cost > b {
                            continue;
                        }
                    }
                    let mut p: Vec<usize> = trace[..i].iter().map(|c| c.chosen).collect();
                    p.push(alt);
                    stack.push(p);
                }
            }
            if trace[i].preemptive && trace[i].chosen != 0 {
                used += 1;
            }
        }
    }
    ex
}

// ------------------------------------------------------------------ adapters

pub mod go_side {
    use super::*;
    use crate::gosem::check::Program;
    use crate::gosem::run::{End, Host, Interp, PanicKind, RunResult, Stop, V, YieldKind};

    struct Shared {
        core: Arc<Core>,
        handles: Mutex<Vec<std::thread::JoinHandle<()>>>,
        failure: Mutex<Option<End>>,
        fuel: u64,
        prog: Arc<Program>,
        out: Arc<Mutex<(Vec<u8>, Vec<u8>)>>,
    }

    struct ThreadHost {
        me: usize,
        sh: Arc<Shared>,
    }

    fn stop_to_end(s: &Stop) -> Option<End> {
        match s {
            Stop::Panic(k) => Some(End::Panic(k.clone())),
            Stop::Fuel => Some(End::Fuel),
            Stop::Unsupported(m) => Some(End::Unsupported(m.clone())),
            Stop::Killed => None,
        }
    }

    impl Host for ThreadHost {
        fn yield_point(&mut self, _it: &mut Interp, kind: YieldKind) -> Result<(), Stop> {
            let p = match kind {
                YieldKind::SharedOp => Point::Shared,
                YieldKind::BackEdge => Point::BackEdge,
                YieldKind::Spawn => Point::Shared,
            };
            match self.sh.core.point(self.me, p) {
                Decision::Continue => Ok(()),
                Decision::Killed => Err(Stop::Killed),
            }
        }
        fn spawn(&mut self, it: &mut Interp, func: V, args: Vec<V>) -> Result<(), Stop> {
            let id = self.sh.core.register();
            let sh = self.sh.clone();
            let h = std::thread::Builder::new()
                .stack_size(16 << 20)
                .spawn(move || {
                    if let Decision::Killed = sh.core.wait_turn(id) {
                        return;
                    }
                    let mut gi = Interp::new(sh.prog.clone(), sh.fuel);
                    gi.out = sh.out.clone();
                    gi.host = Some(Box::new(ThreadHost { me: id, sh: sh.clone() }));
                    let r = gi.call_value(func, args);
                    if let Err(s) = &r {
                        if let Some(e) = stop_to_end(s) {
                            // an uncaught panic in any goroutine ends the whole program
                            let mut f = sh.failure.lock().unwrap();
                            if f.is_none() {
                                *f = Some(e);
                            }
                            sh.core.kill();
                            return;
                        }
                        return;
                    }
                    let _ = sh.core.point(id, Point::Finished);
                })
                .expect("spawn goroutine thread");
            self.sh.handles.lock().unwrap().push(h);
            // the spawner continues, but the new goroutine may run first
            self.yield_point(it, YieldKind::Spawn)
        }
    }

    pub fn run_with_schedule(prog: Arc<Program>, fuel: u64, prefix: &[usize]) -> (RunResult, Vec<Choice>, bool) {
        let core = Core::new(prefix.to_vec());
        let out = Arc::new(Mutex::new((Vec::new(), Vec::new())));
        let sh = Arc::new(Shared { core: core.clone(), handles: Mutex::new(Vec::new()), failure: Mutex::new(None), fuel, prog: prog.clone(), out: out.clone() });
        let mut it = Interp::new(prog, fuel);
        it.out = out.clone();
        it.host = Some(Box::new(ThreadHost { me: 0, sh: sh.clone() }));
        let r = it.call_func("main", vec![]);
        let mut end = match &r {
            Ok(_) => End::Ok,
            Err(s) => stop_to_end(s).unwrap_or(End::Ok),
        };
        match &r {
            Ok(_) => {
                let _ = core.point(0, Point::Finished);
            }
            Err(_) => core.kill(),
        }
        loop {
            let h = sh.handles.lock().unwrap().pop();
            match h {
                Some(h) => {
                    let _ = h.join();
                }
                None => break,
            }
        }
        if let Some(f) = sh.failure.lock().unwrap().clone() {
            end = f;
        }
        let diverged = core.diverged();
        if diverged {
            end = End::Deadlock;
        }
        let o = out.lock().unwrap();
        let mut stderr = o.1.clone();
        if let End::Panic(k) = &end {
            stderr.extend_from_slice(crate::gosem::run::panic_text(k).as_bytes());
        }
        let _ = PanicKind::DivZero;
        (RunResult { stdout: o.0.clone(), stderr, end, steps: it.steps }, core.trace(), diverged)
    }
}

pub mod ref_side {
    use super::*;
    use crate::ug::ast::Program;
    use crate::ug::eval::{End, Eval, Host, Index, RunResult, Stop, Val, YieldKind};

    struct Shared {
        core: Arc<Core>,
        handles: Mutex<Vec<std::thread::JoinHandle<()>>>,
        failure: Mutex<Option<End>>,
        fuel: u64,
        ix: Arc<Index>,
        out: Arc<Mutex<Vec<u8>>>,
    }

    struct ThreadHost {
        me: usize,
        sh: Arc<Shared>,
    }

    fn stop_to_end(s: &Stop) -> Option<End> {
        match s {
            Stop::Trap(k) => Some(End::Trap(k.clone())),
            Stop::Fuel => Some(End::Fuel),
            Stop::Unsupported(m) => Some(End::Unsupported(m.clone())),
            Stop::Killed => None,
        }
    }

    impl Host for ThreadHost {
        fn yield_point(&mut self, _ev: &mut Eval, kind: YieldKind) -> Result<(), Stop> {
            let p = match kind {
                YieldKind::SharedOp => Point::Shared,
                YieldKind::BackEdge => Point::BackEdge,
            };
            match self.sh.core.point(self.me, p) {
                Decision::Continue => Ok(()),
                Decision::Killed => Err(Stop::Killed),
            }
        }
        fn spawn(&mut self, ev: &mut Eval, closure: Val) -> Result<(), Stop> {
            let id = self.sh.core.register();
            let sh = self.sh.clone();
            let h = std::thread::Builder::new()
                .stack_size(16 << 20)
                .spawn(move || {
                    if let Decision::Killed = sh.core.wait_turn(id) {
                        return;
                    }
                    let mut ge = Eval::new(sh.ix.clone(), sh.fuel);
                    ge.out = sh.out.clone();
                    ge.host = Some(Box::new(ThreadHost { me: id, sh: sh.clone() }));
                    let r = ge.apply(closure, vec![]);
                    if let Err(s) = &r {
                        if let Some(e) = stop_to_end(s) {
                            let mut f = sh.failure.lock().unwrap();
                            if f.is_none() {
                                *f = Some(e);
                            }
                            sh.core.kill();
                        }
                        return;
                    }
                    let _ = sh.core.point(id, Point::Finished);
                })
                .expect("spawn reference goroutine thread");
            self.sh.handles.lock().unwrap().push(h);
            self.yield_point(ev, YieldKind::SharedOp)
        }
    }

    pub fn run_with_schedule(p: &Program, fuel: u64, prefix: &[usize]) -> (RunResult, Vec<Choice>, bool) {
        let ix = Arc::new(Index::new(p));
        let core = Core::new(prefix.to_vec());
        let out = Arc::new(Mutex::new(Vec::new()));
        let sh = Arc::new(Shared { core: core.clone(), handles: Mutex::new(Vec::new()), failure: Mutex::new(None), fuel, ix: ix.clone(), out: out.clone() });
        let mut ev = Eval::new(ix, fuel);
        ev.out = out.clone();
        ev.host = Some(Box::new(ThreadHost { me: 0, sh: sh.clone() }));
        let r = ev.call_fn("main", &[], vec![]);
        let mut end = match &r {
            Ok(_) => End::Ok,
            Err(s) => stop_to_end(s).unwrap_or(End::Ok),
        };
        match &r {
            Ok(_) => {
                let _ = core.point(0, Point::Finished);
            }
            Err(_) => core.kill(),
        }
        loop {
            let h = sh.handles.lock().unwrap().pop();
            match h {
                Some(h) => {
                    let _ = h.join();
                }
                None => break,
            }
        }
        if let Some(f) = sh.failure.lock().unwrap().clone() {
            end = f;
        }
        let diverged = core.diverged();
        let stdout = out.lock().unwrap().clone();
        (RunResult { stdout, end, steps: ev.steps }, core.trace(), diverged)
    }
}
