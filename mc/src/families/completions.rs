//! C20, second clause: "every completion offered after `x.` or `Path::` names a field, method,
//! variant or item that exists and type-checks when inserted". Receivers and namespaces are
//! enumerated systematically: every kind of type a receiver can have (struct, generic instance,
//! reference, vector, tuple, array, enum, primitive with an inherent impl, dyn, bounded type
//! parameter, function value, ...) reached through every kind of expression (local, field,
//! projection, call, builtin accessor, closure parameter, pattern variable, self), and every kind
//! of namespace (enum, struct, generic struct, trait, primitive, own package, imported package,
//! package that is only transitively reachable, items of an imported package, unknown name).

use crate::drive::*;
use crate::families::common::{describe_err, normalise_msg};
use crate::oracle::panic_message;
use compiler::query::{ColonColonCompletionKind, DotCompletionKind, colon_colon_completions, dot_completions};
use serde_json::{Value, json};
use std::panic::{AssertUnwindSafe, catch_unwind};
use std::path::Path;

const PRELUDE: &str = "struct S { x: int32, y: string }
struct W { inner: S, n: int32 }
struct Box[T] { v: T }
enum E { A, B(int32) }
enum Opt[T] { Non, Som(T) }
trait Tr { fn tm(Self) -> int32; fn tk(Self, int32) -> int32; }
impl S { fn get(self: S) -> int32 { self.x } fn add(self: S, k: int32) -> int32 { self.x + k } fn make(k: int32) -> S { S { x: k, y: \"m\" } } fn zero() -> int32 { 0 } }
impl[T] Box[T] { fn unbox(self: Box[T]) -> T { self.v } fn wrap(v: T) -> Box[T] { Box { v: v } } }
impl Box[int32] { fn only_int(self: Box[int32]) -> int32 { self.v } }
struct Vv[T] { v: T }
impl[T] Box[Vv[T]] { fn first(self: Box[Vv[T]]) -> T { self.v.v } }
impl E { fn code(self: E) -> int32 { 1 } fn first() -> E { A } }
impl Tr for S { fn tm(self: S) -> int32 { 1 } fn tk(self: S, k: int32) -> int32 { k } }
impl Tr for int32 { fn tm(self: int32) -> int32 { 2 } fn tk(self: int32, k: int32) -> int32 { k } }
fn mk() -> S { S { x: 1, y: \"a\" } }
";

const LOCALS: &str = "    let s: S = mk();
    let w = W { inner: s, n: 1 };
    let b = Box { v: 1 };
    let bs = Box { v: \"s\" };
    let r = ref(s);
    let v: Vec[S] = vec_push(vec_new(), s);
    let t = (s, 1);
    let a = [s, s];
    let e = B(1);
    let o = Som(s);
    let i = 5;
    let st = \"x\";
    let d: dyn Tr = s;
    let rb = ref(b);
    let bb = Box { v: b };
    let c = |q: S| 0;
    let u0 = ();
    let ba: Box[int32] = Box { v: 1 };
    let bv: Box[Vv[int32]] = Box { v: Vv { v: 2 } };
    let bst: Box[string] = Box { v: \"t\" };
";

/// (name, receiver expression) evaluated in `main` after LOCALS
const MAIN_RECEIVERS: [(&str, &str); 33] = [
    ("struct-local", "s"),
    ("struct-with-struct-field", "w"),
    ("field-of-struct-type", "w.inner"),
    ("field-of-int-type", "w.n"),
    ("generic-instance-int", "b"),
    ("generic-instance-string", "bs"),
    ("ref-of-struct", "r"),
    ("vec-of-struct", "v"),
    ("tuple", "t"),
    ("tuple-projection-struct", "t.0"),
    ("tuple-projection-int", "t.1"),
    ("array-of-struct", "a"),
    ("enum", "e"),
    ("generic-enum-instance", "o"),
    ("int32", "i"),
    ("string", "st"),
    ("dyn", "d"),
    ("ref-of-generic-instance", "rb"),
    ("generic-instance-of-generic-instance", "bb"),
    ("field-of-generic-type", "bb.v"),
    ("field-of-type-parameter-type", "b.v"),
    ("call-result", "mk()"),
    ("closure-value", "c"),
    ("unit", "u0"),
    ("parenthesised", "(s)"),
    ("ref-get", "ref_get(r)"),
    ("vec-get", "vec_get(v, 0)"),
    ("array-get", "array_get(a, 0)"),
    ("method-call-result", "b.unbox()"),
    ("literal", "7"),
    // annotated instances: an impl for `Box[int32]` and one for `Box[Vv[T]]` exist next to `impl[T] Box[T]`
    ("annotated-generic-instance-int", "ba"),
    ("annotated-instance-of-nested-impl-pattern", "bv"),
    ("annotated-generic-instance-string", "bst"),
];

/// (name, whole program with § at the cursor)
fn contexts() -> Vec<(String, String)> {
    let mut v = Vec::new();
    for (n, recv) in MAIN_RECEIVERS {
        v.push((n.to_string(), format!("{}fn main() {{\n{}    let zz = {}.§;\n    ()\n}}\n", PRELUDE, LOCALS, recv)));
    }
    v.push(("bounded-type-parameter".into(), format!("{}fn gen[U: Tr](u: U) -> int32 {{\n    let zz = u.§;\n    0\n}}\nfn main() {{ () }}\n", PRELUDE)));
    // a type parameter under several bounds: methods of disjoint names, one name declared by both traits (a
    // call `u.sh()` is then ambiguous), a trait without self methods, the parameter of a method, a value of
    // the parameter's type reached through a field / a call
    let bounds = "trait Sh { fn sh(Self) -> string; fn only_sh(Self) -> int32; }\ntrait Db { fn sh(Self) -> string; fn only_db(Self, int32) -> int32; }\ntrait St { fn mk_st() -> int32; }\nimpl Sh for S { fn sh(self: S) -> string { \"s\" } fn only_sh(self: S) -> int32 { 1 } }\nimpl Db for S { fn sh(self: S) -> string { \"d\" } fn only_db(self: S, k: int32) -> int32 { k } }\nfn idg[Q](q: Q) -> Q { q }\n";
    for (bn, header, recv) in [
        ("two-traits-disjoint-names", "fn gen[U: Tr + Sh](u: U) -> int32", "u"),
        ("two-traits-sharing-a-name", "fn gen[U: Sh + Db](u: U) -> int32", "u"),
        ("two-traits-sharing-a-name-other-order", "fn gen[U: Db + Sh](u: U) -> int32", "u"),
        ("three-traits", "fn gen[U: Tr + Sh + Db](u: U) -> int32", "u"),
        ("second-parameter-bounded", "fn gen[V, U: Sh](v: V, u: U) -> int32", "u"),
        ("first-parameter-unbounded", "fn gen[V, U: Sh](v: V, u: U) -> int32", "v"),
        ("through-a-field", "fn gen[U: Sh + Db](b: Box[U]) -> int32", "b.v"),
        ("through-a-generic-call", "fn gen[U: Sh + Db](u: U) -> int32", "idg(u)"),
        ("in-a-closure", "fn gen[U: Sh + Db](u: U) -> int32", "CLOSURE"),
    ] {
        let body = if recv == "CLOSURE" { "    let c3 = |k: int32| {\n        let zz = u.§;\n        0\n    };\n    0\n".to_string() } else { format!("    let zz = {}.§;\n    0\n", recv) };
        v.push((format!("type-parameter-under-bounds;{}", bn), format!("{}{}{} {{\n{}}}\nfn main() {{ () }}\n", PRELUDE, bounds, header, body)));
    }
    v.push(("type-parameter-under-bounds;method-parameter".into(), format!("{}{}impl W {{\n    fn probe[U: Sh + Db](self: W, u: U) -> int32 {{\n        let zz = u.§;\n        0\n    }}\n}}\nfn main() {{ () }}\n", PRELUDE, bounds)));
    v.push(("unbounded-type-parameter".into(), format!("{}fn gen[U](u: U) -> int32 {{\n    let zz = u.§;\n    0\n}}\nfn main() {{ () }}\n", PRELUDE)));
    v.push(("generic-struct-of-parameter".into(), format!("{}fn gen[U](u: Box[U]) -> int32 {{\n    let zz = u.§;\n    0\n}}\nfn main() {{ () }}\n", PRELUDE)));
    // an impl whose receiver pattern repeats its type parameter, asked about inside a generic function
    // whose own parameter has the same name / another name, with the parameter in one slot or in both
    let two = "struct Two[A, B] { a: A, b: B }\nimpl[T] Two[T, T] { fn same_kind(self: Two[T, T]) -> T { self.a } }\nimpl[T] Two[T, int32] { fn with_int(self: Two[T, int32]) -> int32 { self.b } }\n";
    for (pn, param) in [("same-name", "T"), ("other-name", "Q")] {
        for (rn, recv_ty) in [("parameter-and-int", "Two[§, int32]"), ("int-and-parameter", "Two[int32, §]"), ("parameter-twice", "Two[§, §]"), ("parameter-and-vec-of-it", "Two[§, Vec[§]]"), ("int-twice", "Two[int32, int32]")] {
            let ty = recv_ty.replace('§', param);
            v.push((format!("repeated-impl-parameter;fn-parameter-{};receiver={}", pn, rn), format!("{}{}fn pick[{}](p: {}, unused: {}) -> int32 {{\n    let zz = p.§;\n    0\n}}\nfn main() {{ () }}\n", PRELUDE, two, param, ty, param)));
        }
    }
    v.push(("closure-parameter".into(), format!("{}fn main() {{\n    let c2 = |q: S| {{\n        let zz = q.§;\n        0\n    }};\n    ()\n}}\n", PRELUDE)));
    v.push(("pattern-variable-int".into(), format!("{}fn main() {{\n    let e = B(1);\n    let k = match e {{\n        B(n) => {{\n            let zz = n.§;\n            0\n        }},\n        A => 0,\n    }};\n    ()\n}}\n", PRELUDE)));
    v.push(("pattern-variable-struct".into(), format!("{}fn main() {{\n    let o = Som(mk());\n    let k = match o {{\n        Som(p) => {{\n            let zz = p.§;\n            0\n        }},\n        Non => 0,\n    }};\n    ()\n}}\n", PRELUDE)));
    v.push(("self-in-inherent-method".into(), format!("{}impl W {{\n    fn probe(self: W) -> int32 {{\n        let zz = self.§;\n        0\n    }}\n}}\nfn main() {{ () }}\n", PRELUDE)));
    v.push(("self-in-generic-method".into(), format!("{}struct Pair[T] {{ l: T, r: T }}\nimpl[T] Pair[T] {{\n    fn probe(self: Pair[T]) -> int32 {{\n        let zz = self.§;\n        0\n    }}\n}}\nfn main() {{ () }}\n", PRELUDE)));
    v.push(("function-parameter".into(), format!("{}fn f(p: W, q: Ref[S]) -> int32 {{\n    let zz = p.§;\n    0\n}}\nfn main() {{ () }}\n", PRELUDE)));
    v.push(("function-parameter-ref".into(), format!("{}fn f(p: W, q: Ref[S]) -> int32 {{\n    let zz = q.§;\n    0\n}}\nfn main() {{ () }}\n", PRELUDE)));
    v.push(("shadowed-local".into(), format!("{}fn main() {{\n    let s = mk();\n    let s = 3;\n    let zz = s.§;\n    ()\n}}\n", PRELUDE)));
    v.push(("local-defined-later".into(), format!("{}fn main() {{\n    let s = 3;\n    let zz = s.§;\n    let s = mk();\n    ()\n}}\n", PRELUDE)));
    v
}

const NAMESPACES: [&str; 10] = ["E", "Opt", "S", "W", "Box", "Tr", "int32", "string", "Main", "Nope"];

fn project_files() -> Vec<(&'static str, &'static str)> {
    vec![
        ("Lib/lib.gom", "package Lib\nimport Deep\n\nstruct P { a: int32 }\nenum Shape { Dot, Line(int32) }\nenum Color { Cobalt, Red }\ntrait Show { fn show(Self) -> string; }\nimpl P { fn geta(self: P) -> int32 { self.a } }\nimpl Show for P { fn show(self: P) -> string { \"P\" } }\nfn mk(k: int32) -> P { P { a: k } }\nfn deep() -> int32 { Deep::secret() }\n"),
        ("Deep/lib.gom", "package Deep\n\nstruct Hidden { h: int32 }\nenum Kind { K1, K2 }\ntrait Quiet { fn q(Self) -> int32; }\nfn secret() -> int32 { 7 }\n"),
        ("Other/lib.gom", "package Other\n\nfn unused() -> int32 { 1 }\n"),
    ]
}

const PROJECT_NAMESPACES: [&str; 9] = ["Lib", "Lib::Shape", "Lib::P", "Lib::Show", "Deep", "Deep::Kind", "Other", "Main", "L"];

const DEEP_SEGMENTS: [&str; 10] = ["Lib", "Deep", "Other", "Main", "Shape", "Color", "P", "Show", "Kind", "Hidden"];

/// a Main that declares namesakes of the library's types, with members the library's do not have
fn project_main_with_namesakes(ns: &str) -> String {
    format!("package Main\nimport Lib\n\nenum Color {{ Mine, Red }}\nstruct P {{ z: int32 }}\nimpl P {{ fn origin() -> P {{ P {{ z: 0 }} }} }}\nenum Kind {{ Local }}\nstruct Hidden {{ h: int32 }}\nimpl Hidden {{ fn make() -> Hidden {{ Hidden {{ h: 1 }} }} }}\nfn helper() -> int32 {{ 1 }}\n\nfn main() {{\n    let p = Lib::mk(1);\n    let zz = {}::§;\n    ()\n}}\n", ns)
}

fn project_main(ns: &str) -> String {
    format!("package Main\nimport Lib\n\nfn helper() -> int32 {{ 1 }}\n\nfn main() {{\n    let p = Lib::mk(1);\n    let zz = {}::§;\n    ()\n}}\n", ns)
}

fn line_col(text: &str, off: usize) -> (u32, u32) {
    let before = &text[..off];
    let line = before.matches('\n').count() as u32;
    let col = (off - before.rfind('\n').map(|i| i + 1).unwrap_or(0)) as u32;
    (line, col)
}

fn guarded<T>(f: impl FnOnce() -> T) -> Result<T, String> {
    catch_unwind(AssertUnwindSafe(f)).map_err(|p| normalise_msg(&panic_message(p)))
}

fn typechecks_at(path: &Path, text: &str) -> Result<(), String> {
    let r = catch_unwind(AssertUnwindSafe(|| compiler::pipeline::pipeline::typecheck_with_packages(path, text)));
    match r {
        Err(p) => Err(format!("panic: {}", panic_message(p))),
        Ok(Err(e)) => {
            let (stage, msg) = describe_err(&e);
            Err(format!("{}: {}", stage, msg))
        }
        Ok(Ok((_, _, diags))) => {
            if diags.has_errors() {
                Err(format!("typer: {}", diags.iter().next().map(|d| d.message().to_string()).unwrap_or_default()))
            } else {
                Ok(())
            }
        }
    }
}

fn squash(s: &str) -> String {
    s.chars().filter(|c| !c.is_whitespace()).collect()
}

fn default_arg(ty: &str) -> Option<&'static str> {
    Some(match squash(ty).as_str() {
        "int32" => "0",
        "bool" => "true",
        "string" => "\"\"",
        "unit" => "()",
        _ => return None,
    })
}

/// parameter types of a pretty-printed function type `(A, B) -> C` (top-level commas only)
fn fn_params(detail: &str) -> Option<Vec<String>> {
    let d = detail.trim();
    if !d.starts_with('(') {
        return None;
    }
    let mut depth = 0;
    let mut cur = String::new();
    let mut out = Vec::new();
    for ch in d.chars() {
        match ch {
            '(' | '[' => {
                depth += 1;
                if depth > 1 {
                    cur.push(ch);
                }
            }
            ')' | ']' => {
                depth -= 1;
                if depth == 0 {
                    if !cur.trim().is_empty() {
                        out.push(cur.trim().to_string());
                    }
                    return Some(out);
                }
                cur.push(ch);
            }
            ',' if depth == 1 => {
                out.push(cur.trim().to_string());
                cur.clear();
            }
            _ => cur.push(ch),
        }
    }
    None
}

fn is_resolution_error(e: &str) -> bool {
    let el = e.to_lowercase();
    el.contains("unresolved") || el.contains("not found") || el.contains("unknown") || el.contains("not imported") || el.contains("no such") || el.starts_with("panic")
}

/// `Path::` completion where the path is not an expression: (name, project?, text with § at the
/// cursor, what to write at § for the text to be well-formed). In the middle-segment context the
/// offered item replaces the whole segment around the cursor.
fn position_contexts() -> Vec<(&'static str, bool, String, &'static str)> {
    vec![
        ("type-position-own-package", false, format!("{}fn probe9(q: Main::§) -> int32 {{ 0 }}\nfn main() {{ () }}\n", PRELUDE), "S"),
        ("pattern-position-enum", false, format!("{}fn probe9(e0: E) -> int32 {{\n    match e0 {{\n        E::§ => 0,\n        _ => 1,\n    }}\n}}\nfn main() {{ () }}\n", PRELUDE), "A"),
        ("pattern-position-generic-enum", false, format!("{}fn probe9(e0: Opt[int32]) -> int32 {{\n    match e0 {{\n        Opt::§ => 0,\n        _ => 1,\n    }}\n}}\nfn main() {{ () }}\n", PRELUDE), "Non"),
        ("type-position-imported-package", true, "package Main\nimport Lib\n\nfn probe9(q: Lib::§) -> int32 { 0 }\nfn main() { () }\n".to_string(), "P"),
        ("let-annotation-imported-package", true, "package Main\nimport Lib\n\nfn any[T]() -> T { any() }\nfn main() {\n    let zq: Lib::§ = any();\n    ()\n}\n".to_string(), "P"),
        ("pattern-position-imported-enum", true, "package Main\nimport Lib\n\nfn probe9(e0: Lib::Shape) -> int32 {\n    match e0 {\n        Lib::Shape::§ => 0,\n        _ => 1,\n    }\n}\nfn main() { () }\n".to_string(), "Dot"),
        ("middle-segment-imported-enum", true, "package Main\nimport Lib\n\nfn main() {\n    let zq = Lib::Co§lor::Red;\n    ()\n}\n".to_string(), ""),
        ("middle-segment-own-enum", false, format!("{}fn main() {{\n    let zq = Main::§E::A;\n    ()\n}}\n", PRELUDE), ""),
    ]
}

pub struct Completions;

impl Family for Completions {
    fn name(&self) -> &'static str {
        "completions"
    }
    fn serves(&self) -> &'static [&'static str] {
        &["C20"]
    }
    fn rule(&self) -> &'static str {
        "dot completion at `recv.` for 10 receivers of a two-parameter generic struct with impls whose pattern repeats the type parameter, inside generic functions whose parameter has the same / another name; for 33 receiver expressions in main (locals of struct / struct-with-struct-field / two instances of a generic struct / Ref / Vec / tuple / array / enum / generic enum / int32 / string / dyn / Ref of a generic instance / nested generic instance / closure / unit; fields, tuple projections, call and method-call results, ref_get / vec_get / array_get results, a parenthesised receiver, a literal) + 10 type parameters under several bounds (disjoint method names, one name declared by two traits in either order, three traits, a second / an unbounded first parameter, the value reached through a field / a generic call / inside a closure, a method's own parameter) + 12 other binding contexts (bounded and unbounded type parameter, generic struct of a parameter, closure parameter, pattern variables, self in an inherent and in a generic method, function parameters of struct and Ref type, a shadowed local, a local redefined later); `Ns::` completion for 10 single-file namespaces (enum, generic enum, struct with / without methods, generic struct, trait, int32, string, the own package, an unknown name) and 9 namespaces of a 4-package project (imported package, its enum / struct / trait, a package only reachable through the import, one of its enums, a package present on disk but not imported, the own package, a prefix of a package name); every path of two segments and 500 of three segments over the 10 single-file namespaces, every path of two and 400 of three segments over 10 names of a project whose Main declares namesakes of the library's types; 8 cursors where the path is not an expression (a parameter type and a let annotation naming the own / an imported package, a pattern naming an enum / a generic enum / an imported enum, a cursor inside a middle segment of a path); oracle: the request returns without panic and every offered item, inserted at the cursor (methods with synthesised arguments, variants with synthesised payloads, types in a parameter position, traits in a bound), type-checks; where arguments cannot be synthesised only resolution errors count. non-trivial = cursors at which at least one item was offered; distinct = distinct (cursor, item)"
    }
    fn cases(&self, _tier: Tier) -> Box<dyn Iterator<Item = Value> + '_> {
        let mut v = Vec::new();
        for (n, _) in contexts() {
            v.push(json!({"kind": "dot", "name": n}));
        }
        for ns in NAMESPACES {
            v.push(json!({"kind": "colon", "ns": ns}));
        }
        for ns in PROJECT_NAMESPACES {
            v.push(json!({"kind": "project-colon", "ns": ns}));
        }
        // paths of two and three segments: every sequence over the namespaces of the file / of a project whose Main
        // declares namesakes of the library's types (a path names what its *whole* prefix names, never its last segment alone)
        for a in NAMESPACES {
            for b in NAMESPACES {
                v.push(json!({"kind": "colon", "ns": format!("{}::{}", a, b)}));
                for c in ["E", "S", "Box", "Tr", "Main"] {
                    v.push(json!({"kind": "colon", "ns": format!("{}::{}::{}", a, b, c)}));
                }
            }
        }
        for a in DEEP_SEGMENTS {
            for b in DEEP_SEGMENTS {
                v.push(json!({"kind": "project-colon-deep", "ns": format!("{}::{}", a, b)}));
                for c in ["Color", "P", "Kind", "Lib"] {
                    v.push(json!({"kind": "project-colon-deep", "ns": format!("{}::{}::{}", a, b, c)}));
                }
            }
        }
        v.push(json!({"kind": "project-dot", "ns": "p"}));
        for (n, _, _, _) in position_contexts() {
            v.push(json!({"kind": "position", "name": n}));
        }
        Box::new(v.into_iter())
    }
    fn run(&self, case: &Value, ctx: &mut Ctx) -> Report {
        let mut rep = Report::default();
        let kind = case["kind"].as_str().unwrap();
        let dummy = ctx.scratch.single_path();
        if kind == "position" {
            let name = case["name"].as_str().unwrap();
            let (_, project, marked, good) = position_contexts().into_iter().find(|(n, _, _, _)| *n == name).unwrap();
            let site = format!("position={}", name);
            let path = if project {
                let root = ctx.scratch.fresh_dir("cpos");
                for (f, src) in project_files() {
                    let p = root.join(f);
                    std::fs::create_dir_all(p.parent().unwrap()).unwrap();
                    std::fs::write(p, src).unwrap();
                }
                root.join("main.gom")
            } else {
                dummy
            };
            let cur = marked.find('§').unwrap();
            let text = marked.replace('§', "");
            // the identifier characters around the cursor are what an accepted completion replaces
            let is_id = |c: char| c.is_alphanumeric() || c == '_';
            let seg_start = text[..cur].rfind(|c: char| !is_id(c)).map(|i| i + 1).unwrap_or(0);
            let seg_end = cur + text[cur..].find(|c: char| !is_id(c)).unwrap_or(text.len() - cur);
            let with = |ins: &str| format!("{}{}{}", &text[..seg_start], ins, &text[seg_end..]);
            let well_formed = if good.is_empty() { text.clone() } else { with(good) };
            if let Err(e) = typechecks_at(&path, &well_formed) {
                rep.tag("machinery:completion-template-ill-typed");
                rep.sample = Some(json!({"site": site, "error": e, "text": well_formed}));
                return rep;
            }
            let (line, col) = line_col(&text, cur);
            let items = match guarded(|| colon_colon_completions(&path, &text, line, col)) {
                Ok(Some(v)) => v,
                Ok(None) => {
                    rep.tag("colon:none");
                    rep.outcome = Some(format!("{}:none", site));
                    return rep;
                }
                Err(p) => {
                    rep.findings.push(Finding { property: "C20", class: "query.panic.colon".into(), site: format!("{};msg={}", site, p), detail: p, replay: json!({"kind": "query", "request": "colon", "text": text, "line": line, "col": col}) });
                    return rep;
                }
            };
            rep.tag(format!("colon-items:{}", items.len().min(9)));
            if !items.is_empty() {
                rep.nontrivial_key = Some(site.clone());
            }
            let mut offered = Vec::new();
            let mut checks = 0u64;
            for it in items {
                checks += 1;
                offered.push(it.name.clone());
                rep.more_keys.push(md(&format!("{}|{}", site, it.name)));
                // a variant with payloads is written with a wildcard per payload in a pattern, a generic
                // type with arguments in a type
                let mut forms = vec![it.name.clone()];
                if name.starts_with("pattern") {
                    if let Some(ps) = it.detail.as_deref().and_then(fn_params) {
                        if !ps.is_empty() {
                            forms = vec![format!("{}({})", it.name, vec!["_"; ps.len()].join(", "))];
                        }
                    }
                } else if name.starts_with("type") || name.starts_with("let-annotation") {
                    forms.push(format!("{}[int32]", it.name));
                }
                let results: Vec<Result<(), String>> = forms.iter().map(|f| typechecks_at(&path, &with(f))).collect();
                if results.iter().all(|r| r.is_err()) {
                    let e = results[0].clone().err().unwrap_or_default();
                    rep.findings.push(Finding {
                        property: "C20",
                        class: "completion.does-not-typecheck".into(),
                        site: format!("{};item={}", site, it.name),
                        detail: format!("offered `{}` at this cursor but the text with it inserted fails: {}", it.name, e),
                        replay: json!({"kind": "text-typecheck", "text": with(&forms[0]), "path": path.to_string_lossy()}),
                    });
                } else {
                    rep.tag("position-probe:typechecks");
                }
            }
            rep.outcome = Some(format!("{}:{}", site, offered.join(",")));
            rep.sample = Some(json!({"site": site, "offered": offered}));
            rep.sub_evaluations = checks.max(1);
            return rep;
        }
        let (path, marked, site): (std::path::PathBuf, String, String) = match kind {
            "dot" => {
                let name = case["name"].as_str().unwrap();
                let text = contexts().into_iter().find(|(n, _)| n == name).unwrap().1;
                (dummy, text, format!("dot;receiver={}", name))
            }
            "colon" => {
                let ns = case["ns"].as_str().unwrap();
                (dummy, format!("{}fn helper() -> int32 {{ 1 }}\nfn main() {{\n{}    let zz = {}::§;\n    ()\n}}\n", PRELUDE, LOCALS, ns), format!("colon;namespace={}", ns))
            }
            _ => {
                let ns = case["ns"].as_str().unwrap();
                let root = ctx.scratch.fresh_dir("cproj");
                for (f, src) in project_files() {
                    let p = root.join(f);
                    std::fs::create_dir_all(p.parent().unwrap()).unwrap();
                    std::fs::write(p, src).unwrap();
                }
                let text = if kind == "project-dot" { project_main("Lib").replace("Lib::§", "p.§") } else if kind == "project-colon-deep" { project_main_with_namesakes(ns) } else { project_main(ns) };
                std::fs::write(root.join("main.gom"), text.replace('§', "mk")).unwrap();
                (root.join("main.gom"), text, format!("{};namespace={}", kind, ns))
            }
        };
        let cur = marked.find('§').unwrap();
        let text = marked.replace('§', "");
        let (line, col) = line_col(&text, cur);
        let is_dot = text[..cur].ends_with('.');
        // the text with a well-formed statement in place of the cursor must type-check by itself
        // (guards the template: a broken prelude would make every probe fail)
        let stmt_start = text[..cur].rfind("let zz = ").unwrap();
        let stmt_end = cur + text[cur..].find(";\n").unwrap() + 2;
        let without = format!("{}{}", &text[..stmt_start], &text[stmt_end..]);
        if kind != "project-colon" || true {
            if let Err(e) = typechecks_at(&path, &without) {
                // contexts whose remaining text is ill-typed on purpose do not exist; report as machinery
                rep.tag("machinery:completion-template-ill-typed");
                rep.sample = Some(json!({"site": site, "error": e, "text": without}));
                return rep;
            }
        }
        let recv_or_ns = text[stmt_start + 9..cur - if is_dot { 1 } else { 2 }].to_string();
        let mut checks = 0u64;
        let probe_with = |ins: &str| format!("{}let zz = {}{}{};\n{}", &text[..stmt_start], recv_or_ns, if is_dot { "." } else { "::" }, ins, &text[stmt_end..]);
        if is_dot {
            let items = match guarded(|| dot_completions(&path, &text, line, col)) {
                Ok(Some(v)) => v,
                Ok(None) => {
                    rep.tag("dot:none");
                    rep.outcome = Some(format!("{}:none", site));
                    return rep;
                }
                Err(p) => {
                    rep.findings.push(Finding { property: "C20", class: "query.panic.dot".into(), site: format!("{};msg={}", site, p), detail: p, replay: json!({"kind": "query", "request": "dot", "text": text, "line": line, "col": col}) });
                    return rep;
                }
            };
            rep.tag(format!("dot-items:{}", items.len().min(9)));
            if !items.is_empty() {
                rep.nontrivial_key = Some(site.clone());
            }
            let mut offered = Vec::new();
            for it in items {
                checks += 1;
                offered.push(it.name.clone());
                let ins = match it.kind {
                    DotCompletionKind::Field => it.name.clone(),
                    DotCompletionKind::Method => {
                        let params = it.detail.as_deref().and_then(fn_params).unwrap_or_default();
                        let args: Option<Vec<&str>> = params.iter().skip(1).map(|p| default_arg(p)).collect();
                        match args {
                            Some(a) => format!("{}({})", it.name, a.join(", ")),
                            None => {
                                rep.tag("completion-skipped:arg-synthesis");
                                continue;
                            }
                        }
                    }
                };
                let candidate = probe_with(&ins);
                rep.more_keys.push(md(&format!("{}|{}", site, it.name)));
                if let Err(e) = typechecks_at(&path, &candidate) {
                    rep.findings.push(Finding {
                        property: "C20",
                        class: "completion.does-not-typecheck".into(),
                        site: format!("{};item={}", site, it.name),
                        detail: format!("offered `{}` after `{}.` but `{}.{}` fails: {}", it.name, recv_or_ns, recv_or_ns, ins, e),
                        replay: json!({"kind": "text-typecheck", "text": candidate}),
                    });
                }
            }
            rep.outcome = Some(format!("{}:{}", site, offered.join(",")));
            rep.sample = Some(json!({"site": site, "offered": offered}));
        } else {
            let items = match guarded(|| colon_colon_completions(&path, &text, line, col)) {
                Ok(Some(v)) => v,
                Ok(None) => {
                    rep.tag("colon:none");
                    rep.outcome = Some(format!("{}:none", site));
                    return rep;
                }
                Err(p) => {
                    rep.findings.push(Finding { property: "C20", class: "query.panic.colon".into(), site: format!("{};msg={}", site, p), detail: p, replay: json!({"kind": "query", "request": "colon", "text": text, "line": line, "col": col}) });
                    return rep;
                }
            };
            rep.tag(format!("colon-items:{}", items.len().min(9)));
            if !items.is_empty() {
                rep.nontrivial_key = Some(site.clone());
            }
            let mut offered = Vec::new();
            for it in items {
                checks += 1;
                offered.push(it.name.clone());
                rep.more_keys.push(md(&format!("{}|{}", site, it.name)));
                // (candidate text, true when any type error counts / false when only resolution errors count)
                let (candidate, strict) = match it.kind {
                    ColonColonCompletionKind::Variant => {
                        let params = it.detail.as_deref().and_then(fn_params);
                        match params {
                            None => (probe_with(&it.name), false),
                            Some(ps) => match ps.iter().map(|p| default_arg(p)).collect::<Option<Vec<_>>>() {
                                Some(a) => (probe_with(&format!("{}({})", it.name, a.join(", "))), false),
                                None => (probe_with(&it.name), false),
                            },
                        }
                    }
                    ColonColonCompletionKind::Value | ColonColonCompletionKind::Method => (probe_with(&it.name), false),
                    ColonColonCompletionKind::Type => (format!("{}\nfn probe0(p: {}::{}) -> int32 {{ 0 }}\n", without, recv_or_ns, it.name), false),
                    ColonColonCompletionKind::Trait => (format!("{}\nfn probe0[Q: {}::{}](q: Q) -> int32 {{ 0 }}\n", without, recv_or_ns, it.name), false),
                };
                if let Err(e) = typechecks_at(&path, &candidate) {
                    if strict || is_resolution_error(&e) {
                        rep.findings.push(Finding {
                            property: "C20",
                            class: "completion.does-not-resolve".into(),
                            site: format!("{};item={}", site, it.name),
                            detail: format!("offered `{}::{}` but it does not resolve: {}", recv_or_ns, it.name, e),
                            replay: json!({"kind": "text-typecheck", "text": candidate, "path": path.to_string_lossy()}),
                        });
                    } else {
                        rep.tag("colon-probe:other-type-error");
                    }
                } else {
                    rep.tag("colon-probe:typechecks");
                }
            }
            rep.outcome = Some(format!("{}:{}", site, offered.join(",")));
            rep.sample = Some(json!({"site": site, "offered": offered}));
        }
        rep.sub_evaluations = checks.max(1);
        rep
    }
}

fn md(s: &str) -> u64 {
    let mut h: u64 = 0xcbf29ce484222325;
    for b in s.as_bytes() {
        h ^= *b as u64;
        h = h.wrapping_mul(0x100000001b3);
    }
    h
}
