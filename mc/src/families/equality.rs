//! `==` / `!=` over every type built from {int32, string, Vec[int32], a function type} with
//! {tuple, struct, generic struct, enum, generic enum, array} to depth 2 (thorough: 3), compared
//! directly and through a generic function. A type is comparable iff no vector and no function
//! occurs in it (Go cannot compare those, and the typer's documented operator domain excludes
//! them): comparable operands must behave structurally (equal copies are equal, different values
//! differ), the others must be rejected - accepting them yields Go that does not compile (structs
//! with slice fields) or that panics at run time (interfaces holding such structs).

use crate::drive::*;
use crate::families::common::*;
use crate::gosem::GoVerdict;
use crate::oracle::*;
use serde_json::{Value, json};

#[derive(Clone, Debug)]
enum T {
    Int,
    Str,
    VecI,
    Fun,
    Tuple(Box<T>),
    Struct(Box<T>),
    GStruct(Box<T>),
    Enum(Box<T>),
    GEnum(Box<T>),
    Array(Box<T>),
}

fn leaves() -> Vec<T> {
    vec![T::Int, T::Str, T::VecI, T::Fun]
}

fn wrap(i: usize, t: T) -> T {
    let b = Box::new(t);
    match i {
        0 => T::Tuple(b),
        1 => T::Struct(b),
        2 => T::GStruct(b),
        3 => T::Enum(b),
        4 => T::GEnum(b),
        _ => T::Array(b),
    }
}

fn types(depth: usize) -> Vec<T> {
    let mut all = leaves();
    let mut layer = leaves();
    for _ in 0..depth {
        let mut next = Vec::new();
        for t in &layer {
            for i in 0..6 {
                next.push(wrap(i, t.clone()));
            }
        }
        all.extend(next.iter().cloned());
        layer = next;
    }
    all
}

fn comparable(t: &T) -> bool {
    match t {
        T::Int | T::Str => true,
        T::VecI | T::Fun => false,
        T::Tuple(x) | T::Struct(x) | T::GStruct(x) | T::Enum(x) | T::GEnum(x) | T::Array(x) => comparable(x),
    }
}

fn tag(t: &T) -> String {
    match t {
        T::Int => "int".into(),
        T::Str => "str".into(),
        T::VecI => "vec".into(),
        T::Fun => "fn".into(),
        T::Tuple(x) => format!("tuple({})", tag(x)),
        T::Struct(x) => format!("struct({})", tag(x)),
        T::GStruct(x) => format!("gstruct({})", tag(x)),
        T::Enum(x) => format!("enum({})", tag(x)),
        T::GEnum(x) => format!("genum({})", tag(x)),
        T::Array(x) => format!("array({})", tag(x)),
    }
}

/// declarations are numbered by nesting depth (one chain per program, so depth is unique)
fn render(t: &T, d: usize, decls: &mut Vec<String>) -> (String, String, String) {
    // returns (annotation, value 0, value 1)
    match t {
        T::Int => ("int32".into(), "1".into(), "2".into()),
        T::Str => ("string".into(), "\"a\"".into(), "\"b\"".into()),
        T::VecI => ("Vec[int32]".into(), "vec_push(vec_new(), 1)".into(), "vec_push(vec_new(), 2)".into()),
        T::Fun => ("(int32) -> int32".into(), "|q: int32| q".into(), "|q: int32| q + 1".into()),
        T::Tuple(x) => {
            let (a, v0, v1) = render(x, d + 1, decls);
            (format!("({}, int32)", a), format!("({}, 7)", v0), format!("({}, 7)", v1))
        }
        T::Struct(x) => {
            let (a, v0, v1) = render(x, d + 1, decls);
            decls.push(format!("struct Sd{} {{ f: {} }}", d, a));
            (format!("Sd{}", d), format!("Sd{} {{ f: {} }}", d, v0), format!("Sd{} {{ f: {} }}", d, v1))
        }
        T::GStruct(x) => {
            let (a, v0, v1) = render(x, d + 1, decls);
            (format!("Gb[{}]", a), format!("Gb {{ v: {} }}", v0), format!("Gb {{ v: {} }}", v1))
        }
        T::Enum(x) => {
            let (a, v0, v1) = render(x, d + 1, decls);
            decls.push(format!("enum Ed{} {{ Kd{}({}), Nd{} }}", d, d, a, d));
            (format!("Ed{}", d), format!("Kd{}({})", d, v0), format!("Kd{}({})", d, v1))
        }
        T::GEnum(x) => {
            let (a, v0, v1) = render(x, d + 1, decls);
            (format!("Go[{}]", a), format!("Gk({})", v0), format!("Gk({})", v1))
        }
        T::Array(x) => {
            let (a, v0, v1) = render(x, d + 1, decls);
            (format!("[{}; 2]", a), format!("[{}, {}]", v0, v0), format!("[{}, {}]", v0, v1))
        }
    }
}

fn program(t: &T, route: &str) -> String {
    let mut decls = vec!["struct Gb[T] { v: T }".to_string(), "enum Go[T] { Gk(T), Gn }".to_string()];
    let (ann, v0, v1) = render(t, 0, &mut decls);
    let (eq, ne) = if route == "direct" {
        ("a == b", "a == c")
    } else {
        decls.push("fn same[T](x: T, y: T) -> bool { x == y }".into());
        decls.push("fn differ[T](x: T, y: T) -> bool { x != y }".into());
        ("same(a, b)", "same(a, c)")
    };
    let (ne1, ne2) = if route == "direct" { ("a != c", "a != b") } else { ("differ(a, c)", "differ(a, b)") };
    format!(
        "{}\nfn main() {{\n    let a: {} = {};\n    let b: {} = {};\n    let c: {} = {};\n    string_println(bool_to_string({}));\n    string_println(bool_to_string({}));\n    string_println(bool_to_string({}));\n    string_println(bool_to_string({}))\n}}\n",
        decls.join("\n"),
        ann,
        v0,
        ann,
        v0,
        ann,
        v1,
        eq,
        ne,
        ne1,
        ne2
    )
}

const EXPECTED: &str = "true\nfalse\ntrue\nfalse\n";

/// a value compared with itself, with a copy of itself and with an equal value built again: equal
/// unless a float in it is not a number (`z / z` with z = 0.0), which is equal to nothing
fn self_comparison_programs() -> Vec<(String, String, String)> {
    let shapes: [(&str, &str, &str); 9] = [
        ("float", "float64", "§"),
        ("tuple", "(float64, int32)", "(§, 1)"),
        ("tuple-float-last", "(string, float64)", "(\"s\", §)"),
        ("nested-tuple", "((int32, float64), bool)", "((1, §), true)"),
        ("struct", "Fl", "Fl { f: §, n: 1 }"),
        ("generic-struct", "Gx[float64]", "Gx { v: § }"),
        ("enum-payload", "En", "En::Has(§)"),
        ("array", "[float64; 2]", "[1.5, §]"),
        ("struct-in-tuple", "(Fl, int32)", "(Fl { f: §, n: 2 }, 3)"),
    ];
    let mut out = Vec::new();
    for (sn, ty, build) in shapes {
        for (vn, value, equal) in [("not-a-number", "nan()", false), ("a-number", "half()", true)] {
            for route in ["direct", "through-a-generic-function", "in-a-closure"] {
                let mk = build.replace('§', value);
                let cmp = |a: &str, b: &str, op: &str| match route {
                    "through-a-generic-function" => format!("{}(same({}, {}))", if op == "==" { "" } else { "!" }, a, b),
                    _ => format!("{} {} {}", a, op, b),
                };
                let mut body = format!("    let t: {} = {};\n    let u: {} = t;\n    let w: {} = {};\n", ty, mk, ty, ty, mk);
                let mut lines = String::new();
                for (a, b) in [("t", "t"), ("t", "u"), ("t", "w")] {
                    for op in ["==", "!="] {
                        let e = cmp(a, b, op);
                        if route == "in-a-closure" {
                            body.push_str(&format!("    let c_{a}{b}{n} = || {e};\n    string_println(bool_to_string(c_{a}{b}{n}()));\n", a = a, b = b, n = if op == "==" { "e" } else { "n" }, e = e));
                        } else {
                            body.push_str(&format!("    string_println(bool_to_string({}));\n", e));
                        }
                        lines.push_str(if (op == "==") == equal { "true\n" } else { "false\n" });
                    }
                }
                let text = format!("struct Fl {{ f: float64, n: int32 }}\nstruct Gx[T] {{ v: T }}\nenum En {{ Has(float64), Not }}\nfn nan() -> float64 {{ let z = 0.0; z / z }}\nfn half() -> float64 {{ 1.5 }}\nfn same[T](x: T, y: T) -> bool {{ x == y }}\nfn main() {{\n{}}}\n", body);
                out.push((format!("shape={};value={};route={}", sn, vn, route), text, lines));
            }
        }
    }
    out
}

pub struct Equality;

impl Family for Equality {
    fn name(&self) -> &'static str {
        "equality"
    }
    fn serves(&self) -> &'static [&'static str] {
        &["C03", "C02", "C01", "C04"]
    }
    fn rule(&self) -> &'static str {
        "every type built from the leaves {int32, string, Vec[int32], (int32) -> int32} with {tuple, struct, generic struct, enum, generic enum, array of 2} to depth 2 (172 types; thorough: depth 3, 1036 types) x {a == b / a != b written directly, through fn same[T](x: T, y: T)}; a is compared with a separately built equal value and with a different one. A type is comparable iff it contains no vector and no function. Oracle: comparable -> if accepted, the Go text passes the Go checker and prints true false true false (a rejection is tagged, not a violation); not comparable -> must be rejected (an acceptance is a C03 violation, and a C02 / C01 violation when the Go text is invalid / the run panics in the Go model, whose interface comparison follows the spec rule bound by 4 table snippets). plus 54 self-comparison programs: a value of 9 shapes holding a float that is a number / not a number, compared (== and !=) with itself, with a copy and with an equal value built again, directly, through the generic function and inside a closure: equal iff the float is a number. non-trivial = types of depth >= 1; distinct = distinct (type, route)"
    }
    fn cases(&self, tier: Tier) -> Box<dyn Iterator<Item = Value> + '_> {
        let depth = if tier == Tier::Quick { 2 } else { 3 };
        let n = types(depth).len();
        let mut v = Vec::new();
        for i in 0..n {
            for r in ["direct", "generic"] {
                v.push(json!({"type": i, "route": r, "depth": depth}));
            }
        }
        for (i, _) in self_comparison_programs().iter().enumerate() {
            v.push(json!({"self-comparison": i}));
        }
        Box::new(v.into_iter())
    }
    fn run(&self, case: &Value, ctx: &mut Ctx) -> Report {
        let mut rep = Report::default();
        if let Some(i) = case["self-comparison"].as_u64() {
            let (name, text, expected) = self_comparison_programs()[i as usize].clone();
            let site = format!("self-comparison;{}", name);
            rep.nontrivial_key = Some(text.clone());
            rep.outcome = Some(site.clone());
            expect_text_program(ctx, &mut rep, "equality", case, &site, &text, &expected, &["C01"], &["C02"], &["C03"]);
            return rep;
        }
        let depth = case["depth"].as_u64().unwrap() as usize;
        let t = types(depth)[case["type"].as_u64().unwrap() as usize].clone();
        let route = case["route"].as_str().unwrap();
        let text = program(&t, route);
        let cmp = comparable(&t);
        let site = format!("type={};route={}", tag(&t), route);
        let replay = json!({"kind": "text", "text": text, "oracle": if cmp { "prints true false true false" } else { "must-reject" }});
        if !matches!(t, T::Int | T::Str | T::VecI | T::Fun) {
            rep.nontrivial_key = Some(site.clone());
        }
        let path = ctx.scratch.single_path();
        match compile_at(&path, &text) {
            CompileOutcome::Err(e) => {
                let (stage, msg) = describe_err(&e);
                rep.outcome = Some(format!("rejected:{}", stage));
                if cmp {
                    rep.tag(format!("comparable:rejected:{}", stage));
                    rep.sample = Some(json!({"site": site, "rejected": msg}));
                } else {
                    rep.tag(format!("not-comparable:rejected:{}", stage));
                }
            }
            CompileOutcome::Panic(m) => {
                let m = normalise_msg(&m);
                for p in ["C03", "C04"] {
                    rep.findings.push(Finding { property: p, class: "compile.panic".into(), site: format!("{};msg={}", site, m), detail: m.clone(), replay: replay.clone() });
                }
            }
            CompileOutcome::Ok(c) => {
                if !cmp {
                    rep.tag("not-comparable:accepted");
                    rep.findings.push(Finding { property: "C03", class: "operator-domain.accepted".into(), site: site.clone(), detail: "== / != accepted on a type that contains a vector or a function".into(), replay: replay.clone() });
                } else {
                    rep.tag("comparable:accepted");
                }
                let go = match go_text(&c) {
                    Ok(g) => g,
                    Err(m) => {
                        rep.findings.push(Finding { property: "C04", class: "gopp.panic".into(), site: site.clone(), detail: m, replay });
                        return rep;
                    }
                };
                drop(c);
                let gr = analyse_and_run(go, FUEL);
                match (&gr.verdict, &gr.run) {
                    (GoVerdict::Rejected(errs), _) if !cmp && errs[0].rule != "operand" => {
                        // already reported as accepted outside the domain; how a function value stored
                        // in a struct reaches Go is the closures family's alphabet (K-closure-flow)
                        rep.outcome = Some(format!("go-rejected:{}", errs[0].rule));
                        rep.tag("not-comparable:accepted:other-go-failure");
                    }
                    (GoVerdict::Rejected(errs), _) => {
                        rep.outcome = Some(format!("go-rejected:{}", errs[0].rule));
                        rep.findings.push(Finding { property: "C02", class: format!("go.{}", errs[0].rule), site: format!("{};goerr={}", site, normalise_msg(&errs[0].msg)), detail: format!("line {}: {}", errs[0].line, errs[0].msg), replay });
                    }
                    (GoVerdict::Unsupported(m), _) => {
                        rep.tag("machinery:go-unsupported");
                        rep.sample = Some(json!({"site": site, "go_unsupported": m}));
                    }
                    (GoVerdict::Ok(_), Some(r)) => {
                        let o = obs_of_go(r);
                        rep.outcome = Some(format!("{}|{}", lossy(&o.stdout), end_tag(&o.end)));
                        if lossy(&o.stdout) != EXPECTED || o.end != NEnd::Ok {
                            rep.findings.push(Finding {
                                property: "C01",
                                class: if o.end != NEnd::Ok { format!("sem.end:ok->{}", end_tag(&o.end)) } else { "sem.stdout:value-differs".to_string() },
                                site,
                                detail: format!("expected {:?}/ok got {:?}/{}", EXPECTED, lossy(&o.stdout), end_tag(&o.end)),
                                replay,
                            });
                        } else {
                            rep.tag("agree");
                        }
                    }
                    _ => rep.tag("machinery:no-run"),
                }
            }
        }
        rep
    }
}
