//! C06: first-match pattern semantics. For each scrutinee type, all patterns up to depth 2 and all
//! matrices of R rows (with and without a trailing catch-all, at result types unit and int32),
//! applied to every value of the type; plus R = 1 as destructuring `let`.

use crate::drive::*;
use crate::families::common::*;
use crate::ug::ast::*;
use crate::ug::build::*;
use serde_json::{Value, json};

#[derive(Debug, Clone, PartialEq)]
pub enum PT {
    Bool,
    I32,
    U8,
    Str,
    /// string with a three-literal pattern alphabet
    Str3,
    Unit,
    Tup(Vec<PT>),
    E,       // enum E { A, B(bool), C(bool, int32) }
    E2,      // enum E2 { X, Y(bool) }
    OptBool, // Opt[bool] of generic enum Opt[T] { Non, Som(T) }
    S,       // struct S { f: bool, g: E2 }
}

pub const TYPES: [&str; 18] = [
    "bool", "int32", "uint8", "string", "(bool,bool)", "(bool,int32)", "E", "Opt[bool]", "S", "(E2,E2)", "(int32,int32)", "(string,int32)", "(int32,string)", "(int32,int32,int32)", "unit", "(E2,unit)",
    "(unit,E2)", "(bool,unit)",
];

fn pt_of(name: &str) -> PT {
    match name {
        "bool" => PT::Bool,
        "int32" => PT::I32,
        "uint8" => PT::U8,
        "string" => PT::Str,
        "unit" => PT::Unit,
        "(E2,unit)" => PT::Tup(vec![PT::E2, PT::Unit]),
        "(unit,E2)" => PT::Tup(vec![PT::Unit, PT::E2]),
        "(bool,unit)" => PT::Tup(vec![PT::Bool, PT::Unit]),
        "(bool,bool)" => PT::Tup(vec![PT::Bool, PT::Bool]),
        "(bool,int32)" => PT::Tup(vec![PT::Bool, PT::I32]),
        "E" => PT::E,
        "Opt[bool]" => PT::OptBool,
        "S" => PT::S,
        "(int32,int32)" => PT::Tup(vec![PT::I32, PT::I32]),
        "(string,int32)" => PT::Tup(vec![PT::Str, PT::I32]),
        "(int32,string)" => PT::Tup(vec![PT::I32, PT::Str]),
        "(string3,int32)" => PT::Tup(vec![PT::Str3, PT::I32]),
        "(int32,string3)" => PT::Tup(vec![PT::I32, PT::Str3]),
        "(int32,int32,int32)" => PT::Tup(vec![PT::I32, PT::I32, PT::I32]),
        _ => PT::Tup(vec![PT::E2, PT::E2]),
    }
}

fn ty_of(p: &PT) -> Ty {
    match p {
        PT::Bool => Ty::Bool,
        PT::I32 => Ty::i32(),
        PT::U8 => Ty::Int(IntKind::U8),
        PT::Str | PT::Str3 => Ty::Str,
        PT::Unit => Ty::Unit,
        PT::Tup(ts) => Ty::Tuple(ts.iter().map(ty_of).collect()),
        PT::E => Ty::named("E"),
        PT::E2 => Ty::named("E2"),
        PT::OptBool => Ty::Named("Opt".into(), vec![Ty::Bool]),
        PT::S => Ty::named("S"),
    }
}

/// every value of the type over the literal alphabet (+ one "other" value)
fn values(p: &PT) -> Vec<E> {
    match p {
        PT::Bool => vec![E::Bool(true), E::Bool(false)],
        PT::I32 => vec![int(0), int(1), int(5)],
        PT::U8 => vec![E::Int(0, IntKind::U8, true), E::Int(1, IntKind::U8, true), E::Int(200, IntKind::U8, true)],
        PT::Str => vec![s("a"), s("b"), s("zz")],
        PT::Str3 => vec![s("a"), s("b"), s("c"), s("zz")],
        PT::Unit => vec![E::Unit],
        PT::Tup(ts) => {
            let mut acc: Vec<Vec<E>> = vec![vec![]];
            for t in ts {
                let mut next = Vec::new();
                for a in &acc {
                    for v in values(t) {
                        let mut b = a.clone();
                        b.push(v);
                        next.push(b);
                    }
                }
                acc = next;
            }
            acc.into_iter().map(E::Tuple).collect()
        }
        PT::E => {
            let mut v = vec![E::Ctor("E".into(), "A".into(), false, vec![], vec![])];
            for b in values(&PT::Bool) {
                v.push(E::Ctor("E".into(), "B".into(), false, vec![b], vec![]));
            }
            for b in values(&PT::Bool) {
                for i in values(&PT::I32) {
                    v.push(E::Ctor("E".into(), "C".into(), false, vec![b.clone(), i], vec![]));
                }
            }
            v
        }
        PT::E2 => {
            let mut v = vec![E::Ctor("E2".into(), "X".into(), false, vec![], vec![])];
            for b in values(&PT::Bool) {
                v.push(E::Ctor("E2".into(), "Y".into(), false, vec![b], vec![]));
            }
            v
        }
        PT::OptBool => {
            let mut v = vec![E::Ctor("Opt".into(), "Non".into(), false, vec![], vec![Ty::Bool])];
            for b in values(&PT::Bool) {
                v.push(E::Ctor("Opt".into(), "Som".into(), false, vec![b], vec![Ty::Bool]));
            }
            v
        }
        PT::S => {
            let mut v = Vec::new();
            for b in values(&PT::Bool) {
                for g in values(&PT::E2) {
                    v.push(E::StructLit("S".into(), vec![("f".into(), b.clone()), ("g".into(), g)], vec![]));
                }
            }
            v
        }
    }
}

const HOLE: VarId = u32::MAX;

/// all patterns of the type up to `depth` (variables are HOLE placeholders)
fn patterns(p: &PT, depth: u32) -> Vec<Pat> {
    let mut v = vec![Pat::Wild, Pat::Var(HOLE)];
    match p {
        PT::Bool => {
            v.push(Pat::Bool(true));
            v.push(Pat::Bool(false));
        }
        PT::I32 => {
            v.push(Pat::Int(0, IntKind::I32, false));
            v.push(Pat::Int(1, IntKind::I32, false));
        }
        PT::U8 => {
            v.push(Pat::Int(0, IntKind::U8, true));
            v.push(Pat::Int(1, IntKind::U8, true));
        }
        PT::Str => {
            v.push(Pat::Str("a".into()));
            v.push(Pat::Str("b".into()));
        }
        PT::Str3 => {
            v.push(Pat::Str("a".into()));
            v.push(Pat::Str("b".into()));
            v.push(Pat::Str("c".into()));
        }
        PT::Unit => v.push(Pat::Unit),
        _ if depth == 0 => {}
        PT::Tup(ts) => {
            // multi-column matrices over literal-typed columns: sub-alphabet {_, lit0, lit1}
            let reduced = ts.iter().all(|t| matches!(t, PT::I32 | PT::Str | PT::Str3 | PT::U8));
            let mut acc: Vec<Vec<Pat>> = vec![vec![]];
            for t in ts {
                let mut next = Vec::new();
                for a in &acc {
                    for q in patterns(t, depth - 1).into_iter().filter(|q| !(reduced && matches!(q, Pat::Var(_)))) {
                        let mut b = a.clone();
                        b.push(q);
                        next.push(b);
                    }
                }
                acc = next;
            }
            v.extend(acc.into_iter().map(Pat::Tuple));
        }
        PT::E => {
            v.push(Pat::Ctor("E".into(), "A".into(), false, vec![]));
            for q in patterns(&PT::Bool, depth - 1) {
                v.push(Pat::Ctor("E".into(), "B".into(), false, vec![q]));
            }
            for q in patterns(&PT::Bool, depth - 1) {
                for r in patterns(&PT::I32, depth - 1) {
                    v.push(Pat::Ctor("E".into(), "C".into(), false, vec![q.clone(), r]));
                }
            }
        }
        PT::E2 => {
            v.push(Pat::Ctor("E2".into(), "X".into(), false, vec![]));
            for q in patterns(&PT::Bool, depth - 1) {
                v.push(Pat::Ctor("E2".into(), "Y".into(), false, vec![q]));
            }
        }
        PT::OptBool => {
            v.push(Pat::Ctor("Opt".into(), "Non".into(), false, vec![]));
            for q in patterns(&PT::Bool, depth - 1) {
                v.push(Pat::Ctor("Opt".into(), "Som".into(), false, vec![q]));
            }
        }
        PT::S => {
            for q in patterns(&PT::Bool, depth - 1) {
                for r in patterns(&PT::E2, depth - 1) {
                    v.push(Pat::Struct("S".into(), vec![("f".into(), q.clone()), ("g".into(), r.clone())]));
                    // the same pattern with the fields written in the other order
                    v.push(Pat::Struct("S".into(), vec![("g".into(), r), ("f".into(), q.clone())]));
                }
            }
        }
    }
    v
}

/// replace HOLE binders by fresh ones; returns the binders with their types
fn instantiate(p: &Pat, t: &PT, n: &mut Names, out: &mut Vec<(VarId, PT)>) -> Pat {
    match (p, t) {
        (Pat::Var(_), _) => {
            let id = n.fresh("b");
            out.push((id, t.clone()));
            Pat::Var(id)
        }
        (Pat::Tuple(ps), PT::Tup(ts)) => Pat::Tuple(ps.iter().zip(ts).map(|(q, tt)| instantiate(q, tt, n, out)).collect()),
        (Pat::Ctor(en, vn, q, ps), _) => {
            let tys: Vec<PT> = match (en.as_str(), vn.as_str()) {
                ("E", "B") => vec![PT::Bool],
                ("E", "C") => vec![PT::Bool, PT::I32],
                ("E2", "Y") => vec![PT::Bool],
                ("Opt", "Som") => vec![PT::Bool],
                _ => vec![],
            };
            Pat::Ctor(en.clone(), vn.clone(), *q, ps.iter().zip(tys.iter()).map(|(x, tt)| instantiate(x, tt, n, out)).collect())
        }
        (Pat::Struct(sn, fs), _) => {
            // field types by name (patterns may list the fields in any order)
            let ty_of_field = |f: &str| if f == "f" { PT::Bool } else { PT::E2 };
            Pat::Struct(sn.clone(), fs.iter().map(|(f, x)| (f.clone(), instantiate(x, &ty_of_field(f), n, out))).collect())
        }
        (other, _) => other.clone(),
    }
}

/// string rendering of a value of type t held in variable/expression e
fn render(e: E, t: &PT) -> E {
    match t {
        PT::Bool => bi("bool_to_string", vec![e]),
        PT::I32 => i2s(e),
        PT::U8 => bi("uint8_to_string", vec![e]),
        PT::Str | PT::Str3 => e,
        PT::Unit => bi("unit_to_string", vec![e]),
        PT::Tup(ts) => call(&tup_fn_name(ts), vec![e]),
        PT::E => call("strE", vec![e]),
        PT::E2 => call("strE2", vec![e]),
        PT::OptBool => call("strOpt", vec![e]),
        PT::S => call("strS", vec![e]),
    }
}

fn tup_fn_name(ts: &[PT]) -> String {
    let mut name = String::from("strT");
    for t in ts {
        name.push_str(match t {
            PT::Bool => "B",
            PT::I32 => "I",
            PT::E2 => "E",
            PT::Str | PT::Str3 => "S",
            PT::U8 => "U",
            PT::Unit => "N",
            _ => "X",
        });
    }
    name
}

fn tup_render_fn(ts: &[PT], n: &mut Names) -> Item {
    let e = n.fresh("t");
    let mut acc = s("(");
    for (i, tt) in ts.iter().enumerate() {
        if i > 0 {
            acc = add(acc, s(","));
        }
        acc = add(acc, render(E::Proj(Box::new(v(e)), i), tt));
    }
    fn_def(&tup_fn_name(ts), vec![(e, Ty::Tuple(ts.iter().map(ty_of).collect()))], Some(Ty::Str), add(acc, s(")")))
}

fn type_items(n: &mut Names) -> Vec<Item> {
    let mut items = vec![
        Item::Enum(EnumDef {
            name: "E".into(),
            generics: vec![],
            variants: vec![("A".into(), vec![]), ("B".into(), vec![Ty::Bool]), ("C".into(), vec![Ty::Bool, Ty::i32()])],
            derives: vec![],
        }),
        Item::Enum(EnumDef {
            name: "E2".into(),
            generics: vec![],
            variants: vec![("X".into(), vec![]), ("Y".into(), vec![Ty::Bool])],
            derives: vec![],
        }),
        Item::Enum(EnumDef {
            name: "Opt".into(),
            generics: vec!["T".into()],
            variants: vec![("Non".into(), vec![]), ("Som".into(), vec![Ty::Param("T".into())])],
            derives: vec![],
        }),
        Item::Struct(StructDef {
            name: "S".into(),
            generics: vec![],
            fields: vec![("f".into(), Ty::Bool), ("g".into(), Ty::named("E2"))],
            derives: vec![],
        }),
    ];
    // renderers (themselves simple, exhaustive, one-level matches)
    let e = n.fresh("e");
    let (b1, b2, i2) = (n.fresh("q"), n.fresh("q"), n.fresh("q"));
    items.push(fn_def(
        "strE",
        vec![(e, Ty::named("E"))],
        Some(Ty::Str),
        E::Match(
            Box::new(v(e)),
            vec![
                (Pat::Ctor("E".into(), "A".into(), false, vec![]), s("A")),
                (Pat::Ctor("E".into(), "B".into(), false, vec![Pat::Var(b1)]), add(add(s("B("), bi("bool_to_string", vec![v(b1)])), s(")"))),
                (
                    Pat::Ctor("E".into(), "C".into(), false, vec![Pat::Var(b2), Pat::Var(i2)]),
                    add(add(add(add(s("C("), bi("bool_to_string", vec![v(b2)])), s(",")), i2s(v(i2))), s(")")),
                ),
            ],
        ),
    ));
    let e = n.fresh("e");
    let b1 = n.fresh("q");
    items.push(fn_def(
        "strE2",
        vec![(e, Ty::named("E2"))],
        Some(Ty::Str),
        E::Match(
            Box::new(v(e)),
            vec![
                (Pat::Ctor("E2".into(), "X".into(), false, vec![]), s("X")),
                (Pat::Ctor("E2".into(), "Y".into(), false, vec![Pat::Var(b1)]), add(add(s("Y("), bi("bool_to_string", vec![v(b1)])), s(")"))),
            ],
        ),
    ));
    let e = n.fresh("e");
    let b1 = n.fresh("q");
    items.push(fn_def(
        "strOpt",
        vec![(e, Ty::Named("Opt".into(), vec![Ty::Bool]))],
        Some(Ty::Str),
        E::Match(
            Box::new(v(e)),
            vec![
                (Pat::Ctor("Opt".into(), "Non".into(), false, vec![]), s("Non")),
                (Pat::Ctor("Opt".into(), "Som".into(), false, vec![Pat::Var(b1)]), add(add(s("Som("), bi("bool_to_string", vec![v(b1)])), s(")"))),
            ],
        ),
    ));
    let e = n.fresh("e");
    items.push(tup_render_fn(&[PT::Bool, PT::Bool], n));
    items.push(tup_render_fn(&[PT::Bool, PT::I32], n));
    items.push(tup_render_fn(&[PT::E2, PT::E2], n));
    items.push(tup_render_fn(&[PT::I32, PT::I32], n));
    items.push(tup_render_fn(&[PT::Str, PT::I32], n));
    items.push(tup_render_fn(&[PT::I32, PT::Str], n));
    items.push(tup_render_fn(&[PT::I32, PT::I32, PT::I32], n));
    items.push(tup_render_fn(&[PT::E2, PT::Unit], n));
    items.push(tup_render_fn(&[PT::Unit, PT::E2], n));
    items.push(tup_render_fn(&[PT::Bool, PT::Unit], n));
    items.push(fn_def(
        "strS",
        vec![(e, Ty::named("S"))],
        Some(Ty::Str),
        add(
            add(add(add(s("S{"), bi("bool_to_string", vec![E::Field(Box::new(v(e)), "f".into())])), s(",")), call("strE2", vec![E::Field(Box::new(v(e)), "g".into())])),
            s("}"),
        ),
    ));
    items
}

#[derive(Debug, Clone)]
pub struct Spec {
    pub ty: String,
    pub rows: Vec<usize>,
    pub catch_all: bool,
    pub int_result: bool,
    pub as_let: bool,
    /// None: apply to every value in one program; Some(i): only value i
    pub only_value: Option<usize>,
    /// the scrutinee is first bound to a variable, which is then matched twice with the same matrix
    pub twice: bool,
    /// the scrutinee is held in a variable; every arm of the match on it matches it again
    /// (1: directly; 2: inside both arms of a match on a variable of another enum type)
    pub nested: u8,
    /// bit k set: arm k does nothing (no print, no binder shown); when non-zero the match stands in
    /// statement position (its value is dropped) and is followed by a print
    pub silent: u32,
}

pub fn build(spec: &Spec, depth: u32) -> Program {
    let mut n = Names::new();
    let pt = pt_of(&spec.ty);
    let pats = patterns(&pt, depth);
    let mut items = type_items(&mut n);
    if spec.nested == 2 {
        items.push(Item::Enum(EnumDef { name: "Mid".into(), generics: vec![], variants: vec![("Ma".into(), vec![]), ("Mb".into(), vec![Ty::i32()])], derives: vec![] }));
    }
    // scrutinee probe
    let sv = n.fresh("sv");
    items.push(fn_def("scr", vec![(sv, ty_of(&pt))], Some(ty_of(&pt)), block(vec![st(println(s("scrutinee")))], Some(v(sv)))));
    let arg = n.fresh("arg");
    let res_ty = if spec.int_result { Ty::i32() } else { Ty::Unit };
    let mut arm = |idx: usize, p: &Pat, n: &mut Names| -> (Pat, E) {
        let mut binders = Vec::new();
        let pi = instantiate(p, &pt, n, &mut binders);
        let mut stmts = vec![st(println(add(s("arm"), i2s(int(idx as i128)))))];
        for (b, bt) in binders {
            stmts.push(st(println(add(s("bind "), render(v(b), &bt)))));
        }
        if idx < 32 && spec.silent & (1 << idx) != 0 {
            stmts.clear();
        }
        let tail = if spec.int_result { Some(int(idx as i128 + 10)) } else { None };
        (pi, block(stmts, tail))
    };
    let body = if spec.as_let {
        let mut binders = Vec::new();
        let pi = instantiate(&pats[spec.rows[0]], &pt, &mut n, &mut binders);
        let mut stmts = vec![Stmt::Let(pi, None, call("scr", vec![v(arg)]))];
        for (b, bt) in binders {
            stmts.push(st(println(add(s("bind "), render(v(b), &bt)))));
        }
        stmts.push(st(println(s("after-let"))));
        block(stmts, if spec.int_result { Some(int(7)) } else { None })
    } else {
        let mut arms = Vec::new();
        for (i, r) in spec.rows.iter().enumerate() {
            arms.push(arm(i, &pats[*r], &mut n));
        }
        if spec.catch_all {
            arms.push(arm(spec.rows.len(), &Pat::Wild, &mut n));
        }
        if spec.nested > 0 {
            // every arm of the match on `held` matches `held` again (same matrix)
            let held = n.fresh("held");
            let mid = n.fresh("mid");
            let mut all_rows: Vec<Pat> = spec.rows.iter().map(|r| pats[*r].clone()).collect();
            if spec.catch_all {
                all_rows.push(Pat::Wild);
            }
            let mut outer = Vec::new();
            for (i, p) in all_rows.iter().enumerate() {
                let (pi, body) = arm(i, p, &mut n);
                let mut inner = Vec::new();
                for (j, q) in all_rows.iter().enumerate() {
                    inner.push(arm(j + 20, q, &mut n));
                }
                let inner_m = if spec.nested == 2 {
                    // match held { p => match mid { Ma => match held {..}, Mb(_) => match held {..} } }
                    let mut inner2 = Vec::new();
                    for (j, q) in all_rows.iter().enumerate() {
                        inner2.push(arm(j + 40, q, &mut n));
                    }
                    let w = n.fresh("w");
                    E::Match(
                        Box::new(v(mid)),
                        vec![
                            (Pat::Ctor("Mid".into(), "Ma".into(), false, vec![]), E::Match(Box::new(v(held)), inner2)),
                            (Pat::Ctor("Mid".into(), "Mb".into(), false, vec![Pat::Var(w)]), block(vec![st(println(add(s("mid "), i2s(v(w)))))], Some(E::Match(Box::new(v(held)), inner)))),
                        ],
                    )
                } else {
                    E::Match(Box::new(v(held)), inner)
                };
                let combined = match body {
                    E::Block(mut stmts, tail) => {
                        if spec.int_result {
                            let r = n.fresh("r");
                            stmts.push(let_(r, inner_m));
                            E::Block(stmts, Some(Box::new(add(*tail.unwrap(), v(r)))))
                        } else {
                            stmts.push(st(inner_m));
                            E::Block(stmts, None)
                        }
                    }
                    other => other,
                };
                outer.push((pi, combined));
            }
            let mut pre = vec![let_(held, call("scr", vec![v(arg)]))];
            if spec.nested == 2 {
                pre.push(let_(mid, E::Ctor("Mid".into(), "Mb".into(), false, vec![int(3)], vec![])));
            }
            block(pre, Some(E::Match(Box::new(v(held)), outer)))
        } else if spec.twice {
            // the same variable is the scrutinee of two matches
            let held = n.fresh("held");
            let mut arms2 = Vec::new();
            for (i, r) in spec.rows.iter().enumerate() {
                arms2.push(arm(i + 20, &pats[*r], &mut n));
            }
            if spec.catch_all {
                arms2.push(arm(spec.rows.len() + 20, &Pat::Wild, &mut n));
            }
            if spec.int_result {
                let (r1, r2) = (n.fresh("r"), n.fresh("r"));
                block(
                    vec![let_(held, call("scr", vec![v(arg)])), let_(r1, E::Match(Box::new(v(held)), arms)), let_(r2, E::Match(Box::new(v(held)), arms2))],
                    Some(add(v(r1), v(r2))),
                )
            } else {
                block(vec![let_(held, call("scr", vec![v(arg)])), st(E::Match(Box::new(v(held)), arms)), st(E::Match(Box::new(v(held)), arms2))], None)
            }
        } else if spec.silent != 0 {
            block(vec![st(E::Match(Box::new(call("scr", vec![v(arg)])), arms)), st(println(s("after-match")))], None)
        } else {
            E::Match(Box::new(call("scr", vec![v(arg)])), arms)
        }
    };
    items.push(fn_def("m", vec![(arg, ty_of(&pt))], Some(res_ty), body));
    let mut main = Vec::new();
    for (i, val) in values(&pt).into_iter().enumerate() {
        if let Some(only) = spec.only_value {
            if only != i {
                continue;
            }
        }
        main.push(st(println(add(s("value "), render(val.clone(), &pt)))));
        if spec.int_result {
            main.push(st(println(add(s("result "), i2s(call("m", vec![val]))))));
        } else {
            main.push(st(call("m", vec![val])));
        }
    }
    items.push(fn_def("main", vec![], None, block(main, None)));
    Program::single(items, n.names.clone())
}

fn pat_kind(p: &Pat) -> &'static str {
    match p {
        Pat::Wild => "wild",
        Pat::Var(_) => "var",
        Pat::Bool(_) | Pat::Int(..) | Pat::Str(_) | Pat::Unit => "lit",
        Pat::Tuple(_) => "tuple",
        Pat::Ctor(..) => "ctor",
        Pat::Struct(..) => "struct",
    }
}

fn has_lit(p: &Pat) -> bool {
    match p {
        Pat::Int(..) | Pat::Str(_) => true,
        Pat::Tuple(ps) | Pat::Ctor(_, _, _, ps) => ps.iter().any(has_lit),
        Pat::Struct(_, fs) => fs.iter().any(|(_, q)| has_lit(q)),
        _ => false,
    }
}

/// (type, suffix, largest value, to_string function)
const INT_TYPES: [(&str, &str, u128, &str); 8] = [
    ("int8", "i8", 127, "int8_to_string"),
    ("int16", "i16", 32767, "int16_to_string"),
    ("int32", "i32", 2147483647, "int32_to_string"),
    ("int64", "i64", 9223372036854775807, "int64_to_string"),
    ("uint8", "u8", 255, "uint8_to_string"),
    ("uint16", "u16", 65535, "uint16_to_string"),
    ("uint32", "u32", 4294967295, "uint32_to_string"),
    ("uint64", "u64", 18446744073709551615, "uint64_to_string"),
];

/// where the matched integer sits: (name, scrutinee type with § for the integer type, pattern with § for the
/// literal, value with § for the integer)
const LITERAL_PLACES: [(&str, &str, &str, &str); 5] = [
    ("scrutinee", "§", "§", "§"),
    ("tuple-component", "(bool, §)", "(true, §)", "(true, §)"),
    ("enum-payload", "Wrap", "Wrap::Held(§)", "Wrap::Held(§)"),
    ("struct-field", "Rec", "Rec { n: § }", "Rec { n: § }"),
    ("nested-tuple-in-enum", "Deep", "Deep::In((§, true))", "Deep::In((§, true))"),
];

/// the literal patterns at the edges of every integer type, written with and without their suffix:
/// each value selects its own arm, also when an arm for 0 or for a neighbour stands below it
fn run_literal_extremes(t: usize, place: usize, case: &Value, ctx: &mut Ctx, rep: &mut Report) {
    let (ty, suffix, max, _) = INT_TYPES[t];
    let (pname, sty, pat, val) = LITERAL_PLACES[place];
    let half = (max + 1) / 2; // 2^(bits-1) for unsigned types, 2^(bits-2) for signed ones
    let values: Vec<u128> = vec![0, 1, half - 1, half, half + 1, max - 1, max];
    let mut text = format!("enum Wrap {{ Held({ty}), Empty }}\nstruct Rec {{ n: {ty} }}\nenum Deep {{ In(({ty}, bool)), Out }}\n", ty = ty);
    let mut expected = String::new();
    let mut calls = String::new();
    for (si, spelled) in ["unsuffixed", "suffixed"].iter().enumerate() {
        let lit = |v: u128| if *spelled == "suffixed" { format!("{}{}", v, suffix) } else { v.to_string() };
        // arms from the largest value down, the arm for 0 last but one
        let mut arms = String::new();
        for v in values.iter().rev() {
            arms.push_str(&format!("        {} => \"is {}\",\n", pat.replace('§', &lit(*v)), v));
        }
        arms.push_str("        _ => \"other\",\n");
        text.push_str(&format!("fn classify{}(x: {}) -> string {{\n    match x {{\n{}    }}\n}}\n", si, sty.replace('§', ty), arms));
        for v in values.iter().chain([2u128, max - 2].iter()) {
            calls.push_str(&format!("    string_println(classify{}({}));\n", si, val.replace('§', &format!("{}{}", v, suffix))));
            expected.push_str(&if values.contains(v) { format!("is {}\n", v) } else { "other\n".to_string() });
        }
    }
    text.push_str(&format!("fn main() {{\n{}}}\n", calls));
    let site = format!("literal-extremes;type={};place={}", ty, pname);
    rep.nontrivial_key = Some(text.clone());
    rep.outcome = Some(site.clone());
    expect_text_program(ctx, rep, "patterns", case, &site, &text, &expected, &["C06", "C01"], &["C06", "C02"], &["C06"]);
}

pub struct Patterns;

fn depth_for(ty: &str) -> u32 {
    match ty {
        "(E2,E2)" | "S" | "(E2,unit)" | "(unit,E2)" => 2,
        _ => 1,
    }
}

fn specs(tier: Tier) -> Vec<Spec> {
    let mut out = Vec::new();
    for ty in TYPES {
        let pt = pt_of(ty);
        let np = patterns(&pt, depth_for(ty)).len();
        // destructuring let: every pattern
        for r in 0..np {
            out.push(Spec { ty: ty.into(), rows: vec![r], catch_all: false, int_result: false, as_let: true, only_value: None, twice: false, nested: 0, silent: 0 });
        }
        // rows: quick <= 3 for types with <= 12 patterns, else 2; thorough <= 4 / <= 3 (<= 30 patterns) / 2
        let maxr = match (tier == Tier::Quick, np) {
            (true, n) if n <= 12 => 3,
            (true, _) => 2,
            (false, n) if n <= 12 => 4,
            (false, n) if n <= 30 => 3,
            (false, _) => 2,
        };
        for rcount in 1..=maxr {
            let mut idx = vec![0usize; rcount];
            loop {
                for catch_all in [false, true] {
                    for int_result in [false, true] {
                        if tier == Tier::Quick && int_result && ((np > 12 && rcount > 1) || rcount == 3) {
                            continue;
                        }
                        // 4 rows (thorough only): unit result; for the tuple types only with a catch-all
                        // (without one, every non-exhaustive matrix costs one program per value)
                        if rcount == 4 && (int_result || (np > 7 && !catch_all)) {
                            continue;
                        }
                        out.push(Spec { ty: ty.into(), rows: idx.clone(), catch_all, int_result, as_let: false, only_value: None, twice: false, nested: 0, silent: 0 });
                        // arms that do nothing, the match in statement position: each single arm, and all but the last
                        // (quick: one row + catch-all for every type, two rows for types with <= 7 patterns)
                        let arms = rcount + catch_all as usize;
                        if !int_result && arms >= 2 && rcount <= 2 && (tier == Tier::Thorough && np <= 30 || rcount == 1 || np <= 7) {
                            let mut masks: Vec<u32> = (0..arms).map(|k| 1u32 << k).collect();
                            masks.push((1u32 << (arms - 1)) - 1);
                            masks.push((1u32 << arms) - 1);
                            masks.sort();
                            masks.dedup();
                            for m in masks {
                                out.push(Spec { ty: ty.into(), rows: idx.clone(), catch_all, int_result, as_let: false, only_value: None, twice: false, nested: 0, silent: m });
                            }
                        }
                        if rcount <= 2 && np <= 30 && !(tier == Tier::Quick && rcount == 2 && np > 12) {
                            out.push(Spec { ty: ty.into(), rows: idx.clone(), catch_all, int_result, as_let: false, only_value: None, twice: true, nested: 0, silent: 0 });
                            if rcount <= 2 && np <= 14 {
                                out.push(Spec { ty: ty.into(), rows: idx.clone(), catch_all, int_result, as_let: false, only_value: None, twice: false, nested: 1, silent: 0 });
                                out.push(Spec { ty: ty.into(), rows: idx.clone(), catch_all, int_result, as_let: false, only_value: None, twice: false, nested: 2, silent: 0 });
                            }
                        }
                    }
                }
                let mut k = rcount;
                let mut done = false;
                loop {
                    if k == 0 {
                        done = true;
                        break;
                    }
                    k -= 1;
                    idx[k] += 1;
                    if idx[k] < np {
                        break;
                    }
                    idx[k] = 0;
                }
                if done {
                    break;
                }
            }
        }
        // quick only: the 4-row matrices of (int32,int32) whose rows are all tuple patterns with at least
        // one literal (8 patterns): the smallest space in which a literal first seen in row 4 meets two
        // earlier rows that are wildcards in the switched column (thorough has all 4-row matrices)
        if tier == Tier::Quick && ty == "(int32,int32)" {
            let pats = patterns(&pt, depth_for(ty));
            let sel: Vec<usize> = pats
                .iter()
                .enumerate()
                .filter(|(_, p)| matches!(p, Pat::Tuple(ps) if ps.iter().any(|q| matches!(q, Pat::Int(..)))))
                .map(|(i, _)| i)
                .collect();
            let n = sel.len();
            for code in 0..n.pow(4) {
                let rows = vec![sel[code / (n * n * n)], sel[(code / (n * n)) % n], sel[(code / n) % n], sel[code % n]];
                out.push(Spec { ty: ty.into(), rows, catch_all: true, int_result: false, as_let: false, only_value: None, twice: false, nested: 0, silent: 0 });
            }
        }
    }
    // both tiers: the 4-row matrices of (string3,int32) and (int32,string3) whose rows are tuple patterns
    // with at least one literal (11 patterns): a wildcard row in the string column followed by two or
    // more string literals that have not occurred before
    for ty in ["(string3,int32)", "(int32,string3)"] {
        let pt = pt_of(ty);
        let pats = patterns(&pt, 1);
        let sel: Vec<usize> = pats
            .iter()
            .enumerate()
            .filter(|(_, p)| matches!(p, Pat::Tuple(ps) if ps.iter().any(|q| matches!(q, Pat::Int(..) | Pat::Str(..)))))
            .map(|(i, _)| i)
            .collect();
        let n = sel.len();
        for code in 0..n.pow(4) {
            let rows = vec![sel[code / (n * n * n)], sel[(code / (n * n)) % n], sel[(code / n) % n], sel[code % n]];
            // at least three rows name a string literal (else the 2-literal families cover it)
            let strs = rows.iter().filter(|r| matches!(&pats[**r], Pat::Tuple(ps) if ps.iter().any(|q| matches!(q, Pat::Str(..))))).count();
            if strs < 3 {
                continue;
            }
            out.push(Spec { ty: ty.into(), rows, catch_all: true, int_result: false, as_let: false, only_value: None, twice: false, nested: 0, silent: 0 });
        }
    }
    out
}

impl Family for Patterns {
    fn name(&self) -> &'static str {
        "patterns"
    }
    fn serves(&self) -> &'static [&'static str] {
        &["C06", "C01", "C02", "C04"]
    }
    fn rule(&self) -> &'static str {
        "scrutinee types {bool,int32,uint8,string,(bool,bool),(bool,int32),E,Opt[bool],S,(E2,E2),(int32,int32),(string,int32),(int32,string),(int32,int32,int32),unit,(E2,unit),(unit,E2),(bool,unit)}; all patterns (wildcard, variable, 2 literals, constructor/tuple/struct with sub-patterns; depth 2 for S, (E2,E2), (E2,unit) and (unit,E2); struct patterns with the fields in declaration order and in the other order; columns of all-literal-typed tuples use {_, lit0, lit1}); all matrices of <= 3 rows for types with <= 12 patterns, else <= 2 rows, plus the 4-row matrices of (int32,int32) over the 8 tuple patterns with a literal, with a catch-all (quick) / <= 4 rows for <= 12 patterns (unit result; tuple types with a catch-all only), <= 3 rows for <= 30 patterns, else 2 (thorough), with and without a trailing catch-all, results unit and int32; every destructuring let; matrices of <= 2 rows also with the scrutinee held in a variable that is matched twice, one match after the other and (types with <= 14 patterns) the second match inside every arm of the first, directly and inside both arms of a match on a variable of another enum type; the 4-row matrices with a catch-all of (string,int32) and (int32,string) over a three-literal string alphabet in which at least three rows name a string literal; each matrix applied to every value of the type (one program per value when some value matches no row); the scrutinee is an effect probe; each arm prints its index and every variable it binds; matrices of one row + catch-all (every type) and of two rows (types with <= 7 patterns; thorough: <= 30) also with the match in statement position and arms that do nothing: each single arm, all but the last, all. non-trivial = matrices where a row other than the first is selected for some value, or some value matches no row; distinct = distinct source text"
    }
    fn cases(&self, tier: Tier) -> Box<dyn Iterator<Item = Value> + '_> {
        let n = specs(tier).len();
        let mut v = Vec::new();
        let mut lo = 0;
        while lo < n {
            v.push(json!({"lo": lo, "hi": (lo + 50).min(n)}));
            lo += 50;
        }
        for t in 0..INT_TYPES.len() {
            for place in 0..LITERAL_PLACES.len() {
                v.push(json!({"literal-extremes": t, "place": place}));
            }
        }
        Box::new(v.into_iter())
    }
    fn case_timeout(&self, _tier: Tier) -> u64 {
        180
    }
    fn run(&self, case: &Value, ctx: &mut Ctx) -> Report {
        let mut rep = Report::default();
        if let Some(t) = case["literal-extremes"].as_u64() {
            run_literal_extremes(t as usize, case["place"].as_u64().unwrap() as usize, case, ctx, &mut rep);
            return rep;
        }
        let all = specs(ctx.tier);
        let (lo, hi) = (case["lo"].as_u64().unwrap() as usize, case["hi"].as_u64().unwrap() as usize);
        let mut count = 0u64;
        let mut reported = std::collections::BTreeMap::<String, u32>::new();
        let mut sep_checked = 0u32;
        for (si, spec) in all[lo..hi].iter().enumerate() {
            let depth = depth_for(&spec.ty);
            let pt = pt_of(&spec.ty);
            let pats = patterns(&pt, depth);
            // decide whether some value matches no row (reference run on the all-values program)
            let full = build(spec, depth);
            let r = crate::ug::eval::run_program(&full, FUEL);
            let nvals = values(&pt).len();
            let variants: Vec<Spec> = if r.end == crate::ug::eval::End::Ok {
                vec![spec.clone()]
            } else {
                (0..nvals).map(|i| Spec { only_value: Some(i), ..spec.clone() }).collect()
            };
            let kinds: Vec<&str> = spec.rows.iter().map(|r| pat_kind(&pats[*r])).collect();
            let lit = spec.rows.iter().any(|r| has_lit(&pats[*r]));
            let site = format!(
                "ty={};rows={};kinds={};catchall={};result={};form={};lit={}{}",
                spec.ty,
                spec.rows.len(),
                kinds.join("+"),
                spec.catch_all,
                if spec.int_result { "int32" } else { "unit" },
                if spec.as_let { "let" } else { "match" },
                lit,
                if spec.silent != 0 { ";silent-arms" } else if spec.nested == 2 { ";nested-under-other-match" } else if spec.nested == 1 { ";nested" } else if spec.twice { ";twice" } else { "" }
            );
            for var in variants {
                count += 1;
                let prog = build(&var, depth);
                let subcase = json!({"spec_index": lo + si, "ty": var.ty, "rows": var.rows, "catch_all": var.catch_all, "int_result": var.int_result, "as_let": var.as_let, "only_value": var.only_value, "twice": var.twice, "nested": var.nested, "silent": var.silent});
                let opts = DiffOpts {
                    props_sem: &["C06", "C01"],
                    props_reject: &["C06"],
                    ..DiffOpts::default()
                };
                let mut sub = Report::default();
                let res = differential(&prog, &site, "patterns", &subcase, ctx, &opts, &mut sub);
                if let Ok(want) = std::env::var("GOMLMC_PAT_DEBUG") {
                    if site.contains(&want) {
                        eprintln!("PAT_DEBUG {} {} tags={:?}\n{}", site, subcase, sub.tags.iter().filter(|t| !t.starts_with("go-rule")).collect::<Vec<_>>(), crate::ug::print::print_main(&prog));
                    }
                }
                // non-trivial: later row selected or no row
                if let Some(d) = &res {
                    let out = lossy(&d.ref_obs.stdout);
                    if out.contains("arm1") || out.contains("arm2") || d.ref_obs.end != crate::oracle::NEnd::Ok {
                        if let Some(k) = &sub.nontrivial_key {
                            rep.more_keys.push(fnv(k));
                        }
                    }
                    if d.ref_obs.end != crate::oracle::NEnd::Ok {
                        rep.tag("value-matches-no-row");
                    }
                }
                for t in sub.tags {
                    rep.tags.push(t);
                }
                for f in sub.findings {
                    // rejected non-exhaustive literal matches are the documented behaviour
                    if f.class.starts_with("compile.rejected") && f.detail.to_lowercase().contains("exhaustive") && lit && !var.catch_all {
                        rep.tag("rejected:non-exhaustive-literal-match");
                        // the same program package by package (build, then link): refused there as well
                        if sep_checked < 6 {
                            sep_checked += 1;
                            let text = crate::ug::print::print_main(&prog);
                            match crate::families::common::run_text_separate(ctx, &text) {
                                Err((class, _)) if class.starts_with("rejected") => rep.tag("rejected-by-build-as-well"),
                                Err((class, msg)) if class.starts_with("machinery") => {
                                    rep.tag("machinery:separate-pipeline");
                                    rep.sample = Some(json!({"site": site, "msg": msg}));
                                }
                                other => {
                                    let how = match &other { Ok(o) => format!("built, linked and ran: {:?}/{}", lossy(&o.stdout), end_tag(&o.end)), Err((c, m)) => format!("{}: {}", c, m) };
                                    for p in ["C06"] {
                                        rep.findings.push(Finding { property: p, class: "non-exhaustive-literal-match.accepted-by-build".into(), site: site.clone(), detail: format!("whole-program compilation refuses the match for want of a catch-all; build + link: {}", how), replay: json!({"kind": "text", "text": text, "oracle": "must-reject-separately"}) });
                                    }
                                }
                            }
                        }
                        continue;
                    }
                    let key = format!("{}|{}|{}", f.property, f.class, f.site);
                    let c = reported.entry(key).or_insert(0);
                    *c += 1;
                    if *c <= 1 {
                        rep.findings.push(f);
                    }
                }
                if rep.sample.is_none() {
                    rep.sample = sub.sample;
                }
            }
        }
        rep.sub_evaluations = count;
        rep.outcome = Some(format!("{}", lo));
        rep
    }
}

fn fnv(s: &str) -> u64 {
    let mut h: u64 = 0xcbf29ce484222325;
    for b in s.as_bytes() {
        h ^= *b as u64;
        h = h.wrapping_mul(0x100000001b3);
    }
    h
}
