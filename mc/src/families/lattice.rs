//! F-LATTICE: the pairwise feature-interaction lattice (DESIGN §C01 (a)).
//! top-context ∘ [expression-context] ∘ payload over a six-type alphabet; every
//! program prints every value it computes and every effect probe prints its id.

use crate::drive::*;
use crate::families::common::*;
use crate::ug::ast::*;
use crate::ug::build::*;
use serde_json::{Value, json};

pub const PAYLOADS: [&str; 38] = [
    "lit", "var", "probe", "arith", "arith-lit", "div-trap", "div-lit0", "cmp", "cmp-str", "and", "or", "and-nested", "not", "neg", "concat",
    "if", "match-bool", "match-int", "call", "call-nested", "closure-call", "closure-capture", "tuple-proj", "struct-field", "ctor-match",
    "let-pat", "ref-get", "ref-update", "vec-get", "vec-oob", "array-get", "array-oob", "array-set", "generic-id", "method", "to-string",
    "while", "str-get",
];

pub const CTXS: [&str; 22] = [
    "none", "fn-arg", "fn-arg-first", "closure-arg", "match-scrut", "match-arm", "if-then", "if-else", "if-cond", "tuple-elem", "array-elem",
    "struct-field", "ctor-arg", "bin-left", "bin-right", "unary", "ref-content", "vec-elem", "generic-arg", "while-body", "while-dead-use", "while-dead-use-nested",
];

pub const TOPS: [&str; 8] = ["let-show", "discard", "stmt", "return", "closure-body", "unused-let", "arm-discard", "nested-fn"];

struct Frag {
    items: Vec<Item>,
    pre: Vec<Stmt>,
    expr: E,
    ty: T6,
}

fn payload(name: &str, ty: T6, n: &mut Names) -> Option<Frag> {
    let mut items = Vec::new();
    let mut pre = Vec::new();
    let p = |k: i128| ty.probe(k);
    let expr: E = match (name, ty) {
        ("lit", _) => match ty {
            T6::I32 => int(7),
            T6::I8 => i8v(7),
            T6::Bool => E::Bool(true),
            T6::Str => s("lit"),
            T6::Unit => E::Unit,
            T6::Pair => E::Tuple(vec![int(7), E::Bool(true)]),
        },
        ("var", _) => {
            let x = n.fresh("x");
            pre.push(let_(x, p(1)));
            v(x)
        }
        ("probe", _) => p(1),
        ("arith", T6::I32 | T6::I8) => bin(BinOp::Sub, bin(BinOp::Mul, p(1), p(2)), p(3)),
        ("arith-lit", T6::I32) => bin(BinOp::Add, int(2147483647), int(1)),
        ("arith-lit", T6::I8) => bin(BinOp::Add, i8v(127), i8v(1)),
        ("div-trap", T6::I32) => {
            let z = n.fresh("z");
            pre.push(let_(z, int(0)));
            bin(BinOp::Div, p(1), v(z))
        }
        ("div-trap", T6::I8) => {
            let z = n.fresh("z");
            pre.push(let_(z, i8v(0)));
            bin(BinOp::Div, p(1), v(z))
        }
        ("div-lit0", T6::I32) => bin(BinOp::Div, p(1), int(0)),
        ("cmp", T6::Bool) => bin(BinOp::Lt, T6::I32.probe(1), T6::I32.probe(2)),
        ("cmp-str", T6::Bool) => bin(BinOp::Eq, T6::Str.probe(1), T6::Str.probe(2)),
        ("and", T6::Bool) => bin(BinOp::And, T6::Bool.probe(2), T6::Bool.probe(1)),
        ("or", T6::Bool) => bin(BinOp::Or, T6::Bool.probe(1), T6::Bool.probe(2)),
        ("and-nested", T6::Bool) => bin(BinOp::Or, bin(BinOp::And, T6::Bool.probe(1), T6::Bool.probe(2)), T6::Bool.probe(4)),
        ("not", T6::Bool) => E::Unary(UnOp::Not, Box::new(p(1))),
        ("neg", T6::I32 | T6::I8) => E::Unary(UnOp::Neg, Box::new(p(1))),
        ("concat", T6::Str) => add(add(p(1), s("+")), p(2)),
        ("if", _) => if_(T6::Bool.probe(1), p(2), p(3)),
        ("match-bool", _) => E::Match(Box::new(T6::Bool.probe(2)), vec![(Pat::Bool(true), p(3)), (Pat::Bool(false), p(4))]),
        ("match-int", _) => E::Match(
            Box::new(T6::I32.probe(2)),
            vec![(Pat::Int(1, IntKind::I32, false), p(3)), (Pat::Int(2, IntKind::I32, false), p(4)), (Pat::Wild, p(5))],
        ),
        ("call", _) => {
            let a = n.fresh("a");
            let b = n.fresh("b");
            items.push(fn_def("pick2", vec![(a, ty.ty()), (b, ty.ty())], Some(ty.ty()), block(vec![st(ty.show(v(a)))], Some(v(b)))));
            call("pick2", vec![p(1), p(2)])
        }
        ("call-nested", _) => {
            let a = n.fresh("a");
            let b = n.fresh("b");
            items.push(fn_def("pick2", vec![(a, ty.ty()), (b, ty.ty())], Some(ty.ty()), block(vec![st(ty.show(v(a)))], Some(v(b)))));
            call("pick2", vec![call("pick2", vec![p(1), p(2)]), p(3)])
        }
        ("closure-call", _) => {
            let f = n.fresh("f");
            let q = n.fresh("q");
            pre.push(let_(f, E::Closure(vec![(q, Some(ty.ty()))], Box::new(block(vec![st(T6::Unit.probe(4))], Some(v(q)))))));
            E::Call(Box::new(v(f)), vec![p(1)])
        }
        ("closure-capture", _) => {
            let c = n.fresh("c");
            let f = n.fresh("f");
            pre.push(let_(c, p(1)));
            pre.push(let_(f, E::Closure(vec![], Box::new(block(vec![st(T6::Unit.probe(2))], Some(v(c)))))));
            E::Call(Box::new(v(f)), vec![])
        }
        ("tuple-proj", _) => E::Proj(Box::new(E::Tuple(vec![T6::I32.probe(1), p(2), T6::Str.probe(3)])), 1),
        ("struct-field", _) => {
            items.push(Item::Struct(StructDef {
                name: "Box2".into(),
                generics: vec![],
                fields: vec![("a".into(), Ty::i32()), ("b".into(), ty.ty())],
                derives: vec![],
            }));
            E::Field(
                Box::new(E::StructLit("Box2".into(), vec![("a".into(), T6::I32.probe(1)), ("b".into(), p(2))], vec![])),
                "b".into(),
            )
        }
        ("ctor-match", _) => {
            items.push(Item::Enum(EnumDef {
                name: "Opt1".into(),
                generics: vec![],
                variants: vec![("Non1".into(), vec![]), ("Som1".into(), vec![ty.ty()])],
                derives: vec![],
            }));
            let q = n.fresh("q");
            E::Match(
                Box::new(E::Ctor("Opt1".into(), "Som1".into(), false, vec![p(1)], vec![])),
                vec![
                    (Pat::Ctor("Opt1".into(), "Non1".into(), false, vec![]), p(3)),
                    (Pat::Ctor("Opt1".into(), "Som1".into(), false, vec![Pat::Var(q)]), v(q)),
                ],
            )
        }
        ("let-pat", _) => {
            let a = n.fresh("a");
            let b = n.fresh("b");
            pre.push(Stmt::Let(Pat::Tuple(vec![Pat::Var(a), Pat::Var(b)]), None, E::Tuple(vec![T6::I32.probe(1), p(2)])));
            pre.push(st(T6::I32.show(v(a))));
            v(b)
        }
        ("ref-get", _) => {
            let r = n.fresh("r");
            pre.push(let_(r, bi("ref", vec![p(1)])));
            bi("ref_get", vec![v(r)])
        }
        ("ref-update", _) => {
            let r = n.fresh("r");
            pre.push(let_(r, bi("ref", vec![p(1)])));
            pre.push(st(bi("ref_set", vec![v(r), p(2)])));
            bi("ref_get", vec![v(r)])
        }
        ("vec-get", _) => {
            let w = n.fresh("w");
            pre.push(let_t(w, Ty::Vec(Box::new(ty.ty())), bi("vec_new", vec![])));
            bi("vec_get", vec![bi("vec_push", vec![bi("vec_push", vec![v(w), p(1)]), p(2)]), T6::I32.probe(1)])
        }
        ("vec-oob", _) => {
            let w = n.fresh("w");
            pre.push(let_t(w, Ty::Vec(Box::new(ty.ty())), bi("vec_new", vec![])));
            bi("vec_get", vec![bi("vec_push", vec![v(w), p(1)]), T6::I32.probe(3)])
        }
        ("array-get", _) => bi("array_get", vec![E::Array(vec![p(1), p(2)]), T6::I32.probe(1)]),
        ("array-oob", _) => bi("array_get", vec![E::Array(vec![p(1), p(2)]), T6::I32.probe(2)]),
        ("array-set", _) => bi("array_get", vec![bi("array_set", vec![E::Array(vec![p(1), p(2)]), int(0), p(3)]), int(0)]),
        ("generic-id", _) => {
            let x = n.fresh("x");
            items.push(Item::Fn(FnDef {
                name: "idg".into(),
                generics: vec!["T".into()],
                bounds: vec![],
                params: vec![(x, Ty::Param("T".into()))],
                ret: Some(Ty::Param("T".into())),
                body: block(vec![st(T6::Unit.probe(5))], Some(v(x))),
            }));
            callg("idg", vec![ty.ty()], vec![p(1)])
        }
        ("method", _) => {
            items.push(Item::Struct(StructDef {
                name: "Hold".into(),
                generics: vec![],
                fields: vec![("h".into(), ty.ty())],
                derives: vec![],
            }));
            let sf = n.fresh("self");
            let extra = n.fresh("e");
            items.push(Item::Impl(ImplDef {
                generics: vec![],
                trait_name: None,
                for_ty: Ty::named("Hold"),
                methods: vec![FnDef {
                    name: "get".into(),
                    generics: vec![],
                    bounds: vec![],
                    params: vec![(sf, Ty::named("Hold")), (extra, Ty::i32())],
                    ret: Some(ty.ty()),
                    body: block(vec![st(T6::I32.show(v(extra)))], Some(E::Field(Box::new(v(sf)), "h".into()))),
                }],
            }));
            E::Inherent(
                "Hold".into(),
                "get".into(),
                CallForm::Dot,
                vec![E::StructLit("Hold".into(), vec![("h".into(), p(1))], vec![]), T6::I32.probe(2)],
                vec![],
            )
        }
        ("to-string", T6::Str) => add(i2s(T6::I32.probe(1)), bi("bool_to_string", vec![T6::Bool.probe(2)])),
        ("while", T6::Unit) => {
            let c = n.fresh("c");
            pre.push(let_(c, bi("ref", vec![int(0)])));
            E::While(
                Box::new(bin(BinOp::Lt, bi("ref_get", vec![v(c)]), T6::I32.probe(2))),
                Box::new(block(
                    vec![st(bi("ref_set", vec![v(c), add(bi("ref_get", vec![v(c)]), int(1))]))],
                    Some(T6::Unit.probe(1)),
                )),
            )
        }
        ("str-get", T6::Str) => bi("string_get", vec![p(1), bi("string_len", vec![p(2)])]),
        _ => return None,
    };
    Some(Frag { items, pre, expr, ty })
}

/// expression context: wraps a hole of type `h.ty`, result type may differ
fn ctx(name: &str, h: Frag, n: &mut Names) -> Option<Frag> {
    let Frag { mut items, mut pre, expr: hole, ty } = h;
    let (expr, out_ty): (E, T6) = match name {
        "none" => (hole, ty),
        "fn-arg" => {
            let a = n.fresh("a");
            let b = n.fresh("b");
            let c = n.fresh("c");
            items.push(fn_def(
                "mid3",
                vec![(a, Ty::i32()), (b, ty.ty()), (c, Ty::i32())],
                Some(ty.ty()),
                block(vec![st(T6::I32.show(v(a))), st(T6::I32.show(v(c)))], Some(v(b))),
            ));
            (call("mid3", vec![T6::I32.probe(8), hole, T6::I32.probe(9)]), ty)
        }
        "fn-arg-first" => {
            let a = n.fresh("a");
            let b = n.fresh("b");
            items.push(fn_def("fst2", vec![(a, ty.ty()), (b, Ty::Str)], Some(ty.ty()), block(vec![st(T6::Str.show(v(b)))], Some(v(a)))));
            (call("fst2", vec![hole, T6::Str.probe(9)]), ty)
        }
        "closure-arg" => {
            let g = n.fresh("g");
            let q = n.fresh("q");
            pre.push(let_(g, E::Closure(vec![(q, Some(ty.ty()))], Box::new(block(vec![st(T6::Unit.probe(8))], Some(v(q)))))));
            (E::Call(Box::new(v(g)), vec![hole]), ty)
        }
        "match-scrut" => {
            let q = n.fresh("m");
            (E::Match(Box::new(hole), vec![(Pat::Var(q), block(vec![st(T6::Unit.probe(9))], Some(v(q))))]), ty)
        }
        "match-arm" => (
            E::Match(Box::new(T6::Bool.probe(9)), vec![(Pat::Bool(false), ty.default()), (Pat::Bool(true), hole)]),
            ty,
        ),
        "if-then" => (if_(T6::Bool.probe(9), hole, ty.default()), ty),
        "if-else" => (if_(T6::Bool.probe(8), ty.default(), hole), ty),
        "if-cond" if ty == T6::Bool => (if_(hole, T6::I32.probe(8), T6::I32.probe(9)), T6::I32),
        "tuple-elem" => (E::Proj(Box::new(E::Tuple(vec![T6::I32.probe(8), hole, T6::I32.probe(9)])), 1), ty),
        "array-elem" => (bi("array_get", vec![E::Array(vec![ty.probe(8), hole, ty.probe(9)]), int(1)]), ty),
        "struct-field" => {
            items.push(Item::Struct(StructDef {
                name: "Wrap".into(),
                generics: vec![],
                fields: vec![("p".into(), Ty::i32()), ("q".into(), ty.ty()), ("r".into(), Ty::i32())],
                derives: vec![],
            }));
            (
                E::Field(
                    Box::new(E::StructLit(
                        "Wrap".into(),
                        vec![("p".into(), T6::I32.probe(8)), ("q".into(), hole), ("r".into(), T6::I32.probe(9))],
                        vec![],
                    )),
                    "q".into(),
                ),
                ty,
            )
        }
        "ctor-arg" => {
            items.push(Item::Enum(EnumDef {
                name: "Cell".into(),
                generics: vec![],
                variants: vec![("Empty".into(), vec![]), ("Full".into(), vec![Ty::i32(), ty.ty()])],
                derives: vec![],
            }));
            let a = n.fresh("a");
            let b = n.fresh("b");
            (
                E::Match(
                    Box::new(E::Ctor("Cell".into(), "Full".into(), false, vec![T6::I32.probe(8), hole], vec![])),
                    vec![
                        (
                            Pat::Ctor("Cell".into(), "Full".into(), false, vec![Pat::Var(a), Pat::Var(b)]),
                            block(vec![st(T6::I32.show(v(a)))], Some(v(b))),
                        ),
                        (Pat::Ctor("Cell".into(), "Empty".into(), false, vec![]), ty.default()),
                    ],
                ),
                ty,
            )
        }
        "bin-left" => match ty {
            T6::I32 | T6::I8 => (bin(BinOp::Sub, hole, ty.probe(9)), ty),
            T6::Str => (add(hole, ty.probe(9)), ty),
            T6::Bool => (bin(BinOp::And, hole, ty.probe(9)), ty),
            _ => return None,
        },
        "bin-right" => match ty {
            T6::I32 | T6::I8 => (bin(BinOp::Sub, ty.probe(8), hole), ty),
            T6::Str => (add(ty.probe(8), hole), ty),
            T6::Bool => (bin(BinOp::Or, ty.probe(8), hole), ty),
            _ => return None,
        },
        "unary" => match ty {
            T6::I32 | T6::I8 => (E::Unary(UnOp::Neg, Box::new(hole)), ty),
            T6::Bool => (E::Unary(UnOp::Not, Box::new(hole)), ty),
            _ => return None,
        },
        "ref-content" => (bi("ref_get", vec![bi("ref", vec![hole])]), ty),
        "vec-elem" => {
            let w = n.fresh("w");
            pre.push(let_t(w, Ty::Vec(Box::new(ty.ty())), bi("vec_new", vec![])));
            (bi("vec_get", vec![bi("vec_push", vec![v(w), hole]), int(0)]), ty)
        }
        "generic-arg" => {
            let x = n.fresh("x");
            let y = n.fresh("y");
            items.push(Item::Fn(FnDef {
                name: "sndg".into(),
                generics: vec!["A".into(), "B".into()],
                bounds: vec![],
                params: vec![(x, Ty::Param("A".into())), (y, Ty::Param("B".into()))],
                ret: Some(Ty::Param("B".into())),
                body: block(vec![], Some(v(y))),
            }));
            (callg("sndg", vec![Ty::i32(), ty.ty()], vec![T6::I32.probe(8), hole]), ty)
        }
        "while-body" => {
            let c = n.fresh("c");
            let acc = n.fresh("acc");
            pre.push(let_(c, bi("ref", vec![int(0)])));
            pre.push(let_(acc, bi("ref", vec![ty.default()])));
            pre.push(st(E::While(
                Box::new(bin(BinOp::Lt, bi("ref_get", vec![v(c)]), int(2))),
                Box::new(block(
                    vec![st(bi("ref_set", vec![v(c), add(bi("ref_get", vec![v(c)]), int(1))])), st(bi("ref_set", vec![v(acc), hole]))],
                    None,
                )),
            )));
            (bi("ref_get", vec![v(acc)]), ty)
        }
        "while-dead-use" | "while-dead-use-nested" => {
            // the hole's value is held in a variable whose only reader is an unused let inside a loop
            // body (inside a loop inside that body): dead-code elimination meets a back edge
            let o = n.fresh("o");
            let c = n.fresh("c");
            let dead = n.fresh("dead");
            pre.push(let_(o, hole));
            pre.push(let_(c, bi("ref", vec![int(0)])));
            let bump = |c: VarId| st(bi("ref_set", vec![v(c), add(bi("ref_get", vec![v(c)]), int(1))]));
            let inner: Vec<Stmt> = if name == "while-dead-use" {
                vec![let_(dead, v(o)), bump(c)]
            } else {
                let d = n.fresh("d");
                vec![
                    let_(d, bi("ref", vec![int(0)])),
                    st(E::While(Box::new(bin(BinOp::Lt, bi("ref_get", vec![v(d)]), int(2))), Box::new(block(vec![let_(dead, v(o)), bump(d)], None)))),
                    bump(c),
                ]
            };
            pre.push(st(E::While(Box::new(bin(BinOp::Lt, bi("ref_get", vec![v(c)]), int(2))), Box::new(block(inner, None)))));
            (ty.probe(9), ty)
        }
        _ => return None,
    };
    Some(Frag {
        items,
        pre,
        expr,
        ty: out_ty,
    })
}

fn top(name: &str, f: Frag, n: &mut Names) -> Option<Program> {
    let Frag { mut items, pre, expr, ty } = f;
    let done = println(s("done"));
    let mut body: Vec<Stmt> = Vec::new();
    match name {
        "let-show" => {
            let r = n.fresh("res");
            body.extend(pre);
            body.push(let_(r, expr));
            body.push(st(ty.show(v(r))));
            body.push(st(done));
        }
        "discard" => {
            body.extend(pre);
            body.push(Stmt::Let(Pat::Wild, None, expr));
            body.push(st(done));
        }
        "unused-let" => {
            let r = n.fresh("unused");
            body.extend(pre);
            body.push(let_(r, expr));
            body.push(st(done));
        }
        "stmt" => {
            body.extend(pre);
            body.push(st(expr));
            body.push(st(done));
        }
        "return" => {
            let mut inner = pre;
            inner.insert(0, st(T6::Unit.probe(7)));
            items.push(fn_def("produce", vec![], Some(ty.ty()), block(inner, Some(expr))));
            body.push(st(ty.show(call("produce", vec![]))));
            body.push(st(done));
        }
        "closure-body" => {
            let k = n.fresh("k");
            body.push(let_(k, E::Closure(vec![], Box::new(block(pre, Some(expr))))));
            body.push(st(println(s("made"))));
            body.push(st(ty.show(E::Call(Box::new(v(k)), vec![]))));
            body.push(st(done));
        }
        "arm-discard" => {
            // the payload's value is dropped inside a match arm that yields unit
            body.push(st(E::Match(
                Box::new(T6::Bool.probe(7)),
                vec![
                    (Pat::Bool(true), {
                        let mut b = pre;
                        b.push(Stmt::Let(Pat::Wild, None, expr));
                        block(b, None)
                    }),
                    (Pat::Bool(false), block(vec![], None)),
                ],
            )));
            body.push(st(done));
        }
        "nested-fn" => {
            let a = n.fresh("arg");
            let mut inner = pre;
            inner.insert(0, st(T6::I32.show(v(a))));
            items.push(fn_def("inner", vec![(a, Ty::i32())], Some(ty.ty()), block(inner, Some(expr))));
            items.push(fn_def("outer", vec![], Some(ty.ty()), block(vec![st(T6::Unit.probe(6))], Some(call("inner", vec![T6::I32.probe(7)])))));
            body.push(st(ty.show(call("outer", vec![]))));
            body.push(st(done));
        }
        _ => return None,
    }
    let mut all = prelude(n);
    all.extend(items);
    all.push(fn_def("main", vec![], None, block(body, None)));
    Some(Program::single(all, n.names.clone()))
}

pub fn build(topn: &str, ctxn: &str, pay: &str, ty: T6) -> Option<Program> {
    let mut n = Names::new();
    let f = payload(pay, ty, &mut n)?;
    let f = ctx(ctxn, f, &mut n)?;
    top(topn, f, &mut n)
}

pub struct Lattice;

impl Family for Lattice {
    fn name(&self) -> &'static str {
        "lattice"
    }
    fn serves(&self) -> &'static [&'static str] {
        &["C01", "C02", "C03", "C04", "C09"]
    }
    fn rule(&self) -> &'static str {
        "every top-context x expression-context x payload x type of the feature lattice (quick: all tops with ctx=none plus all ctxs under top=let-show; thorough: full product; every top=let-show program also with all binders spelled with 70 characters); a case is non-trivial when it compiled and both interpreters ran it; distinct = distinct source text"
    }
    fn cases(&self, tier: Tier) -> Box<dyn Iterator<Item = Value> + '_> {
        let mut v = Vec::new();
        for top in TOPS {
            for c in CTXS {
                if tier == Tier::Quick && !(c == "none" || top == "let-show") {
                    continue;
                }
                for p in PAYLOADS {
                    for t in T6::ALL {
                        v.push(json!({"top": top, "ctx": c, "payload": p, "ty": t.tag()}));
                        // the same program with every binder spelled with 70 characters: statements wider
                        // than any line width the Go printer might want to break at
                        if top == "let-show" {
                            v.push(json!({"top": top, "ctx": c, "payload": p, "ty": t.tag(), "wide": true}));
                        }
                    }
                }
            }
        }
        Box::new(v.into_iter())
    }
    fn run(&self, case: &Value, ctx: &mut Ctx) -> Report {
        let mut rep = Report::default();
        let ty = T6::ALL.iter().copied().find(|t| t.tag() == case["ty"].as_str().unwrap()).unwrap();
        let (topn, ctxn, pay) = (case["top"].as_str().unwrap(), case["ctx"].as_str().unwrap(), case["payload"].as_str().unwrap());
        let Some(mut prog) = build(topn, ctxn, pay, ty) else {
            rep.tag("inapplicable");
            return rep;
        };
        let wide = case["wide"].as_bool().unwrap_or(false);
        if wide {
            for (i, name) in prog.names.iter_mut().enumerate() {
                *name = format!("{}{}w{}", name, "q".repeat(70usize.saturating_sub(name.len())), i);
            }
        }
        let site = format!("top={};ctx={};payload={};ty={}{}", topn, ctxn, pay, ty.tag(), if wide { ";wide" } else { "" });
        let opts = DiffOpts {
            props_sem: &["C01", "C09"],
            ..DiffOpts::default()
        };
        differential(&prog, &site, "lattice", case, ctx, &opts, &mut rep);
        rep
    }
}
