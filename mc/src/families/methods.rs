//! C17: all call forms of a method agree.

use crate::drive::*;
use crate::families::common::*;
use crate::ug::ast::*;
use crate::ug::build::*;
use serde_json::{Value, json};

pub const RECEIVERS: [&str; 14] = ["int32", "string", "bool", "S", "E2", "Box[int32]", "Box[string]", "float64", "int8", "uint64", "unit", "Box[Box[int32]]", "Box[S]", "Box[E2]"];
pub const KINDS: [&str; 14] =
    ["inherent", "trait-one-impl", "trait-two-impls", "two-traits-same-name", "dyn-containers", "dyn-builtin-containers", "dyn-direct", "coercion-in-receiver", "receiver-expression-forms", "dyn-argument:trait-path", "dyn-argument:bound-path", "dyn-argument:bound-dot", "dyn-argument:inherent-path", "dyn-argument:inherent-dot"];

fn rty(name: &str) -> Ty {
    match name {
        "int32" => Ty::i32(),
        "string" => Ty::Str,
        "bool" => Ty::Bool,
        "float64" => Ty::F64,
        "int8" => Ty::Int(IntKind::I8),
        "uint64" => Ty::Int(IntKind::U64),
        "unit" => Ty::Unit,
        "S" => Ty::named("S"),
        "E2" => Ty::named("E2"),
        "Box[int32]" => Ty::Named("Box".into(), vec![Ty::i32()]),
        // generic instances of generic instances, of a struct, of a tuple
        "Box[Box[int32]]" => Ty::Named("Box".into(), vec![Ty::Named("Box".into(), vec![Ty::i32()])]),
        "Box[S]" => Ty::Named("Box".into(), vec![Ty::named("S")]),
        "Box[E2]" => Ty::Named("Box".into(), vec![Ty::named("E2")]),
        _ => Ty::Named("Box".into(), vec![Ty::Str]),
    }
}

fn rval(name: &str, k: i128) -> E {
    match name {
        "int32" => int(10 + k),
        "string" => s(&format!("r{}", k)),
        "bool" => E::Bool(k % 2 == 0),
        // whole-number float literals: Go prints them without a fraction, where they look like integers
        "float64" => E::Float(format!("{}.0", 2 + k), false, false),
        "int8" => E::Int(3 + k, IntKind::I8, true),
        "uint64" => E::Int(5 + k, IntKind::U64, true),
        "unit" => E::Unit,
        "S" => E::StructLit("S".into(), vec![("a".into(), int(20 + k))], vec![]),
        "E2" => E::Ctor("E2".into(), "Y".into(), false, vec![E::Bool(k % 2 == 1)], vec![]),
        "Box[int32]" => E::StructLit("Box".into(), vec![("v".into(), int(30 + k))], vec![Ty::i32()]),
        "Box[Box[int32]]" => E::StructLit("Box".into(), vec![("v".into(), E::StructLit("Box".into(), vec![("v".into(), int(40 + k))], vec![Ty::i32()]))], vec![Ty::Named("Box".into(), vec![Ty::i32()])]),
        "Box[S]" => E::StructLit("Box".into(), vec![("v".into(), E::StructLit("S".into(), vec![("a".into(), int(50 + k))], vec![]))], vec![Ty::named("S")]),
        "Box[E2]" => E::StructLit("Box".into(), vec![("v".into(), E::Ctor("E2".into(), "Y".into(), false, vec![E::Bool(k % 2 == 0)], vec![]))], vec![Ty::named("E2")]),
        _ => E::StructLit("Box".into(), vec![("v".into(), s(&format!("b{}", k)))], vec![Ty::Str]),
    }
}

/// string describing the receiver (used inside method bodies)
fn rdesc(name: &str, e: E) -> E {
    match name {
        "int32" => i2s(e),
        "string" => e,
        "bool" => bi("bool_to_string", vec![e]),
        "float64" => bi("float64_to_string", vec![e]),
        "int8" => bi("int8_to_string", vec![e]),
        "uint64" => bi("uint64_to_string", vec![e]),
        "unit" => bi("unit_to_string", vec![e]),
        "S" => add(s("S"), i2s(E::Field(Box::new(e), "a".into()))),
        "E2" => s("E2"),
        "Box[int32]" => add(s("Bi"), i2s(E::Field(Box::new(e), "v".into()))),
        "Box[Box[int32]]" => add(s("BB"), i2s(E::Field(Box::new(E::Field(Box::new(e), "v".into())), "v".into()))),
        "Box[S]" => add(s("BS"), i2s(E::Field(Box::new(E::Field(Box::new(e), "v".into())), "a".into()))),
        "Box[E2]" => s("BE"),
        _ => add(s("Bs"), E::Field(Box::new(e), "v".into())),
    }
}

fn type_head(name: &str) -> &str {
    match name {
        n if n.starts_with("Box[") => "Box",
        o => o,
    }
}

fn base_items() -> Vec<Item> {
    vec![
        Item::Struct(StructDef { name: "S".into(), generics: vec![], fields: vec![("a".into(), Ty::i32())], derives: vec![] }),
        Item::Enum(EnumDef { name: "E2".into(), generics: vec![], variants: vec![("X".into(), vec![]), ("Y".into(), vec![Ty::Bool])], derives: vec![] }),
        Item::Struct(StructDef { name: "Box".into(), generics: vec!["T".into()], fields: vec![("v".into(), Ty::Param("T".into()))], derives: vec![] }),
    ]
}

fn method_def(n: &mut Names, name: &str, recv: &str, nargs: usize, label: &str) -> FnDef {
    let sf = n.fresh("self");
    let mut params = vec![(sf, rty(recv))];
    let mut body = add(s(&format!("{}:", label)), rdesc(recv, v(sf)));
    for _ in 0..nargs {
        let p = n.fresh("p");
        params.push((p, Ty::i32()));
        body = add(add(body, s("+")), i2s(v(p)));
    }
    FnDef { name: name.into(), generics: vec![], bounds: vec![], params, ret: Some(Ty::Str), body: block(vec![st(println(s(&format!("enter {}", label))))], Some(body)) }
}

pub fn build(kind: &str, recv: &str, other: &str, nargs: usize) -> Option<Program> {
    let mut n = Names::new();
    let mut items = base_items();
    let mut main: Vec<Stmt> = Vec::new();
    let args = |k: i128| -> Vec<E> { (0..nargs).map(|i| int(k * 10 + i as i128)).collect() };
    let with = |recv_e: E, k: i128| -> Vec<E> {
        let mut v = vec![recv_e];
        v.extend(args(k));
        v
    };
    let trait_sig = |name: &str| TraitDef { name: name.into(), methods: vec![("m".into(), std::iter::once(Ty::Param("Self".into())).chain((0..nargs).map(|_| Ty::i32())).collect(), Ty::Str)] };
    let x = n.fresh("x");
    main.push(let_t(x, rty(recv), rval(recv, 1)));
    match kind {
        "inherent" => {
            // impl block: for generic Box instances the impl is on the concrete instance type
            if matches!(recv, "int32" | "string" | "bool" | "float64" | "int8" | "uint64" | "unit") || recv.starts_with("Box[") {
                return None; // inherent impls on primitives are builtin-only; impls on one instance of a generic type are not claimed
            }
            let for_ty = rty(recv);
            let gens: Vec<String> = vec![];
            items.push(Item::Impl(ImplDef { generics: gens, trait_name: None, for_ty, methods: vec![method_def(&mut n, "m", recv, nargs, "inh")] }));
            let targs = match recv {
                "Box[int32]" => vec![Ty::i32()],
                "Box[string]" => vec![Ty::Str],
                _ => vec![],
            };
            main.push(st(println(E::Inherent(type_head(recv).into(), "m".into(), CallForm::Dot, with(v(x), 1), targs.clone()))));
            main.push(st(println(E::Inherent(type_head(recv).into(), "m".into(), CallForm::Path, with(v(x), 1), targs))));
        }
        "trait-one-impl" | "trait-two-impls" | "two-traits-same-name" | "dyn-containers" | "dyn-builtin-containers" | "dyn-direct" | "coercion-in-receiver" | "receiver-expression-forms" => {
            items.push(Item::Trait(trait_sig("Tr")));
            items.push(Item::Impl(ImplDef { generics: vec![], trait_name: Some("Tr".into()), for_ty: rty(recv), methods: vec![method_def(&mut n, "m", recv, nargs, "trA")] }));
            if kind != "trait-one-impl" {
                if other == recv {
                    return None;
                }
                items.push(Item::Impl(ImplDef { generics: vec![], trait_name: Some("Tr".into()), for_ty: rty(other), methods: vec![method_def(&mut n, "m", other, nargs, "trB")] }));
            }
            if kind == "two-traits-same-name" {
                items.push(Item::Trait(trait_sig("Tq")));
                items.push(Item::Impl(ImplDef { generics: vec![], trait_name: Some("Tq".into()), for_ty: rty(recv), methods: vec![method_def(&mut n, "m", recv, nargs, "tq")] }));
            }
            // generic functions through a bound
            let u = n.fresh("u");
            let mut ps = vec![(u, Ty::Param("U".into()))];
            let extra: Vec<VarId> = (0..nargs).map(|_| n.fresh("a")).collect();
            ps.extend(extra.iter().map(|a| (*a, Ty::i32())));
            let mut call_args = vec![v(u)];
            call_args.extend(extra.iter().map(|a| v(*a)));
            items.push(Item::Fn(FnDef {
                name: "via_bound_path".into(),
                generics: vec!["U".into()],
                bounds: vec![("U".into(), vec!["Tr".into()])],
                params: ps.clone(),
                ret: Some(Ty::Str),
                body: E::TraitCall("Tr".into(), "m".into(), CallForm::Path, call_args.clone(), Ty::Param("U".into())),
            }));
            items.push(Item::Fn(FnDef {
                name: "via_bound_dot".into(),
                generics: vec!["U".into()],
                bounds: vec![("U".into(), vec!["Tr".into()])],
                params: ps,
                ret: Some(Ty::Str),
                body: E::TraitCall("Tr".into(), "m".into(), CallForm::Dot, call_args, Ty::Param("U".into())),
            }));
            // all forms on the concrete receiver
            main.push(st(println(E::TraitCall("Tr".into(), "m".into(), CallForm::Path, with(v(x), 1), rty(recv)))));
            if kind == "two-traits-same-name" {
                main.push(st(println(E::TraitCall("Tq".into(), "m".into(), CallForm::Path, with(v(x), 1), rty(recv)))));
            }
            main.push(st(println(callg("via_bound_path", vec![rty(recv)], with(v(x), 1)))));
            main.push(st(println(callg("via_bound_dot", vec![rty(recv)], with(v(x), 1)))));
            let d = n.fresh("d");
            main.push(let_t(d, Ty::Dyn("Tr".into()), E::ToDyn("Tr".into(), Box::new(v(x)), rty(recv))));
            main.push(st(println(E::TraitCall("Tr".into(), "m".into(), CallForm::Path, with(v(d), 1), Ty::Dyn("Tr".into())))));
            if kind != "trait-one-impl" {
                let y = n.fresh("y");
                main.push(let_t(y, rty(other), rval(other, 2)));
                main.push(st(println(E::TraitCall("Tr".into(), "m".into(), CallForm::Path, with(v(y), 2), rty(other)))));
                main.push(st(println(callg("via_bound_path", vec![rty(other)], with(v(y), 2)))));
                let d2 = n.fresh("d");
                main.push(let_t(d2, Ty::Dyn("Tr".into()), E::ToDyn("Tr".into(), Box::new(v(y)), rty(other))));
                main.push(st(println(E::TraitCall("Tr".into(), "m".into(), CallForm::Path, with(v(d2), 2), Ty::Dyn("Tr".into())))));
                if kind == "dyn-containers" {
                    // dyn values travelling through a tuple (destructured), a struct field and an enum payload
                    let dt = Ty::Dyn("Tr".into());
                    let (t, g0, g1) = (n.fresh("t"), n.fresh("g"), n.fresh("g"));
                    main.push(let_t(t, Ty::Tuple(vec![dt.clone(), dt.clone()]), E::Tuple(vec![v(d), v(d2)])));
                    main.push(Stmt::Let(Pat::Tuple(vec![Pat::Var(g0), Pat::Var(g1)]), None, v(t)));
                    main.push(st(println(E::TraitCall("Tr".into(), "m".into(), CallForm::Path, with(v(g1), 3), dt.clone()))));
                    main.push(st(println(E::TraitCall("Tr".into(), "m".into(), CallForm::Path, with(v(g0), 3), dt.clone()))));
                    items.push(Item::Struct(StructDef { name: "HoldD".into(), generics: vec![], fields: vec![("k".into(), Ty::i32()), ("d".into(), dt.clone())], derives: vec![] }));
                    let h = n.fresh("h");
                    main.push(let_(h, E::StructLit("HoldD".into(), vec![("k".into(), int(1)), ("d".into(), v(d2))], vec![])));
                    // (the field is taken out by a pattern: `Tr::m(h.d)` is rejected because the typer only
                    // recognises a dyn receiver whose type is known when the call is visited - a limitation, not a property)
                    let gd = n.fresh("g");
                    main.push(Stmt::Let(Pat::Struct("HoldD".into(), vec![("k".into(), Pat::Wild), ("d".into(), Pat::Var(gd))]), None, v(h)));
                    main.push(st(println(E::TraitCall("Tr".into(), "m".into(), CallForm::Path, with(v(gd), 3), dt.clone()))));
                    items.push(Item::Enum(EnumDef { name: "MaybeD".into(), generics: vec![], variants: vec![("NoD".into(), vec![]), ("HasD".into(), vec![dt.clone()])], derives: vec![] }));
                    let (o, g2) = (n.fresh("o"), n.fresh("g"));
                    main.push(let_(o, E::Ctor("MaybeD".into(), "HasD".into(), true, vec![v(d)], vec![])));
                    main.push(st(println(E::Match(
                        Box::new(v(o)),
                        vec![
                            (Pat::Ctor("MaybeD".into(), "HasD".into(), true, vec![Pat::Var(g2)]), E::TraitCall("Tr".into(), "m".into(), CallForm::Path, with(v(g2), 3), dt.clone())),
                            (Pat::Ctor("MaybeD".into(), "NoD".into(), true, vec![]), s("none")),
                        ],
                    ))));
                }
                if kind == "coercion-in-receiver" {
                    // the receiver of a path-form call is itself a call whose arguments are coerced to dyn
                    let (pd, pk) = (n.fresh("d"), n.fresh("k"));
                    let mut inner = vec![v(pd)];
                    inner.extend((0..nargs).map(|i| int(40 + i as i128)));
                    items.push(fn_def(
                        "through",
                        vec![(pd, Ty::Dyn("Tr".into())), (pk, rty(recv))],
                        Some(rty(recv)),
                        block(vec![st(println(E::TraitCall("Tr".into(), "m".into(), CallForm::Path, inner, Ty::Dyn("Tr".into()))))], Some(v(pk))),
                    ));
                    let coerced = E::ToDyn("Tr".into(), Box::new(v(y)), rty(other));
                    main.push(st(println(E::TraitCall("Tr".into(), "m".into(), CallForm::Path, with(call("through", vec![coerced.clone(), v(x)]), 7), rty(recv)))));
                    main.push(st(println(callg("via_bound_path", vec![rty(recv)], with(call("through", vec![coerced, v(x)]), 8)))));
                }
                if kind == "receiver-expression-forms" {
                    // the receiver is not a variable but an expression whose value has the receiver's
                    // type while a sub-expression (a scrutinee, a variable bound by an arm, a condition)
                    // has the other implementing type
                    let (q1, q2, q3, c) = (n.fresh("q"), n.fresh("q"), n.fresh("q"), n.fresh("c"));
                    main.push(let_t(c, Ty::Bool, E::Bool(true)));
                    let forms: Vec<E> = vec![
                        E::Match(Box::new(v(y)), vec![(Pat::Var(q1), v(x))]),
                        E::If(Box::new(v(c)), Box::new(v(x)), Box::new(v(x))),
                        E::Match(Box::new(v(c)), vec![(Pat::Bool(true), v(x)), (Pat::Bool(false), v(x))]),
                        E::Match(Box::new(v(y)), vec![(Pat::Var(q2), E::Match(Box::new(v(x)), vec![(Pat::Var(q3), v(q3))]))]),
                    ];
                    for (i, f) in forms.into_iter().enumerate() {
                        main.push(st(println(E::TraitCall("Tr".into(), "m".into(), CallForm::Path, with(f.clone(), 10 + i as i128), rty(recv)))));
                        main.push(st(println(callg("via_bound_path", vec![rty(recv)], with(f, 20 + i as i128)))));
                    }
                }
                if kind == "dyn-direct" {
                    // the coerced expression is not a variable but a literal / constructor expression
                    // (generic instances excluded: their literal's type arguments are still open when the
                    // coercion is checked, which the typer rejects)
                    if recv.starts_with("Box") || other.starts_with("Box") {
                        return None;
                    }
                    let dt = Ty::Dyn("Tr".into());
                    let (e1, e2) = (n.fresh("e"), n.fresh("e"));
                    main.push(let_t(e1, dt.clone(), E::ToDyn("Tr".into(), Box::new(rval(recv, 4)), rty(recv))));
                    main.push(st(println(E::TraitCall("Tr".into(), "m".into(), CallForm::Path, with(v(e1), 4), dt.clone()))));
                    main.push(let_t(e2, dt.clone(), E::ToDyn("Tr".into(), Box::new(rval(other, 5)), rty(other))));
                    main.push(st(println(E::TraitCall("Tr".into(), "m".into(), CallForm::Path, with(v(e2), 5), dt.clone()))));
                }
                if kind == "dyn-builtin-containers" {
                    // dyn values read back through the polymorphic builtins; the typer does not resolve the
                    // element type before it looks for the trait instance, so these may be rejected (tagged, not a finding)
                    let dt = Ty::Dyn("Tr".into());
                    let (arr, w, g2, g3) = (n.fresh("arr"), n.fresh("w"), n.fresh("g"), n.fresh("g"));
                    main.push(let_t(arr, Ty::Array(2, Box::new(dt.clone())), E::Array(vec![v(d2), v(d)])));
                    main.push(let_(g2, bi("array_get", vec![v(arr), int(1)])));
                    main.push(st(println(E::TraitCall("Tr".into(), "m".into(), CallForm::Path, with(v(g2), 3), dt.clone()))));
                    main.push(let_t(w, Ty::Vec(Box::new(dt.clone())), bi("vec_new", vec![])));
                    main.push(let_(g3, bi("vec_get", vec![bi("vec_push", vec![bi("vec_push", vec![v(w), v(d)]), v(d2)]), int(1)])));
                    main.push(st(println(E::TraitCall("Tr".into(), "m".into(), CallForm::Path, with(v(g3), 3), dt))));
                }
            }
        }
        k if k.starts_with("dyn-argument:") => {
            let form_wanted = &k["dyn-argument:".len()..];
            if form_wanted.starts_with("inherent") && !matches!(recv, "S" | "E2") {
                return None;
            }
            // a method whose parameter is `dyn Tr`, called with a concrete value that must be coerced
            // at the call site, in every call form
            if other == recv {
                return None;
            }
            let dt = Ty::Dyn("Tr".into());
            items.push(Item::Trait(trait_sig("Tr")));
            items.push(Item::Impl(ImplDef { generics: vec![], trait_name: Some("Tr".into()), for_ty: rty(other), methods: vec![method_def(&mut n, "m", other, nargs, "trB")] }));
            let y = n.fresh("y");
            main.push(let_t(y, rty(other), rval(other, 2)));
            let coerced = || E::ToDyn("Tr".into(), Box::new(v(y)), rty(other));
            let pd_body = |n: &mut Names, label: &str, name: &str| -> FnDef {
                let (sf, d) = (n.fresh("self"), n.fresh("d"));
                let mut inner = vec![v(d)];
                inner.extend((0..nargs).map(|i| int(50 + i as i128)));
                FnDef {
                    name: name.into(),
                    generics: vec![],
                    bounds: vec![],
                    params: vec![(sf, rty(recv)), (d, Ty::Dyn("Tr".into()))],
                    ret: Some(Ty::Str),
                    body: add(add(s(&format!("{}:", label)), rdesc(recv, v(sf))), add(s("/"), E::TraitCall("Tr".into(), "m".into(), CallForm::Path, inner, Ty::Dyn("Tr".into())))),
                }
            };
            items.push(Item::Trait(TraitDef { name: "Tp".into(), methods: vec![("pd".into(), vec![Ty::Param("Self".into()), dt.clone()], Ty::Str)] }));
            items.push(Item::Impl(ImplDef { generics: vec![], trait_name: Some("Tp".into()), for_ty: rty(recv), methods: vec![pd_body(&mut n, "tp", "pd")] }));
            // through a bound, the argument still concrete inside the generic function
            for (fname, form) in [("via_tp_path", CallForm::Path), ("via_tp_dot", CallForm::Dot)] {
                if (fname == "via_tp_path") != (form_wanted == "bound-path") || !form_wanted.starts_with("bound") {
                    continue;
                }
                let (u, k) = (n.fresh("u"), n.fresh("k"));
                items.push(Item::Fn(FnDef {
                    name: fname.into(),
                    generics: vec!["U".into()],
                    bounds: vec![("U".into(), vec!["Tp".into()])],
                    params: vec![(u, Ty::Param("U".into())), (k, rty(other))],
                    ret: Some(Ty::Str),
                    body: E::TraitCall("Tp".into(), "pd".into(), form, vec![v(u), E::ToDyn("Tr".into(), Box::new(v(k)), rty(other))], Ty::Param("U".into())),
                }));
            }
            match form_wanted {
                "trait-path" => main.push(st(println(E::TraitCall("Tp".into(), "pd".into(), CallForm::Path, vec![v(x), coerced()], rty(recv))))),
                "bound-path" => main.push(st(println(callg("via_tp_path", vec![rty(recv)], vec![v(x), v(y)])))),
                "bound-dot" => main.push(st(println(callg("via_tp_dot", vec![rty(recv)], vec![v(x), v(y)])))),
                _ => {
                    items.push(Item::Impl(ImplDef { generics: vec![], trait_name: None, for_ty: rty(recv), methods: vec![pd_body(&mut n, "inh", "pi")] }));
                    let form = if form_wanted == "inherent-path" { CallForm::Path } else { CallForm::Dot };
                    main.push(st(println(E::Inherent(type_head(recv).into(), "pi".into(), form, vec![v(x), coerced()], vec![]))));
                }
            }
        }
        _ => return None,
    }
    main.push(st(println(s("done"))));
    items.push(fn_def("main", vec![], None, block(main, None)));
    Some(Program::single(items, n.names.clone()))
}

/// negative cases: (name, source) that must be rejected with a diagnostic (never accepted, never a panic)
const BOUND_HEAD: &str = "trait Tr { fn m(Self) -> string; }\ntrait Tq { fn q(Self) -> string; }\nstruct Sb { a: int32 }\nstruct Nb { a: int32 }\nstruct Bx[T] { v: T }\nimpl Tr for Sb { fn m(self: Sb) -> string { \"s\" } }\nimpl Tq for Sb { fn q(self: Sb) -> string { \"q\" } }\nimpl Tr for int32 { fn m(self: int32) -> string { \"i\" } }\nimpl Tr for Bx[int32] { fn m(self: Bx[int32]) -> string { \"b\" } }\nimpl Tr for (int32, bool) { fn m(self: (int32, bool)) -> string { \"t\" } }\nfn need[U: Tr](u: U) -> string { Tr::m(u) }\nfn both[U: Tr + Tq](u: U) -> string { Tr::m(u) + Tq::q(u) }\nfn second[A, B: Tr](a: A, b: B) -> string { Tr::m(b) }\nimpl Sb { fn with[W: Tr](self: Sb, w: W) -> string { Tr::m(w) } fn make[W: Tr](w: W) -> string { Tr::m(w) } }\nimpl[T] Bx[T] { fn describe[W: Tr](self: Bx[T], w: W) -> string { Tr::m(w) } }\n";

/// (name, the rest of the program, whether the bounds are satisfied)
fn bound_calls() -> Vec<(&'static str, &'static str, bool)> {
    vec![
        ("struct-with-impl", "fn main() { string_println(need(Sb { a: 1 })) }\n", true),
        ("struct-without-impl", "fn main() { string_println(need(Nb { a: 1 })) }\n", false),
        ("primitive-with-impl", "fn main() { string_println(need(1)) }\n", true),
        ("primitive-without-impl", "fn main() { string_println(need(true)) }\n", false),
        ("string-without-impl", "fn main() { string_println(need(\"s\")) }\n", false),
        ("dyn-value", "fn main() { let s = Sb { a: 1 }; let d: dyn Tr = s; string_println(need(d)) }\n", false),
        ("instance-with-impl", "fn main() { let b: Bx[int32] = Bx { v: 1 }; string_println(need(b)) }\n", true),
        ("instance-without-impl", "fn main() { let b: Bx[bool] = Bx { v: true }; string_println(need(b)) }\n", false),
        ("tuple-with-impl", "fn main() { string_println(need((1, true))) }\n", true),
        ("tuple-without-impl", "fn main() { string_println(need((1, 1))) }\n", false),
        ("two-bounds-both-implemented", "fn main() { string_println(both(Sb { a: 1 })) }\n", true),
        ("two-bounds-one-implemented", "fn main() { string_println(both(1)) }\n", false),
        ("second-parameter-bounded-first-free", "fn main() { string_println(second(true, 1)) }\n", true),
        ("second-parameter-bounded-without-impl", "fn main() { string_println(second(1, true)) }\n", false),
        ("caller-with-the-bound", "fn via[V: Tr](v: V) -> string { need(v) }\nfn main() { string_println(via(1)) }\n", true),
        ("caller-without-a-bound", "fn via[V](v: V) -> string { need(v) }\nfn main() { string_println(via(1)) }\n", false),
        ("caller-with-another-bound", "fn via[V: Tq](v: V) -> string { need(v) }\nfn main() { string_println(via(Sb { a: 1 })) }\n", false),
        ("caller-with-both-bounds", "fn via[V: Tq + Tr](v: V) -> string { both(v) }\nfn main() { string_println(via(Sb { a: 1 })) }\n", true),
        ("caller-with-one-of-two-bounds", "fn via[V: Tr](v: V) -> string { both(v) }\nfn main() { string_println(via(Sb { a: 1 })) }\n", false),
        ("function-value-at-a-type-with-impl", "fn main() { let f: (Sb) -> string = need; string_println(f(Sb { a: 1 })) }\n", true),
        ("function-value-at-a-type-without-impl", "fn main() { let f: (Nb) -> string = need; string_println(f(Nb { a: 1 })) }\n", false),
        ("inside-a-closure-with-impl", "fn main() { let c = |k: int32| need(k); string_println(c(1)) }\n", true),
        ("inside-a-closure-without-impl", "fn main() { let c = |k: bool| need(k); string_println(c(true)) }\n", false),
        ("result-of-a-generic-call-with-impl", "fn idg[T](x: T) -> T { x }\nfn main() { string_println(need(idg(1))) }\n", true),
        // bounds on the type parameters of methods: dot form, path form, associated function, method of a generic impl
        ("method-dot-with-impl", "fn main() { let s = Sb { a: 1 }; string_println(s.with(1)) }\n", true),
        ("method-dot-without-impl", "fn main() { let s = Sb { a: 1 }; string_println(s.with(true)) }\n", false),
        ("method-path-with-impl", "fn main() { let s = Sb { a: 1 }; string_println(Sb::with(s, 1)) }\n", true),
        ("method-path-without-impl", "fn main() { let s = Sb { a: 1 }; string_println(Sb::with(s, \"x\")) }\n", false),
        ("associated-function-with-impl", "fn main() { string_println(Sb::make(Sb { a: 2 })) }\n", true),
        ("associated-function-without-impl", "fn main() { string_println(Sb::make(Nb { a: 2 })) }\n", false),
        ("method-of-a-generic-impl-dot-with-impl", "fn main() { let b: Bx[bool] = Bx { v: true }; string_println(b.describe(1)) }\n", true),
        ("method-of-a-generic-impl-dot-without-impl", "fn main() { let b: Bx[bool] = Bx { v: true }; string_println(b.describe(true)) }\n", false),
        ("method-of-a-generic-impl-path-without-impl", "fn main() { let b: Bx[bool] = Bx { v: true }; string_println(Bx::describe(b, \"x\")) }\n", false),
        ("method-inside-a-generic-caller-with-the-bound", "fn via[V: Tr](v: V) -> string { let s = Sb { a: 1 }; s.with(v) }\nfn main() { string_println(via(1)) }\n", true),
        ("method-inside-a-generic-caller-without-the-bound", "fn via[V](v: V) -> string { let s = Sb { a: 1 }; s.with(v) }\nfn main() { string_println(via(1)) }\n", false),
        ("method-as-a-value-without-impl", "fn main() { let f: (Sb, bool) -> string = Sb::with; string_println(f(Sb { a: 1 }, true)) }\n", false),
        ("result-of-a-generic-call-without-impl", "fn idg[T](x: T) -> T { x }\nfn main() { string_println(need(idg(true))) }\n", false),
    ]
}

/// the satisfied calls: (name, text, expected output)
pub fn bound_controls() -> Vec<(String, String)> {
    bound_calls().into_iter().filter(|(_, _, ok)| *ok).map(|(n, b, _)| (n.to_string(), format!("{}{}", BOUND_HEAD, b))).collect()
}

fn negatives() -> Vec<(&'static str, String)> {
    let head = "trait Tr { fn m(Self) -> string; }\ntrait Tq { fn m(Self) -> string; }\nstruct S { a: int32 }\nstruct N { a: int32 }\nimpl Tr for S { fn m(self: S) -> string { \"s\" } }\nimpl Tq for S { fn m(self: S) -> string { \"q\" } }\n";
    let v = vec![
        ("dyn-without-impl", format!("{}fn main() {{ let n = N {{ a: 1 }}; let d: dyn Tr = n; string_println(Tr::m(d)) }}\n", head)),
        ("dyn-without-impl-primitive", format!("{}fn main() {{ let d: dyn Tr = 1; string_println(Tr::m(d)) }}\n", head)),
        ("ambiguous-two-bounds", format!("{}fn both[U: Tr + Tq](u: U) -> string {{ u.m() }}\nfn main() {{ string_println(both(S {{ a: 1 }})) }}\n", head)),
        ("ambiguous-two-traits-dot", format!("{}fn main() {{ let x = S {{ a: 1 }}; string_println(x.m()) }}\n", head)),
        ("bound-not-satisfied", format!("{}fn need[U: Tr](u: U) -> string {{ Tr::m(u) }}\nfn main() {{ string_println(need(N {{ a: 1 }})) }}\n", head)),
        ("unknown-method", format!("{}fn main() {{ let x = S {{ a: 1 }}; string_println(x.zzz()) }}\n", head)),
        ("method-value-standalone", format!("{}fn main() {{ let x = S {{ a: 1 }}; let f = x.m; string_println(\"x\") }}\n", head)),
        ("trait-path-wrong-type", format!("{}fn main() {{ string_println(Tr::m(N {{ a: 1 }})) }}\n", head)),
        // one method name defined by two inherent impls that both apply to the receiver
        ("inherent-generic-and-exact-impl", "struct Bx[T] { v: T }\nimpl[T] Bx[T] { fn m(self: Bx[T]) -> string { \"generic\" } }\nimpl Bx[int32] { fn m(self: Bx[int32]) -> string { \"exact\" } }\nfn main() { let b = Bx { v: 1 }; string_println(b.m() + Bx::m(b)) }\n".to_string()),
        // a method spelled like a variant of its own enum: `E::name(x)` builds the variant, `x.name()` calls the method
        ("method-named-like-a-variant-with-payload", "enum Shape { wrap(Shape), Leaf }\nimpl Shape { fn wrap(self: Shape) -> int32 { 7 } }\nfn main() { let s = Shape::Leaf; string_println(int32_to_string(s.wrap())) }\n".to_string()),
        ("method-named-like-a-variant-without-payload", "enum Shape { leaf, Node(int32) }\nimpl Shape { fn leaf(self: Shape) -> int32 { 7 } }\nfn main() { let s = Shape::Node(1); string_println(int32_to_string(s.leaf())) }\n".to_string()),
        ("method-named-like-a-variant-of-a-generic-enum", "enum Opt[T] { non, som(T) }\nimpl[T] Opt[T] { fn som(self: Opt[T]) -> int32 { 1 } }\nfn main() { let s: Opt[int32] = Opt::non; string_println(int32_to_string(s.som())) }\n".to_string()),
        ("associated-function-named-like-a-variant", "enum Shape { make(int32), Leaf }\nimpl Shape { fn make(k: int32) -> Shape { Shape::Leaf } }\nfn main() { let s = Shape::make(1); string_println(match s { Shape::make(k) => \"variant\", Shape::Leaf => \"function\" }) }\n".to_string()),
        ("inherent-exact-and-generic-impl", "struct Bx[T] { v: T }\nimpl Bx[int32] { fn m(self: Bx[int32]) -> string { \"exact\" } }\nimpl[T] Bx[T] { fn m(self: Bx[T]) -> string { \"generic\" } }\nfn main() { let b = Bx { v: 1 }; string_println(b.m() + Bx::m(b)) }\n".to_string()),
        ("inherent-same-method-in-two-blocks", "struct S { a: int32 }\nimpl S { fn m(self: S) -> string { \"one\" } }\nimpl S { fn m(self: S) -> string { \"two\" } }\nfn main() { let x = S { a: 1 }; string_println(x.m() + S::m(x)) }\n".to_string()),
        ("inherent-same-method-in-two-generic-blocks", "struct Bx[T] { v: T }\nimpl[T] Bx[T] { fn m(self: Bx[T]) -> string { \"one\" } }\nimpl[U] Bx[U] { fn m(self: Bx[U]) -> string { \"two\" } }\nfn main() { let b = Bx { v: 1 }; string_println(b.m()) }\n".to_string()),
    ];
    // the same method name in two traits with every pair of arities 0..2 extra arguments, called in
    // dot form with every argument count that fits at least one of them: ambiguous, so rejected
    let mut v = v;
    for na in 0..=2usize {
        for nb in 0..=2usize {
            for nargs in 0..=2usize {
                if nargs != na && nargs != nb {
                    continue;
                }
                let sig = |k: usize| (0..k).map(|_| ", int32").collect::<String>();
                let prm = |k: usize| (0..k).map(|i| format!(", p{}: int32", i)).collect::<String>();
                let args = (0..nargs).map(|i| format!("{}", i + 1)).collect::<Vec<_>>().join(", ");
                let head2 = format!(
                    "trait Ta {{ fn foo(Self{}) -> string; }}\ntrait Tb {{ fn foo(Self{}) -> string; }}\nstruct S {{ a: int32 }}\nimpl Ta for S {{ fn foo(self: S{}) -> string {{ \"a\" }} }}\nimpl Tb for S {{ fn foo(self: S{}) -> string {{ \"b\" }} }}\n",
                    sig(na), sig(nb), prm(na), prm(nb)
                );
                let name_b: &'static str = Box::leak(format!("ambiguous-bounds-arity-{}-{}-call-{}", na, nb, nargs).into_boxed_str());
                v.push((name_b, format!("{}fn both[U: Ta + Tb](u: U) -> string {{ u.foo({}) }}\nfn main() {{ string_println(both(S {{ a: 1 }})) }}\n", head2, args)));
                let name_c: &'static str = Box::leak(format!("ambiguous-concrete-arity-{}-{}-call-{}", na, nb, nargs).into_boxed_str());
                v.push((name_c, format!("{}fn main() {{ let x = S {{ a: 1 }}; string_println(x.foo({})) }}\n", head2, args)));
            }
        }
    }
    // one method name defined by two inherent impl blocks that overlap (generic + instance, or two blocks
    // of one instance), next to 0-2 further blocks of the same type that define other names, in every
    // order of the blocks
    let blocks: [(&str, &str, &str); 4] = [("G", "impl[T] Bx[T]", "Bx[T]"), ("I", "impl Bx[int32]", "Bx[int32]"), ("S", "impl Bx[string]", "Bx[string]"), ("J", "impl Bx[int32]", "Bx[int32]")];
    fn perms(items: &[usize]) -> Vec<Vec<usize>> {
        if items.len() <= 1 {
            return vec![items.to_vec()];
        }
        let mut out = Vec::new();
        for i in 0..items.len() {
            let mut rest = items.to_vec();
            let x = rest.remove(i);
            for mut p in perms(&rest) {
                p.insert(0, x);
                out.push(p);
            }
        }
        out
    }
    for (p, q) in [(0usize, 1usize), (0, 2), (1, 3)] {
        let others: Vec<usize> = (0..4).filter(|k| *k != p && *k != q).collect();
        for mask in 0..4u32 {
            let mut chosen = vec![p, q];
            for (bit, o) in others.iter().enumerate() {
                if mask & (1 << bit) != 0 {
                    chosen.push(*o);
                }
            }
            for order in perms(&chosen) {
                let mut text = String::from("struct Bx[T] { v: T }\n");
                for k in &order {
                    let (tag, head, recv) = blocks[*k];
                    let mname = if *k == p || *k == q { "m".to_string() } else { format!("other{}", tag) };
                    text.push_str(&format!("{} {{ fn {}(self: {}) -> string {{ \"{}\" }} }}\n", head, mname, recv, tag));
                }
                text.push_str("fn main() { let b: Bx[int32] = Bx { v: 1 }; string_println(\"x\") }\n");
                let name: &'static str = Box::leak(format!("overlapping-inherent-{}{}-order-{}", blocks[p].0, blocks[q].0, order.iter().map(|k| blocks[*k].0).collect::<String>()).into_boxed_str());
                v.push((name, text));
            }
        }
    }
    // a type and a trait of one name: `Name::m(x)` and `x.m()` would look `m` up in different places
    for (kind, decl) in [("struct", "struct Shape { w: int32 }"), ("enum", "enum Shape { Sq(int32) }")] {
        let mk = if kind == "struct" { "Shape { w: 2 }" } else { "Shape::Sq(2)" };
        for trait_first in [true, false] {
            let tr = "trait Shape { fn area(Self) -> int32; }";
            let (d1, d2) = if trait_first { (tr, decl) } else { (decl, tr) };
            let name: &'static str = Box::leak(format!("{}-and-trait-of-one-name-{}", kind, if trait_first { "trait-first" } else { "type-first" }).into_boxed_str());
            v.push((
                name,
                format!("{}\n{}\nimpl Shape {{ fn area(self: Shape) -> int32 {{ 1 }} }}\nimpl Shape for Shape {{ fn area(self: Shape) -> int32 {{ 100 }} }}\nfn main() {{ let s = {}; string_println(int32_to_string(s.area())); string_println(int32_to_string(Shape::area(s))) }}\n", d1, d2, mk),
            ));
        }
    }
    // the bound of a generic function at its call sites: the type argument has no impl of the trait, or the
    // calling function's own type parameter lacks the bound (the same head with the satisfied calls is the
    // control: it must be accepted, see `bound_controls`)
    for (bn, body) in bound_calls().into_iter().filter(|(_, _, ok)| !*ok).map(|(n, b, _)| (n, b)) {
        let name: &'static str = Box::leak(format!("bound-not-satisfied;{}", bn).into_boxed_str());
        v.push((name, format!("{}{}", BOUND_HEAD, body)));
    }
    // a value of a generic type's instance that has no impl (another instance has one), reaching a dyn
    // position in every form a value can be written and through every coercion site
    let dhead = "trait Sh { fn sh(Self) -> string; }\nstruct Bx[T] { v: T }\nenum Op[T] { So(T), No }\nimpl Sh for Bx[int32] { fn sh(self: Bx[int32]) -> string { \"bx\" } }\nimpl Sh for Op[int32] { fn sh(self: Op[int32]) -> string { \"op\" } }\nimpl Sh for (int32, Bx[int32]) { fn sh(self: (int32, Bx[int32])) -> string { \"tp\" } }\nstruct Holder { d: dyn Sh }\nfn take(d: dyn Sh) -> string { Sh::sh(d) }\n";
    let values = [
        ("struct-literal", "Bx { v: \"s\" }", ""),
        ("positional-constructor", "Bx(\"s\")", ""),
        ("enum-constructor", "Op::So(\"s\")", ""),
        ("bare-enum-constructor", "So(true)", ""),
        ("tuple-with-a-literal", "(1, Bx { v: true })", ""),
        ("annotated-local", "b", "let b: Bx[string] = Bx { v: \"s\" }; "),
        ("inferred-local", "b", "let b = Bx { v: \"s\" }; "),
        ("call-result", "mk()", ""),
        ("if-result", "if true { Bx { v: \"s\" } } else { Bx { v: \"t\" } }", ""),
    ];
    let sites = [
        ("annotated-let", "let d: dyn Sh = §; string_println(Sh::sh(d))"),
        ("argument", "string_println(take(§))"),
        ("struct-field", "let h = Holder { d: § }; string_println(\"built\")"),
        ("returned", "let g = give(); string_println(\"got\")"),
    ];
    for (vn, value, pre) in values {
        for (sn, site) in sites {
            let name: &'static str = Box::leak(format!("dyn-coercion-without-impl;value={};site={}", vn, sn).into_boxed_str());
            let give = if sn == "returned" { format!("fn give() -> dyn Sh {{ {}{} }}\n", pre, value) } else { String::new() };
            let body = if sn == "returned" { site.to_string() } else { format!("{}{}", pre, site.replace('§', value)) };
            v.push((name, format!("{}fn mk() -> Bx[string] {{ Bx {{ v: \"s\" }} }}\n{}fn main() {{ {} }}\n", dhead, give, body)));
        }
    }
    v
}

pub struct Methods;

impl Family for Methods {
    fn name(&self) -> &'static str {
        "methods"
    }
    fn serves(&self) -> &'static [&'static str] {
        &["C17", "C01", "C02", "C03", "C04"]
    }
    fn rule(&self) -> &'static str {
        "receiver types {int32,string,bool,S,E2,Box[int32],Box[string],float64,int8,uint64,unit,Box[Box[int32]],Box[S],Box[E2]} x 0-2 extra arguments x {inherent, trait with one impl, trait with impls for two receiver types, two traits with the same method name, dyn values through a destructured tuple, a struct field and an enum payload, a literal / constructor expression coerced to dyn directly, a path-form call whose receiver is a call with a dyn-coerced argument, a method with a `dyn Tr` parameter called in every form with a concrete argument that must be coerced, a path-form call whose receiver is a match / if expression with a scrutinee or arm variable of the other implementing type, dyn values read back through array_get/vec_get (may be rejected: inference limitation, tagged)}; each program calls every applicable form (x.m(a), T::m(x,a), Tr::m(x,a), through a T: Tr bound in dot and path form, Tr::m(d,a) on the value coerced to dyn Tr) and prints each result; 12 + 30 + 114 + 4 negative programs (one method name defined by two inherent impls applying to the same receiver (generic + exact instance, two blocks; every order of 2-4 impl blocks of one generic type in which exactly two overlapping blocks define the name); a type and a trait of one name (rejected, or both call forms print the same); dyn coercion without impl, ambiguous method under two bounds/traits, unsatisfied bound, unknown method, standalone method value; the same method name in two traits at every pair of arities 0..2 called in dot form through two bounds and on a concrete receiver with every fitting argument count) that must be rejected with a diagnostic. non-trivial = programs with >= 2 impls; distinct = distinct source text"
    }
    fn cases(&self, _tier: Tier) -> Box<dyn Iterator<Item = Value> + '_> {
        let mut v = Vec::new();
        for k in KINDS {
            for (i, r) in RECEIVERS.iter().enumerate() {
                for nargs in 0..=2 {
                    let others: Vec<&str> = if k == "inherent" || k == "trait-one-impl" {
                        vec![r]
                    } else {
                        vec![RECEIVERS[(i + 1) % RECEIVERS.len()], RECEIVERS[(i + 3) % RECEIVERS.len()], RECEIVERS[(i + 6) % RECEIVERS.len()]]
                    };
                    for o in others {
                        v.push(json!({"kind": k, "recv": r, "other": o, "nargs": nargs}));
                    }
                }
            }
        }
        for (name, _) in negatives() {
            v.push(json!({"kind": "negative", "name": name}));
        }
        for (name, _) in bound_controls() {
            v.push(json!({"kind": "bound-satisfied", "name": name}));
        }
        Box::new(v.into_iter())
    }
    fn run(&self, case: &Value, ctx: &mut Ctx) -> Report {
        let mut rep = Report::default();
        let kind = case["kind"].as_str().unwrap();
        if kind == "bound-satisfied" {
            let name = case["name"].as_str().unwrap();
            let text = bound_controls().into_iter().find(|(n, _)| n == name).unwrap().1;
            let site = format!("bound-satisfied;{}", name);
            rep.nontrivial_key = Some(text.clone());
            rep.outcome = Some(site.clone());
            // accepted, valid Go, runs (what it prints is the impl's own text: not pinned here)
            let path = ctx.scratch.single_path();
            let replay = json!({"kind": "text", "text": text, "oracle": "must-accept"});
            match crate::oracle::compile_at(&path, &text) {
                crate::oracle::CompileOutcome::Ok(comp) => {
                    let go = crate::oracle::go_text(&comp).unwrap_or_default();
                    drop(comp);
                    match crate::projects::run_go(&go, FUEL) {
                        Ok(o) if o.end == crate::oracle::NEnd::Ok && !o.stdout.is_empty() => rep.tag("bound-satisfied:runs"),
                        Ok(o) => rep.findings.push(Finding { property: "C17", class: "sem.end".into(), site, detail: format!("{:?}/{}", lossy(&o.stdout), end_tag(&o.end)), replay }),
                        Err(m) if m.starts_with("machinery") => rep.tag("machinery:go-unsupported"),
                        Err(m) => {
                            for p in ["C17", "C02"] {
                                rep.findings.push(Finding { property: p, class: m.split(':').next().unwrap_or("go.invalid").to_string(), site: format!("{};goerr={}", site, normalise_msg(&m)), detail: m.clone(), replay: replay.clone() });
                            }
                        }
                    }
                }
                crate::oracle::CompileOutcome::Err(e) => {
                    let (stage, msg) = describe_err(&e);
                    for p in ["C17", "C03"] {
                        rep.findings.push(Finding { property: p, class: format!("well-typed.rejected.{}", stage), site: format!("{};msg={}", site, normalise_msg(&msg)), detail: msg.clone(), replay: replay.clone() });
                    }
                }
                crate::oracle::CompileOutcome::Panic(m) => {
                    let m = normalise_msg(&m);
                    for p in ["C17", "C04"] {
                        rep.findings.push(Finding { property: p, class: "compile.panic".into(), site: format!("{};msg={}", site, m), detail: m.clone(), replay: replay.clone() });
                    }
                }
            }
            return rep;
        }
        if kind == "negative" {
            let name = case["name"].as_str().unwrap();
            let text = negatives().into_iter().find(|(n, _)| *n == name).unwrap().1;
            let path = ctx.scratch.single_path();
            rep.nontrivial_key = Some(text.clone());
            let replay = json!({"kind": "text", "text": text, "oracle": "must-reject"});
            match crate::oracle::compile_at(&path, &text) {
                crate::oracle::CompileOutcome::Err(e) => {
                    let (stage, _) = describe_err(&e);
                    rep.tag(format!("negative:rejected:{}", stage));
                    rep.outcome = Some(format!("{}:rejected", name));
                }
                crate::oracle::CompileOutcome::Ok(comp) if name.contains("-of-one-name-") => {
                    // not ambiguous if both call forms run the same code: the two printed lines must agree
                    let go = crate::oracle::go_text(&comp).unwrap_or_default();
                    drop(comp);
                    match crate::projects::run_go(&go, FUEL) {
                        Ok(o) => {
                            let out = lossy(&o.stdout);
                            let lines: Vec<&str> = out.lines().collect();
                            if lines.len() == 2 && lines[0] == lines[1] {
                                rep.tag("negative:accepted-forms-agree");
                            } else {
                                rep.tag("negative:accepted-forms-disagree");
                                rep.findings.push(Finding { property: "C17", class: "forms-disagree".into(), site: format!("negative={}", name), detail: format!("x.m() and Name::m(x) printed {:?}", lines), replay: replay.clone() });
                            }
                        }
                        Err(m) => rep.findings.push(Finding { property: "C17", class: "negative.accepted-invalid-go".into(), site: format!("negative={}", name), detail: m, replay: replay.clone() }),
                    }
                }
                crate::oracle::CompileOutcome::Ok(_) => {
                    rep.tag("negative:accepted");
                    for p in ["C17", "C03"] {
                        rep.findings.push(Finding { property: p, class: "negative.accepted".into(), site: format!("negative={}", name), detail: "a program that must be rejected was accepted".into(), replay: replay.clone() });
                    }
                }
                crate::oracle::CompileOutcome::Panic(m) => {
                    let m = normalise_msg(&m);
                    for p in ["C17", "C04"] {
                        rep.findings.push(Finding { property: p, class: "compile.panic".into(), site: format!("negative={};msg={}", name, m), detail: m.clone(), replay: replay.clone() });
                    }
                }
            }
            return rep;
        }
        let (recv, other) = (case["recv"].as_str().unwrap(), case["other"].as_str().unwrap());
        let nargs = case["nargs"].as_u64().unwrap() as usize;
        let Some(prog) = build(kind, recv, other, nargs) else {
            rep.tag("inapplicable");
            return rep;
        };
        let site = format!("kind={};recv={};other={};nargs={}", kind, recv, other, nargs);
        // every program built here is well-typed: a rejection is a finding, except for the kind that
        // reads dyn values back through array_get / vec_get (a documented inference limitation)
        let reject: &'static [&'static str] = if kind == "dyn-builtin-containers" { &[] } else { &["C17"] };
        let opts = DiffOpts { props_sem: &["C17", "C01"], props_go: &["C02", "C17"], props_panic: &["C04", "C17"], props_reject: reject, ..DiffOpts::default() };
        differential(&prog, &site, "methods", case, ctx, &opts, &mut rep);
        if kind == "inherent" || kind == "trait-one-impl" {
            rep.nontrivial_key = None;
        }
        rep
    }
}
