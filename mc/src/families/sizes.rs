//! sizes: every construct that has a *count* - variants, arms, fields, components, parameters,
//! captures, instances, shadowings, elements, operands, impls, nesting levels, repeated calls - scaled
//! from 1 to N (quick 12, thorough 24 plus 33 and 65), each position of the construct exercised in the
//! same program. The expected output is computed by the generator from the construct's definition, so
//! nothing that behaves differently at the 3rd / 10th / 17th element than at the first two stays
//! behind the bound of the two- and three-element alphabets of the other families.

use crate::drive::*;
use crate::families::common::*;
use crate::oracle::*;
use serde_json::{Value, json};
use std::fmt::Write;

pub struct Sizes;

pub const CONSTRUCTS: &[(&str, &str)] = &[
    ("enum-match", "C06"),
    ("enum-match-rev", "C06"),
    ("enum-match-wild", "C06"),
    ("int-match", "C06"),
    ("int-match-u8", "C06"),
    ("string-match", "C06"),
    ("tuple-row-match", "C06"),
    ("list-depth-match", "C06"),
    ("variant-payload", "C06"),
    ("struct-fields", "C01"),
    ("struct-pattern", "C06"),
    ("struct-derive", "C18"),
    ("enum-derive", "C18"),
    ("tuple-proj", "C01"),
    ("tuple-pattern", "C06"),
    ("params-order", "C09"),
    ("and-chain", "C09"),
    ("or-chain", "C09"),
    ("else-if", "C09"),
    ("concat-order", "C09"),
    ("array-lit", "C01"),
    ("vec-push", "C01"),
    ("captures", "C08"),
    ("closures-each", "C08"),
    ("closure-params", "C08"),
    ("curried", "C08"),
    ("counter-calls", "C08"),
    ("shadow-seq", "C05"),
    ("shadow-nest", "C05"),
    ("arm-binders", "C05"),
    ("instances", "C07"),
    ("box-instances", "C07"),
    ("type-params", "C07"),
    ("bound-instances", "C07"),
    ("impls-dyn", "C17"),
    ("trait-methods", "C17"),
    ("inherent-methods", "C17"),
    ("wrap-arith", "C10"),
    ("nested-calls", "C01"),
    ("locals-live", "C01"),
];

fn p(s: &mut String, e: &str) {
    let _ = writeln!(s, "    string_println({});", e);
}

/// a pool of distinct printable types: (type text, a value, how to render an expression `x` of it, the rendering of the value)
fn ty_pool(k: usize) -> (String, String, String, String) {
    // base kinds cycle; nesting grows with k / 8
    let base = k % 8;
    let lvl = k / 8;
    let (t, v, show, out): (String, String, String, String) = match base {
        0 => ("int32".into(), format!("{}", 100 + k), "int32_to_string(@)".into(), format!("{}", 100 + k)),
        1 => ("string".into(), format!("\"s{}\"", k), "@".into(), format!("s{}", k)),
        2 => ("bool".into(), (if k % 16 == 2 { "true" } else { "false" }).into(), "bool_to_string(@)".into(), (if k % 16 == 2 { "true" } else { "false" }).into()),
        3 => ("int8".into(), format!("{}i8", (k % 100) as i32), "int8_to_string(@)".into(), format!("{}", k % 100)),
        4 => ("uint16".into(), format!("{}u16", 1000 + k), "uint16_to_string(@)".into(), format!("{}", 1000 + k)),
        5 => ("int64".into(), format!("{}i64", 5_000_000_000i64 + k as i64), "int64_to_string(@)".into(), format!("{}", 5_000_000_000i64 + k as i64)),
        6 => ("uint8".into(), format!("{}u8", 200 + (k % 50)), "uint8_to_string(@)".into(), format!("{}", 200 + (k % 50))),
        _ => ("uint32".into(), format!("{}u32", 4_000_000_000u64 + k as u64), "uint32_to_string(@)".into(), format!("{}", 4_000_000_000u64 + k as u64)),
    };
    match lvl {
        0 => (t, v, show, out),
        1 => (format!("({}, int32)", t), format!("({}, {})", v, k), format!("{} + \"/\" + int32_to_string(@.1)", show.replace('@', "@.0")), format!("{}/{}", out, k)),
        2 => (format!("(string, {})", t), format!("(\"q{}\", {})", k, v), format!("@.0 + \"/\" + {}", show.replace('@', "@.1")), format!("q{}/{}", k, out)),
        _ => (format!("(({}, bool), string)", t), format!("(({}, true), \"z{}\")", v, k), format!("{} + \"/\" + @.1", show.replace('@', "@.0.0")), format!("{}/z{}", out, k)),
    }
}

/// the program and its expected output for (construct, n)
pub fn program(c: &str, n: usize) -> Option<(String, String)> {
    let mut s = String::new();
    let mut w = String::new();
    let range = 0..n;
    match c {
        "enum-match" | "enum-match-rev" | "enum-match-wild" => {
            s.push_str("enum E {\n");
            for k in range.clone() {
                match k % 3 {
                    0 => { let _ = writeln!(s, "    V{},", k); }
                    1 => { let _ = writeln!(s, "    V{}(int32),", k); }
                    _ => { let _ = writeln!(s, "    V{}(int32, string),", k); }
                }
            }
            s.push_str("}\n\nfn f(e: E) -> string {\n    match e {\n");
            let explicit: Vec<usize> = match c {
                "enum-match" => range.clone().collect(),
                "enum-match-rev" => range.clone().rev().collect(),
                _ => range.clone().filter(|k| k % 2 == 1).collect(),
            };
            for k in &explicit {
                match k % 3 {
                    0 => { let _ = writeln!(s, "        E::V{k} => \"v{k}\",", k = k); }
                    1 => { let _ = writeln!(s, "        E::V{k}(a) => \"v{k}:\" + int32_to_string(a),", k = k); }
                    _ => { let _ = writeln!(s, "        E::V{k}(a, b) => \"v{k}:\" + int32_to_string(a) + b,", k = k); }
                }
            }
            if c == "enum-match-wild" {
                s.push_str("        _ => \"w\",\n");
            }
            s.push_str("    }\n}\n\nfn main() {\n");
            for k in range.clone() {
                let (arg, out) = match k % 3 {
                    0 => (format!("E::V{}", k), format!("v{}", k)),
                    1 => (format!("E::V{}({})", k, 10 + k), format!("v{}:{}", k, 10 + k)),
                    _ => (format!("E::V{}({}, \"s{}\")", k, 10 + k, k), format!("v{}:{}s{}", k, 10 + k, k)),
                };
                p(&mut s, &format!("f({})", arg));
                if explicit.contains(&k) { let _ = writeln!(w, "{}", out); } else { w.push_str("w\n"); }
            }
            s.push_str("}\n");
        }
        "int-match" | "int-match-u8" => {
            let (ty, suf, step) = if c == "int-match" { ("int32", "", 7usize) } else { ("uint8", "u8", 3usize) };
            if c == "int-match-u8" && n * step + 1 > 255 { return None; }
            let _ = writeln!(s, "fn f(x: {}) -> string {{\n    match x {{", ty);
            for k in range.clone() {
                let _ = writeln!(s, "        {}{} => \"a{}\",", k * step, suf, k);
            }
            s.push_str("        _ => \"w\",\n    }\n}\n\nfn main() {\n");
            for k in range.clone() {
                p(&mut s, &format!("f({}{})", k * step, suf));
                let _ = writeln!(w, "a{}", k);
                p(&mut s, &format!("f({}{})", k * step + 1, suf));
                w.push_str("w\n");
            }
            s.push_str("}\n");
        }
        "string-match" => {
            s.push_str("fn f(x: string) -> string {\n    match x {\n");
            for k in range.clone() {
                let _ = writeln!(s, "        \"k{}\" => \"a{}\",", k, k);
            }
            s.push_str("        _ => \"w\",\n    }\n}\n\nfn main() {\n");
            for k in range.clone() {
                p(&mut s, &format!("f(\"k{}\")", k));
                let _ = writeln!(w, "a{}", k);
            }
            p(&mut s, &format!("f(\"k{}\")", n));
            w.push_str("w\n");
            p(&mut s, "f(\"k\")");
            w.push_str("w\n");
            s.push_str("}\n");
        }
        "tuple-row-match" => {
            // n rows over a pair (int32, bool): row k matches (k, k odd); then (x, true), (x, false)
            s.push_str("fn f(t: (int32, bool)) -> string {\n    match t {\n");
            for k in range.clone() {
                let _ = writeln!(s, "        ({}, {}) => \"r{}\",", k, k % 2 == 1, k);
            }
            s.push_str("        (x, true) => \"t\" + int32_to_string(x),\n        (x, false) => \"f\" + int32_to_string(x),\n    }\n}\n\nfn main() {\n");
            for k in 0..=n {
                for b in [false, true] {
                    p(&mut s, &format!("f(({}, {}))", k, b));
                    if k < n && (k % 2 == 1) == b { let _ = writeln!(w, "r{}", k); } else { let _ = writeln!(w, "{}{}", if b { "t" } else { "f" }, k); }
                }
            }
            s.push_str("}\n");
        }
        "list-depth-match" => {
            // patterns of depth 0..n over a list; first match wins from the deepest
            s.push_str("enum L {\n    Nil,\n    Cons(int32, L),\n}\n\nfn f(l: L) -> string {\n    match l {\n");
            for d in (1..=n).rev() {
                let mut pat = String::from("rest");
                for k in (0..d).rev() { pat = format!("L::Cons(a{}, {})", k, pat); }
                let sum = (0..d).map(|k| format!("a{}", k)).collect::<Vec<_>>().join(" + ");
                let _ = writeln!(s, "        {} => \"d{}:\" + int32_to_string({}) + g(rest),", pat, d, sum);
            }
            s.push_str("        L::Cons(a, L::Nil) => \"one\" + int32_to_string(a),\n        L::Cons(a, r) => \"more\",\n        L::Nil => \"nil\",\n    }\n}\n\nfn g(l: L) -> string {\n    match l {\n        L::Nil => \".\",\n        L::Cons(a, r) => \"+\",\n    }\n}\n\nfn main() {\n");
            for len in 0..=n + 1 {
                let mut v = String::from("L::Nil");
                for k in (0..len).rev() { v = format!("L::Cons({}, {})", k + 1, v); }
                p(&mut s, &format!("f({})", v));
                if len == 0 { w.push_str("nil\n"); }
                else {
                    let d = len.min(n);
                    let sum: usize = (1..=d).sum();
                    let _ = writeln!(w, "d{}:{}{}", d, sum, if len > d { "+" } else { "." });
                }
            }
            s.push_str("}\n");
        }
        "variant-payload" => {
            let fields: Vec<String> = range.clone().map(|k| if k % 2 == 0 { "int32".to_string() } else { "string".to_string() }).collect();
            let _ = writeln!(s, "enum E {{\n    A({}),\n    B,\n}}\n", fields.join(", "));
            let binders: Vec<String> = range.clone().map(|k| format!("x{}", k)).collect();
            let shown: Vec<String> = range.clone().rev().map(|k| if k % 2 == 0 { format!("int32_to_string(x{})", k) } else { format!("x{}", k) }).collect();
            let _ = writeln!(s, "fn f(e: E) -> string {{\n    match e {{\n        E::A({}) => {},\n        E::B => \"b\",\n    }}\n}}\n\nfn main() {{", binders.join(", "), shown.join(" + \",\" + "));
            let args: Vec<String> = range.clone().map(|k| if k % 2 == 0 { format!("{}", k * 3) } else { format!("\"p{}\"", k) }).collect();
            p(&mut s, &format!("f(E::A({}))", args.join(", ")));
            let outs: Vec<String> = range.clone().rev().map(|k| if k % 2 == 0 { format!("{}", k * 3) } else { format!("p{}", k) }).collect();
            let _ = writeln!(w, "{}", outs.join(","));
            p(&mut s, "f(E::B)");
            w.push_str("b\n");
            s.push_str("}\n");
        }
        "struct-fields" | "struct-pattern" | "struct-derive" => {
            if c == "struct-derive" { s.push_str("#[derive(ToString, ToJson)]\n"); }
            s.push_str("struct S {\n");
            for k in range.clone() {
                let t = match k % 3 { 0 => "int32", 1 => "string", _ => "bool" };
                let _ = writeln!(s, "    f{}: {},", k, t);
            }
            s.push_str("}\n\nfn main() {\n");
            let val = |k: usize| match k % 3 { 0 => format!("{}", k * 11), 1 => format!("\"t{}\"", k), _ => (if k % 2 == 0 { "true" } else { "false" }).to_string() };
            let out = |k: usize| match k % 3 { 0 => format!("{}", k * 11), 1 => format!("t{}", k), _ => (if k % 2 == 0 { "true" } else { "false" }).to_string() };
            let show = |k: usize, e: &str| match k % 3 { 0 => format!("int32_to_string({})", e), 1 => e.to_string(), _ => format!("bool_to_string({})", e) };
            // the literal names the fields in a rotated order (values are constants, so no order of evaluation is observed)
            let lit: Vec<String> = range.clone().map(|i| (i + n / 2) % n).map(|k| format!("f{}: {}", k, val(k))).collect();
            let _ = writeln!(s, "    let v = S {{ {} }};", lit.join(", "));
            match c {
                "struct-fields" => {
                    for k in range.clone() {
                        p(&mut s, &show(k, &format!("v.f{}", k)));
                        let _ = writeln!(w, "{}", out(k));
                    }
                }
                "struct-pattern" => {
                    let pats: Vec<String> = range.clone().rev().map(|k| format!("f{}: b{}", k, k)).collect();
                    let _ = writeln!(s, "    let S {{ {} }} = v;", pats.join(", "));
                    for k in range.clone() {
                        p(&mut s, &show(k, &format!("b{}", k)));
                        let _ = writeln!(w, "{}", out(k));
                    }
                }
                _ => {
                    p(&mut s, "v.to_string()");
                    let fs: Vec<String> = range.clone().map(|k| format!("f{}: {}", k, out(k))).collect();
                    let _ = writeln!(w, "S {{ {} }}", fs.join(", "));
                    p(&mut s, "v.to_json()");
                    let js: Vec<String> = range.clone().map(|k| format!("\"f{}\":{}", k, if k % 3 == 1 { format!("\"{}\"", out(k)) } else { out(k) })).collect();
                    let _ = writeln!(w, "{{{}}}", js.join(","));
                }
            }
            s.push_str("}\n");
        }
        "enum-derive" => {
            s.push_str("#[derive(ToString, ToJson)]\nenum E {\n");
            for k in range.clone() {
                // variant k has k % 4 fields
                let fs: Vec<&str> = (0..k % 4).map(|i| if (i + k) % 2 == 0 { "int32" } else { "string" }).collect();
                if fs.is_empty() { let _ = writeln!(s, "    W{},", k); } else { let _ = writeln!(s, "    W{}({}),", k, fs.join(", ")); }
            }
            s.push_str("}\n\nfn main() {\n");
            for k in range.clone() {
                let args: Vec<String> = (0..k % 4).map(|i| if (i + k) % 2 == 0 { format!("{}", k * 10 + i) } else { format!("\"u{}_{}\"", k, i) }).collect();
                let outs: Vec<String> = (0..k % 4).map(|i| if (i + k) % 2 == 0 { format!("{}", k * 10 + i) } else { format!("u{}_{}", k, i) }).collect();
                let jouts: Vec<String> = (0..k % 4).map(|i| if (i + k) % 2 == 0 { format!("{}", k * 10 + i) } else { format!("\"u{}_{}\"", k, i) }).collect();
                let e = if args.is_empty() { format!("E::W{}", k) } else { format!("E::W{}({})", k, args.join(", ")) };
                p(&mut s, &format!("{}.to_string()", e));
                if outs.is_empty() { let _ = writeln!(w, "E::W{}", k); } else { let _ = writeln!(w, "E::W{}({})", k, outs.join(", ")); }
                p(&mut s, &format!("{}.to_json()", e));
                if outs.is_empty() { let _ = writeln!(w, "{{\"tag\":\"W{}\"}}", k); } else { let _ = writeln!(w, "{{\"tag\":\"W{}\",\"fields\":[{}]}}", k, jouts.join(",")); }
            }
            s.push_str("}\n");
        }
        "tuple-proj" | "tuple-pattern" => {
            if n < 2 { return None; }
            let vals: Vec<String> = range.clone().map(|k| if k % 2 == 0 { format!("{}", k * 5 + 1) } else { format!("\"c{}\"", k) }).collect();
            let tys: Vec<&str> = range.clone().map(|k| if k % 2 == 0 { "int32" } else { "string" }).collect();
            let _ = writeln!(s, "fn mk() -> ({}) {{\n    ({})\n}}\n\nfn main() {{\n    let t: ({}) = mk();", tys.join(", "), vals.join(", "), tys.join(", "));
            if c == "tuple-pattern" {
                let bs: Vec<String> = range.clone().map(|k| format!("y{}", k)).collect();
                let _ = writeln!(s, "    let ({}) = t;", bs.join(", "));
            }
            for k in range.clone().rev() {
                let e = if c == "tuple-proj" { format!("t.{}", k) } else { format!("y{}", k) };
                p(&mut s, &if k % 2 == 0 { format!("int32_to_string({})", e) } else { e });
                let _ = writeln!(w, "{}", if k % 2 == 0 { format!("{}", k * 5 + 1) } else { format!("c{}", k) });
            }
            s.push_str("}\n");
        }
        "params-order" => {
            s.push_str("fn t(k: int32) -> int32 {\n    string_println(\"t\" + int32_to_string(k));\n    k\n}\n\n");
            let ps: Vec<String> = range.clone().map(|k| format!("q{}: int32", k)).collect();
            let sum: Vec<String> = range.clone().map(|k| format!("q{} * {}", k, k + 1)).collect();
            let _ = writeln!(s, "fn f({}) -> int32 {{\n    {}\n}}\n\nfn main() {{", ps.join(", "), sum.join(" + "));
            let args: Vec<String> = range.clone().map(|k| format!("t({})", k + 1)).collect();
            p(&mut s, &format!("int32_to_string(f({}))", args.join(", ")));
            for k in range.clone() { let _ = writeln!(w, "t{}", k + 1); }
            let _ = writeln!(w, "{}", range.clone().map(|k| (k + 1) * (k + 1)).sum::<usize>());
            s.push_str("}\n");
        }
        "and-chain" | "or-chain" => {
            s.push_str("fn t(k: int32, b: bool) -> bool {\n    string_println(\"t\" + int32_to_string(k));\n    b\n}\n\nfn main() {\n");
            let (op, neutral) = if c == "and-chain" { ("&&", true) } else { ("||", false) };
            // for every position j (and none): operand j decides
            for j in 0..=n {
                let ops: Vec<String> = range.clone().map(|k| format!("t({}, {})", k, if k == j { !neutral } else { neutral })).collect();
                p(&mut s, &format!("bool_to_string({})", ops.join(&format!(" {} ", op))));
                for k in 0..n.min(j + 1) { let _ = writeln!(w, "t{}", k); }
                let _ = writeln!(w, "{}", if j < n { !neutral } else { neutral });
            }
            s.push_str("}\n");
        }
        "else-if" => {
            s.push_str("fn t(k: int32, b: bool) -> bool {\n    string_println(\"t\" + int32_to_string(k));\n    b\n}\n\nfn f(x: int32) -> string {\n    ");
            for k in range.clone() {
                let _ = write!(s, "if t({k}, x == {k}) {{ \"b{k}\" }} else ", k = k);
            }
            s.push_str("{ \"e\" }\n}\n\nfn main() {\n");
            for x in 0..=n {
                p(&mut s, &format!("f({})", x));
                for k in 0..n.min(x + 1) { let _ = writeln!(w, "t{}", k); }
                let _ = writeln!(w, "{}", if x < n { format!("b{}", x) } else { "e".to_string() });
            }
            s.push_str("}\n");
        }
        "concat-order" => {
            s.push_str("fn t(k: int32) -> string {\n    string_println(\"t\" + int32_to_string(k));\n    \"<\" + int32_to_string(k) + \">\"\n}\n\nfn main() {\n");
            let ops: Vec<String> = range.clone().map(|k| format!("t({})", k)).collect();
            p(&mut s, &ops.join(" + "));
            for k in range.clone() { let _ = writeln!(w, "t{}", k); }
            let _ = writeln!(w, "{}", range.clone().map(|k| format!("<{}>", k)).collect::<String>());
            s.push_str("}\n");
        }
        "array-lit" => {
            let vals: Vec<String> = range.clone().map(|k| format!("{}", k * k + 1)).collect();
            let _ = writeln!(s, "fn main() {{\n    let a = [{}];", vals.join(", "));
            for k in range.clone().rev() {
                p(&mut s, &format!("int32_to_string(array_get(a, {}))", k));
                let _ = writeln!(w, "{}", k * k + 1);
            }
            let _ = writeln!(s, "    let b = array_set(a, {}, 7777);", n - 1);
            p(&mut s, &format!("int32_to_string(array_get(b, {}))", n - 1));
            w.push_str("7777\n");
            p(&mut s, &format!("int32_to_string(array_get(a, {}))", n - 1));
            let _ = writeln!(w, "{}", (n - 1) * (n - 1) + 1);
            s.push_str("}\n");
        }
        "vec-push" => {
            s.push_str("fn main() {\n    let v0: Vec[string] = vec_new();\n");
            for k in range.clone() {
                let _ = writeln!(s, "    let v{} = vec_push(v{}, \"e{}\");", k + 1, k, k);
            }
            for k in range.clone() {
                p(&mut s, &format!("int32_to_string(vec_len(v{})) + vec_get(v{}, {})", k + 1, n, k));
                let _ = writeln!(w, "{}e{}", k + 1, k);
            }
            s.push_str("}\n");
        }
        "captures" => {
            s.push_str("fn main() {\n");
            for k in range.clone() {
                if k % 2 == 0 { let _ = writeln!(s, "    let c{} = {};", k, k + 1); } else { let _ = writeln!(s, "    let c{} = \"m{}\";", k, k); }
            }
            let parts: Vec<String> = range.clone().map(|k| if k % 2 == 0 { format!("int32_to_string(c{} + z)", k) } else { format!("c{}", k) }).collect();
            let _ = writeln!(s, "    let f = |z: int32| {};", parts.join(" + \",\" + "));
            for z in [0usize, 100] {
                p(&mut s, &format!("f({})", z));
                let outs: Vec<String> = range.clone().map(|k| if k % 2 == 0 { format!("{}", k + 1 + z) } else { format!("m{}", k) }).collect();
                let _ = writeln!(w, "{}", outs.join(","));
            }
            s.push_str("}\n");
        }
        "closures-each" => {
            // n closures, closure k captures local k (and local 0); all are called twice, in both orders
            s.push_str("fn main() {\n");
            for k in range.clone() { let _ = writeln!(s, "    let c{} = {};", k, 10 * (k + 1)); }
            for k in range.clone() { let _ = writeln!(s, "    let g{k} = |z: int32| c{k} + c0 + z;", k = k); }
            for k in range.clone() { p(&mut s, &format!("int32_to_string(g{}(1))", k)); let _ = writeln!(w, "{}", 10 * (k + 1) + 10 + 1); }
            for k in range.clone().rev() { p(&mut s, &format!("int32_to_string(g{}(2))", k)); let _ = writeln!(w, "{}", 10 * (k + 1) + 10 + 2); }
            s.push_str("}\n");
        }
        "closure-params" => {
            let ps: Vec<String> = range.clone().map(|k| if k % 2 == 0 { format!("a{}: int32", k) } else { format!("a{}: string", k) }).collect();
            let body: Vec<String> = range.clone().rev().map(|k| if k % 2 == 0 { format!("int32_to_string(a{})", k) } else { format!("a{}", k) }).collect();
            let _ = writeln!(s, "fn main() {{\n    let f = |{}| {};", ps.join(", "), body.join(" + \",\" + "));
            let args: Vec<String> = range.clone().map(|k| if k % 2 == 0 { format!("{}", k + 40) } else { format!("\"n{}\"", k) }).collect();
            p(&mut s, &format!("f({})", args.join(", ")));
            let outs: Vec<String> = range.clone().rev().map(|k| if k % 2 == 0 { format!("{}", k + 40) } else { format!("n{}", k) }).collect();
            let _ = writeln!(w, "{}", outs.join(","));
            s.push_str("}\n");
        }
        "curried" => {
            // |a0| |a1| ... |a(n-1)| a0*1 + a1*2 + ... : every level captures all outer parameters
            let mut e = range.clone().map(|k| format!("a{} * {}", k, k + 1)).collect::<Vec<_>>().join(" + ");
            for k in range.clone().rev() { e = format!("|a{}: int32| {}", k, e); }
            let _ = writeln!(s, "fn main() {{\n    let f = {};", e);
            let app: String = range.clone().map(|k| format!("({})", k + 2)).collect();
            p(&mut s, &format!("int32_to_string(f{})", app));
            let _ = writeln!(w, "{}", range.clone().map(|k| (k + 2) * (k + 1)).sum::<usize>());
            s.push_str("}\n");
        }
        "counter-calls" => {
            s.push_str("fn make() -> () -> int32 {\n    let c = ref(0);\n    || {\n        ref_set(c, ref_get(c) + 1);\n        ref_get(c)\n    }\n}\n\nfn main() {\n    let a = make();\n    let b = make();\n");
            for k in range.clone() {
                p(&mut s, "int32_to_string(a())");
                let _ = writeln!(w, "{}", k + 1);
                if k % 3 == 2 { p(&mut s, "int32_to_string(b())"); let _ = writeln!(w, "{}", k / 3 + 1); }
            }
            s.push_str("}\n");
        }
        "shadow-seq" => {
            s.push_str("fn main() {\n    let x = 1;\n");
            let mut v = 1usize;
            for k in range.clone() {
                let _ = writeln!(s, "    let x = x * 2 + {};", k % 2);
                v = v * 2 + k % 2;
                v %= 1 << 20;
                if v > (1 << 19) { let _ = writeln!(s, "    let x = x - {};", 1 << 19); v -= 1 << 19; }
                p(&mut s, "int32_to_string(x)");
                let _ = writeln!(w, "{}", v);
            }
            s.push_str("}\n");
        }
        "shadow-nest" => {
            // n nested if-blocks each shadowing x; after each block closes the outer x is printed again
            s.push_str("fn main() {\n    let x = 0;\n");
            for k in range.clone() {
                let ind = "    ".repeat(k + 1);
                let _ = writeln!(s, "{ind}if true {{\n{ind}    let x = x + {};\n{ind}    string_println(int32_to_string(x));", k + 1, ind = ind);
            }
            let mut vals = vec![0usize];
            for k in range.clone() { vals.push(vals[k] + k + 1); let _ = writeln!(w, "{}", vals[k + 1]); }
            for k in range.clone().rev() {
                let ind = "    ".repeat(k + 1);
                let _ = writeln!(s, "{ind}    ()\n{ind}}} else {{ () }};\n{ind}string_println(int32_to_string(x));", ind = ind);
                let _ = writeln!(w, "{}", vals[k]);
            }
            s.push_str("}\n");
        }
        "arm-binders" => {
            // every arm binds the same names to different components
            s.push_str("enum E {\n");
            for k in range.clone() { let _ = writeln!(s, "    K{}(int32, int32),", k); }
            s.push_str("}\n\nfn f(e: E, a: int32) -> string {\n    let r = match e {\n");
            for k in range.clone() {
                if k % 2 == 0 { let _ = writeln!(s, "        E::K{}(a, b) => a * 100 + b,", k); } else { let _ = writeln!(s, "        E::K{}(b, a) => a * 100 + b,", k); }
            }
            s.push_str("    };\n    int32_to_string(r) + \"/\" + int32_to_string(a)\n}\n\nfn main() {\n");
            for k in range.clone() {
                p(&mut s, &format!("f(E::K{}({}, {}), 9)", k, k + 1, k + 2));
                let (a, b) = if k % 2 == 0 { (k + 1, k + 2) } else { (k + 2, k + 1) };
                let _ = writeln!(w, "{}/9", a * 100 + b);
            }
            s.push_str("}\n");
        }
        "instances" | "box-instances" => {
            if c == "instances" {
                s.push_str("fn id[T](x: T) -> T {\n    x\n}\n\nfn twice[T](x: T) -> (T, T) {\n    (x, x)\n}\n\nfn main() {\n");
            } else {
                s.push_str("struct Box[T] {\n    v: T,\n    n: int32,\n}\n\nimpl[T] Box[T] {\n    fn get(self: Box[T]) -> T {\n        self.v\n    }\n    fn tag(self: Box[T]) -> int32 {\n        self.n\n    }\n}\n\nfn main() {\n");
            }
            for k in range.clone() {
                let (t, v, show, out) = ty_pool(k);
                if c == "instances" {
                    let _ = writeln!(s, "    let i{}: {} = id({});", k, t, v);
                    let _ = writeln!(s, "    let p{}: ({}, {}) = twice(i{});", k, t, t, k);
                    let _ = writeln!(s, "    let j{}: {} = p{}.1;", k, t, k);
                    p(&mut s, &show.replace('@', &format!("j{}", k)));
                    let _ = writeln!(w, "{}", out);
                } else {
                    let _ = writeln!(s, "    let b{} = Box {{ v: {}, n: {} }};", k, v, k);
                    let _ = writeln!(s, "    let g{}: {} = b{}.get();", k, t, k);
                    p(&mut s, &format!("{} + \"#\" + int32_to_string(b{}.tag())", show.replace('@', &format!("g{}", k)), k));
                    let _ = writeln!(w, "{}#{}", out, k);
                }
            }
            s.push_str("}\n");
        }
        "type-params" => {
            let gens: Vec<String> = range.clone().map(|k| format!("T{}", k)).collect();
            let ps: Vec<String> = range.clone().map(|k| format!("x{}: T{}", k, k)).collect();
            let mut picks = vec![0, n / 2, n - 1];
            picks.dedup();
            for pick in picks.clone() {
                let _ = writeln!(s, "fn pick{}[{}]({}) -> T{} {{\n    x{}\n}}\n", pick, gens.join(", "), ps.join(", "), pick, pick);
            }
            s.push_str("fn main() {\n");
            let args: Vec<String> = range.clone().map(|k| ty_pool(k).1).collect();
            for pick in picks {
                let (t, _, show, out) = ty_pool(pick);
                let _ = writeln!(s, "    let r{p}: {} = pick{p}({});", t, args.join(", "), p = pick);
                p(&mut s, &show.replace('@', &format!("r{}", pick)));
                let _ = writeln!(w, "{}", out);
            }
            s.push_str("}\n");
        }
        "bound-instances" | "impls-dyn" => {
            s.push_str("trait Show {\n    fn show(Self) -> string;\n}\n\n");
            for k in range.clone() {
                let _ = writeln!(s, "struct S{k} {{\n    v: int32,\n}}\n\nimpl Show for S{k} {{\n    fn show(self: S{k}) -> string {{\n        \"S{k}=\" + int32_to_string(self.v + {k})\n    }}\n}}\n", k = k);
            }
            if c == "bound-instances" {
                s.push_str("fn both[T: Show](x: T, y: T) -> string {\n    Show::show(x) + \"&\" + Show::show(y)\n}\n\nfn main() {\n");
                for k in range.clone() {
                    p(&mut s, &format!("both(S{k} {{ v: 1 }}, S{k} {{ v: 2 }})", k = k));
                    let _ = writeln!(w, "S{k}={}&S{k}={}", 1 + k, 2 + k, k = k);
                }
            } else {
                s.push_str("fn via(d: dyn Show) -> string {\n    Show::show(d)\n}\n\nfn main() {\n");
                for k in range.clone() {
                    let _ = writeln!(s, "    let d{k}: dyn Show = S{k} {{ v: {} }};", 3 * k, k = k);
                }
                for k in range.clone().rev() {
                    p(&mut s, &format!("via(d{})", k));
                    let _ = writeln!(w, "S{}={}", k, 4 * k);
                }
            }
            s.push_str("}\n");
        }
        "trait-methods" | "inherent-methods" => {
            s.push_str("struct P {\n    v: int32,\n}\n\n");
            if c == "trait-methods" {
                s.push_str("trait M {\n");
                for k in range.clone() { let _ = writeln!(s, "    fn m{}(Self, int32) -> int32;", k); }
                s.push_str("}\n\nimpl M for P {\n");
            } else {
                s.push_str("impl P {\n");
            }
            for k in range.clone() { let _ = writeln!(s, "    fn m{k}(self: P, a: int32) -> int32 {{\n        self.v * {} + a\n    }}", k + 2, k = k); }
            s.push_str("}\n\n");
            if c == "trait-methods" {
                s.push_str("fn all[T: M](x: T, y: T) -> int32 {\n    M::m0(x, 0) + y.m0(1000)\n}\n\n");
            }
            s.push_str("fn main() {\n    let q = P { v: 3 };\n");
            for k in range.clone() {
                if c == "trait-methods" {
                    p(&mut s, &format!("int32_to_string(M::m{k}(q, {k}))", k = k));
                } else if k % 2 == 0 {
                    p(&mut s, &format!("int32_to_string(q.m{k}({k}))", k = k));
                } else {
                    p(&mut s, &format!("int32_to_string(P::m{k}(q, {k}))", k = k));
                }
                let _ = writeln!(w, "{}", 3 * (k + 2) + k);
            }
            if c == "trait-methods" {
                p(&mut s, "int32_to_string(all(q, P { v: 5 }))");
                let _ = writeln!(w, "{}", 6 + 10 + 1000);
            }
            s.push_str("}\n");
        }
        "wrap-arith" => {
            // repeated doubling crosses every width's boundary at a different step
            s.push_str("fn main() {\n    let a = 3i8;\n    let b = 3u8;\n    let c = 3i16;\n    let d = 3;\n");
            let (mut a, mut b, mut cc, mut d) = (3i8, 3u8, 3i16, 3i32);
            for k in range.clone() {
                let _ = writeln!(s, "    let a = a * 3i8 + {}i8;\n    let b = b * 3u8 + {}u8;\n    let c = c * 3i16 + {}i16;\n    let d = d * 3 + {};", k % 5, k % 5, k % 5, k % 5);
                a = a.wrapping_mul(3).wrapping_add((k % 5) as i8);
                b = b.wrapping_mul(3).wrapping_add((k % 5) as u8);
                cc = cc.wrapping_mul(3).wrapping_add((k % 5) as i16);
                d = d.wrapping_mul(3).wrapping_add((k % 5) as i32);
                p(&mut s, "int8_to_string(a) + \" \" + uint8_to_string(b) + \" \" + int16_to_string(c) + \" \" + int32_to_string(d)");
                let _ = writeln!(w, "{} {} {} {}", a, b, cc, d);
            }
            s.push_str("}\n");
        }
        "nested-calls" => {
            s.push_str("fn h(x: int32, k: int32) -> int32 {\n    string_println(\"h\" + int32_to_string(k));\n    x * 2 + k\n}\n\nfn main() {\n");
            let mut e = String::from("1");
            let mut v = 1usize;
            for k in range.clone() { e = format!("h({}, {})", e, k % 3); v = v * 2 + k % 3; v %= 1 << 24; if v >= 1 << 23 { return None; } }
            p(&mut s, &format!("int32_to_string({})", e));
            for k in range.clone() { let _ = writeln!(w, "h{}", k % 3); }
            let _ = writeln!(w, "{}", v);
            s.push_str("}\n");
        }
        "locals-live" => {
            s.push_str("fn u(k: int32) -> int32 {\n    k + 1\n}\n\nfn main() {\n");
            for k in range.clone() { let _ = writeln!(s, "    let l{} = u({});", k, k * 2); }
            // used in reverse order, all alive until here
            let sum: Vec<String> = range.clone().rev().map(|k| format!("l{} * {}", k, k + 1)).collect();
            p(&mut s, &format!("int32_to_string({})", sum.join(" - ")));
            let mut it = range.clone().rev().map(|k| ((k * 2 + 1) * (k + 1)) as i64);
            let first = it.next().unwrap();
            let _ = writeln!(w, "{}", it.fold(first, |acc, x| acc - x));
            for k in range.clone() { p(&mut s, &format!("int32_to_string(l{})", k)); let _ = writeln!(w, "{}", k * 2 + 1); }
            s.push_str("}\n");
        }
        _ => return None,
    }
    Some((s, w))
}

fn sizes_of(tier: Tier) -> Vec<usize> {
    if tier == Tier::Quick { (1..=12).collect() } else { (1..=24).chain([33, 65]).collect() }
}

impl Family for Sizes {
    fn name(&self) -> &'static str {
        "sizes"
    }
    fn serves(&self) -> &'static [&'static str] {
        &["C01", "C02", "C04", "C05", "C06", "C07", "C08", "C09", "C10", "C17", "C18"]
    }
    fn rule(&self) -> &'static str {
        "40 constructs that have a count (variants / arms in three orders, integer / string / tuple-row / list-depth patterns, payload and struct fields, derived ToString+ToJson of n fields / n variants, tuple components by projection and by pattern, parameters, && / || / else-if / + chains deciding at every position, array and vector elements, captured locals, n closures, closure parameters, curried levels, repeated calls of a stateful closure, sequential and nested shadowing, arms rebinding the same names, instances of a generic function / struct / bounded function at n distinct types, n type parameters, n impls behind dyn, n trait / inherent methods, wrap-around after n steps in four widths, nested calls, live locals) x n = 1..12 (thorough 1..24, 33, 65), every position of the construct exercised in the program; oracle: output computed by the generator from the construct's definition; non-trivial = n >= 3; distinct = distinct source text"
    }
    fn cases(&self, tier: Tier) -> Box<dyn Iterator<Item = Value> + '_> {
        let mut v = Vec::new();
        for (c, prop) in CONSTRUCTS {
            for n in sizes_of(tier) {
                v.push(json!({"construct": c, "n": n, "prop": prop}));
            }
        }
        Box::new(v.into_iter())
    }
    fn run(&self, case: &Value, ctx: &mut Ctx) -> Report {
        // deep operand chains nest deeply in the emitted Go; the Go model recurses on them
        std::thread::scope(|sc| std::thread::Builder::new().stack_size(1 << 30).spawn_scoped(sc, || run_case(case, ctx)).expect("spawn").join().expect("sizes case thread"))
    }
}

fn run_case(case: &Value, ctx: &mut Ctx) -> Report {
    {
        let mut rep = Report::default();
        let c = case["construct"].as_str().unwrap();
        let n = case["n"].as_u64().unwrap() as usize;
        let prop: &'static str = CONSTRUCTS.iter().find(|(k, _)| *k == c).map(|(_, p)| *p).unwrap_or("C01");
        rep.sub_evaluations = 1;
        rep.outcome = Some(format!("{}:{}", c, n));
        let Some((text, want)) = program(c, n) else {
            rep.tag("inapplicable:size-outside-the-construct");
            return rep;
        };
        if n >= 3 {
            rep.more_keys.push(fnv(&text));
        }
        let site = format!("construct={};n={}", c, n);
        let replay = json!({"kind": "differential", "family": "sizes", "case": case, "source": text, "expected": {"stdout": want, "end": "ok"}});
        let path = ctx.scratch.single_path();
        let comp = match compile_at(&path, &text) {
            CompileOutcome::Ok(c) => c,
            CompileOutcome::Panic(m) => {
                rep.findings.push(Finding { property: "C04", class: "compile.panic".into(), site: format!("{};msg={}", site, normalise_msg(&m)), detail: m, replay });
                return rep;
            }
            CompileOutcome::Err(e) => {
                let (stage, msg) = describe_err(&e);
                rep.tag(format!("rejected:{}", stage));
                rep.findings.push(Finding { property: prop, class: format!("compile.rejected.{}", stage), site: format!("{};msg={}", site, normalise_msg(&msg)), detail: msg, replay });
                return rep;
            }
        };
        let go = go_text(&comp).unwrap_or_default();
        drop(comp);
        match crate::projects::run_go(&go, FUEL * 4) {
            Ok(o) => {
                if lossy(&o.stdout) == want && o.end == NEnd::Ok {
                    rep.tag("agree");
                } else {
                    rep.tag("disagree");
                    let class = format!("size.{}", classify_stdout(want.as_bytes(), &o.stdout));
                    let f = |property: &'static str| Finding {
                        property,
                        class: class.clone(),
                        site: site.clone(),
                        detail: format!("expected {:?} got {:?}/{}", want, lossy(&o.stdout), end_tag(&o.end)),
                        replay: json!({"kind": "differential", "family": "sizes", "case": case, "source": text, "expected": {"stdout": want, "end": "ok"}, "observed": {"stdout": lossy(&o.stdout), "end": end_tag(&o.end), "go_text": go}}),
                    };
                    rep.findings.push(f(prop));
                    if prop != "C01" {
                        rep.findings.push(f("C01"));
                    }
                }
            }
            Err(m) if m.starts_with("machinery") => rep.tag("machinery:go-unsupported"),
            Err(m) => rep.findings.push(Finding { property: "C02", class: m.split(':').next().unwrap_or("go").to_string(), site: format!("{};goerr={}", site, normalise_msg(&m)), detail: m, replay }),
        }
        rep.sample = Some(json!({"construct": c, "n": n, "source": text}));
        rep
    }
}

fn fnv(s: &str) -> u64 {
    let mut h: u64 = 0xcbf29ce484222325;
    for b in s.as_bytes() {
        h ^= *b as u64;
        h = h.wrapping_mul(0x100000001b3);
    }
    h
}
