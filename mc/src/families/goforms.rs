//! C09 (schedules, generated): every way of writing a `go` (7 forms of the spawned value) in every
//! place a statement can stand (7 places) with every goroutine body of at most 2 operations and every
//! continuation of the spawner of at most 2 operations over two shared cells. Each program is explored
//! under ALL schedules (preemption-bounded in quick) on both sides - the emitted Go under the Go
//! interpreter, the reference semantics - and the sets of terminal observations must be equal:
//! one activation per executed `go` (a body run twice or never prints an outcome the reference cannot),
//! the spawner continues (outcomes in which the spawner's continuation precedes the body exist on both
//! sides or on neither), captured cells are shared, captured values are those of the creation.

use crate::drive::*;
use crate::families::schedules::explore_program;
use crate::ug::ast::*;
use crate::ug::build::*;
use serde_json::{Value, json};

/// operations of a goroutine body / of the spawner's continuation
const OPS: [&str; 6] = ["print", "read", "write1", "inc", "done", "wait"];
pub const FORMS: [&str; 7] = ["literal", "let-bound", "made-by-call", "if-joined", "struct-field", "vec-element", "calls-worker"];
pub const PLACES: [&str; 7] = ["main", "if-branch", "while-twice", "callee", "called-closure", "match-arm", "nested-go"];

fn rget(r: VarId) -> E {
    bi("ref_get", vec![v(r)])
}
fn rset(r: VarId, e: E) -> E {
    bi("ref_set", vec![v(r), e])
}
fn unit_fn() -> Ty {
    Ty::Fn(vec![], Box::new(Ty::Unit))
}
fn refi() -> Ty {
    Ty::Ref(Box::new(Ty::i32()))
}

fn op(o: &str, tag: &str, r: VarId, d: VarId, k: VarId) -> Stmt {
    match o {
        // a plain local captured by value
        "local" => st(println(add(s(tag), add(s("k"), i2s(v(k)))))),
        "print" => st(println(s(tag))),
        "read" => st(println(add(s(tag), i2s(rget(r))))),
        "write1" => st(rset(r, int(1))),
        "inc" => st(rset(r, add(rget(r), int(1)))),
        "done" => st(rset(d, add(rget(d), int(1)))),
        _ => st(E::While(Box::new(bin(BinOp::Lt, rget(d), int(1))), Box::new(block(vec![], Some(E::Unit))))),
    }
}

fn seqs(alphabet: &[&'static str], min: usize, max: usize) -> Vec<Vec<&'static str>> {
    let mut out: Vec<Vec<&'static str>> = Vec::new();
    let mut level: Vec<Vec<&'static str>> = vec![vec![]];
    for len in 0..=max {
        if len >= min {
            out.extend(level.iter().cloned());
        }
        let mut next = Vec::new();
        for s in &level {
            for a in alphabet {
                let mut t = s.clone();
                t.push(*a);
                next.push(t);
            }
        }
        level = next;
    }
    out
}

pub fn bodies() -> Vec<Vec<&'static str>> {
    seqs(&["print", "read", "write1", "inc", "done", "local"], 1, 2)
}
pub fn tails() -> Vec<Vec<&'static str>> {
    seqs(&["print", "read", "inc", "wait", "shadow"], 0, 2)
}

pub fn build(form: &str, place: &str, body: &[&str], tail: &[&str]) -> Program {
    let mut n = Names::new();
    let mut items: Vec<Item> = Vec::new();
    let r = n.fresh("r");
    let d = n.fresh("d");
    let k = n.fresh("k");
    let mut b: Vec<Stmt> = vec![let_(r, bi("ref", vec![int(0)])), let_(d, bi("ref", vec![int(0)])), let_(k, int(5))];
    // the goroutine's body over the cells (rr, dd) visible where the closure is written
    // (a function of its own - `mk`, `worker`, `spawner` - gets the local as a parameter named alike)
    let body_block_k = |rr: VarId, dd: VarId, kk: VarId| block(body.iter().map(|o| op(o, "g", rr, dd, kk)).collect(), None);
    let body_block = |rr: VarId, dd: VarId| body_block_k(rr, dd, k);
    // statements that spawn, written where (rr, dd) name the cells
    let spawn = |n: &mut Names, items: &mut Vec<Item>, rr: VarId, dd: VarId, kk: VarId| -> Vec<Stmt> {
        match form {
            "literal" => vec![st(E::Go(Box::new(E::Closure(vec![], Box::new(body_block_k(rr, dd, kk))))))],
            "let-bound" => {
                let f = n.fresh("f");
                vec![let_(f, E::Closure(vec![], Box::new(body_block_k(rr, dd, kk)))), st(E::Go(Box::new(v(f))))]
            }
            "made-by-call" => {
                if !items.iter().any(|i| matches!(i, Item::Fn(f) if f.name == "mk")) {
                    let (pr, pd, pk) = (n.fresh("pr"), n.fresh("pd"), n.fresh("pk"));
                    items.push(fn_def("mk", vec![(pr, refi()), (pd, refi()), (pk, Ty::i32())], Some(unit_fn()), block(vec![], Some(E::Closure(vec![], Box::new(body_block_k(pr, pd, pk)))))));
                }
                vec![st(E::Go(Box::new(call("mk", vec![v(rr), v(dd), v(kk)]))))]
            }
            "if-joined" => {
                let (f, g, c) = (n.fresh("f"), n.fresh("g"), n.fresh("c"));
                vec![
                    let_(c, bin(BinOp::Lt, rget(dd), int(100))),
                    let_(f, E::Closure(vec![], Box::new(body_block_k(rr, dd, kk)))),
                    let_(g, E::Closure(vec![], Box::new(block(vec![st(println(s("other")))], None)))),
                    st(E::Go(Box::new(E::Paren(Box::new(if_(v(c), block(vec![], Some(v(f))), block(vec![], Some(v(g))))))))),
                ]
            }
            "struct-field" => {
                if !items.iter().any(|i| matches!(i, Item::Struct(_))) {
                    items.push(Item::Struct(StructDef { name: "Holder".into(), generics: vec![], fields: vec![("tag".into(), Ty::i32()), ("run".into(), unit_fn())], derives: vec![] }));
                }
                let h = n.fresh("h");
                vec![
                    let_(h, E::StructLit("Holder".into(), vec![("tag".into(), int(7)), ("run".into(), E::Closure(vec![], Box::new(body_block_k(rr, dd, kk))))], vec![])),
                    st(E::Go(Box::new(E::Field(Box::new(v(h)), "run".into())))),
                ]
            }
            "vec-element" => {
                let fs = n.fresh("fs");
                vec![
                    let_t(fs, Ty::Vec(Box::new(unit_fn())), bi("vec_push", vec![bi("vec_new", vec![]), E::Closure(vec![], Box::new(body_block_k(rr, dd, kk)))])),
                    st(E::Go(Box::new(bi("vec_get", vec![v(fs), int(0)])))),
                ]
            }
            _ => {
                if !items.iter().any(|i| matches!(i, Item::Fn(f) if f.name == "worker")) {
                    let (pr, pd, pk) = (n.fresh("wr"), n.fresh("wd"), n.fresh("wk"));
                    items.push(fn_def("worker", vec![(pr, refi()), (pd, refi()), (pk, Ty::i32())], Some(Ty::Unit), body_block_k(pr, pd, pk)));
                }
                vec![st(E::Go(Box::new(E::Closure(vec![], Box::new(call("worker", vec![v(rr), v(dd), v(kk)]))))))]
            }
        }
    };
    match place {
        "main" => b.extend(spawn(&mut n, &mut items, r, d, k)),
        "if-branch" => {
            let mut inner = spawn(&mut n, &mut items, r, d, k);
            inner.push(st(println(s("then"))));
            b.push(st(if_(bin(BinOp::Eq, rget(d), int(0)), block(inner, None), block(vec![st(println(s("else")))], None))));
        }
        "while-twice" => {
            let i = n.fresh("i");
            b.push(let_(i, bi("ref", vec![int(0)])));
            let mut inner = spawn(&mut n, &mut items, r, d, k);
            inner.push(st(rset(i, add(rget(i), int(1)))));
            b.push(st(E::While(Box::new(bin(BinOp::Lt, rget(i), int(2))), Box::new(block(inner, None)))));
        }
        "callee" => {
            let (pr, pd, pk) = (n.fresh("sr"), n.fresh("sd"), n.fresh("sk"));
            let mut inner = spawn(&mut n, &mut items, pr, pd, pk);
            inner.push(st(println(s("spawned"))));
            items.push(fn_def("spawner", vec![(pr, refi()), (pd, refi()), (pk, Ty::i32())], Some(Ty::Unit), block(inner, None)));
            b.push(st(call("spawner", vec![v(r), v(d), v(k)])));
        }
        "called-closure" => {
            let sp = n.fresh("sp");
            let inner = spawn(&mut n, &mut items, r, d, k);
            b.push(let_(sp, E::Closure(vec![], Box::new(block(inner, None)))));
            b.push(st(E::Call(Box::new(v(sp)), vec![])));
        }
        "match-arm" => {
            let inner = spawn(&mut n, &mut items, r, d, k);
            b.push(st(E::Match(
                Box::new(rget(d)),
                vec![(Pat::Int(0, IntKind::I32, false), block(inner, None)), (Pat::Wild, block(vec![st(println(s("no")))], None))],
            )));
        }
        _ => {
            let mut inner = spawn(&mut n, &mut items, r, d, k);
            inner.push(st(println(s("outer"))));
            b.push(st(E::Go(Box::new(E::Closure(vec![], Box::new(block(inner, None)))))));
        }
    }
    // the spawner's continuation; `shadow` binds the captured local's spelling again and shows the new one
    let mut cur_k = k;
    for o in tail {
        if *o == "shadow" {
            let k2 = n.fresh_exact("k");
            b.push(let_(k2, add(v(cur_k), int(4))));
            cur_k = k2;
            b.push(op("local", "m", r, d, cur_k));
        } else {
            b.push(op(o, "m", r, d, cur_k));
        }
    }
    items.push(fn_def("main", vec![], Some(Ty::Unit), block(b, None)));
    Program::single(items, n.names.clone())
}

pub struct GoForms;

impl Family for GoForms {
    fn name(&self) -> &'static str {
        "goforms"
    }
    fn serves(&self) -> &'static [&'static str] {
        &["C09"]
    }
    fn level(&self) -> &'static str {
        "model_checking"
    }
    fn case_timeout(&self, _tier: Tier) -> u64 {
        600
    }
    fn rule(&self) -> &'static str {
        "generated `go` programs over two shared cells: 7 forms of the spawned value (closure literal, let-bound closure, closure made by a call, closures joined by an if, struct field, vector element, closure calling a worker function) x 7 places of the `go` (main, if branch, while body run twice = two activations, called function, called closure, match arm, inside another goroutine) x goroutine bodies of 1-2 operations over {print, print a read, write, increment, count done, print a captured local} (42) x continuations of the spawner of 0-2 operations over {print, print a read, increment, spin-wait, bind the captured local's spelling again and print it} (31). quick: every form x place with 8 bodies x 6 continuations, plus literal-in-main with every body and continuation; thorough: the whole product (30870). Every program: stateless DFS over every schedule of the emitted Go and of the reference semantics, yielding at every cell operation, print, spawn and loop back-edge (quick: preemption bound 2; thorough: bounds 2, 3, unbounded in turn, each capped at 4000 schedules per side; the largest completed bound decides and is reported per program); oracle: equal sets of terminal observations (stdout, end). states = scheduling points visited, transitions = schedules executed; non-trivial = programs with > 1 distinct outcome"
    }
    fn cases(&self, tier: Tier) -> Box<dyn Iterator<Item = Value> + '_> {
        let (bs, ts) = (bodies(), tails());
        let mut v: Vec<Value> = Vec::new();
        let js = |x: &Vec<&'static str>| x.iter().map(|s| s.to_string()).collect::<Vec<_>>();
        if tier == Tier::Thorough {
            for f in FORMS {
                for p in PLACES {
                    for b in &bs {
                        for t in &ts {
                            v.push(json!({"form": f, "place": p, "body": js(b), "tail": js(t)}));
                        }
                    }
                }
            }
        } else {
            let qb: Vec<Vec<&'static str>> = vec![vec!["print"], vec!["read", "done"], vec!["inc", "done"], vec!["write1", "read"], vec!["done", "print"], vec!["inc", "inc"], vec!["local"], vec!["local", "done"]];
            let qt: Vec<Vec<&'static str>> = vec![vec![], vec!["read"], vec!["wait", "read"], vec!["inc", "read"], vec!["print", "wait"], vec!["shadow"]];
            for f in FORMS {
                for p in PLACES {
                    for b in &qb {
                        for t in &qt {
                            v.push(json!({"form": f, "place": p, "body": js(b), "tail": js(t)}));
                        }
                    }
                }
            }
            for b in &bs {
                for t in &ts {
                    v.push(json!({"form": "literal", "place": "main", "body": js(b), "tail": js(t)}));
                }
            }
        }
        let _ = OPS;
        Box::new(v.into_iter())
    }
    fn run(&self, case: &Value, ctx: &mut Ctx) -> Report {
        let strs = |k: &str| -> Vec<String> { case[k].as_array().map(|a| a.iter().map(|x| x.as_str().unwrap_or("").to_string()).collect()).unwrap_or_default() };
        let (form, place) = (case["form"].as_str().unwrap_or(""), case["place"].as_str().unwrap_or(""));
        let (body, tail) = (strs("body"), strs("tail"));
        let b: Vec<&str> = body.iter().map(|s| s.as_str()).collect();
        let t: Vec<&str> = tail.iter().map(|s| s.as_str()).collect();
        let prog = build(form, place, &b, &t);
        let name = format!("form={};place={};body={};tail={}", form, place, body.join("+"), tail.join("+"));
        let (cap, bounds): (u64, Vec<Option<u32>>) = if ctx.tier == Tier::Quick { (20_000, vec![Some(2)]) } else { (4_000, vec![Some(2), Some(3), None]) };
        let mut rep = explore_program(&name, &prog, ctx, cap, bounds);
        rep.tag(format!("form:{}", form));
        rep.tag(format!("place:{}", place));
        rep
    }
}
