//! C11: source text is read as written. All expression trees with ≤ N operators rendered with
//! minimal parentheses (from the documented binding-power table), fully parenthesised, and with
//! trivia variants must parse to the same tree; operator skeletons must equal the model tree;
//! literal spellings must denote the written characters.

use crate::drive::*;
use crate::families::common::normalise_msg;
use crate::oracle::panic_message;
use ast::ast as gast;
use serde_json::{Value, json};
use std::panic::{AssertUnwindSafe, catch_unwind};
use std::path::Path;

#[derive(Debug, Clone, PartialEq)]
pub enum T {
    Atom(&'static str),
    Bin(&'static str, Box<T>, Box<T>),
    Un(&'static str, Box<T>),
    Call(Box<T>, Box<T>),
    Field(Box<T>),
    Proj(Box<T>),
    Method(Box<T>, Box<T>),
    Call0(Box<T>),
}

pub const BINOPS: [(&str, u8); 12] =
    [("||", 1), ("&&", 2), ("==", 3), ("!=", 3), ("<", 4), (">", 4), ("<=", 4), (">=", 4), ("+", 5), ("-", 5), ("*", 6), ("/", 6)];
const P_PREFIX: u8 = 7;
const P_POSTFIX: u8 = 8;

fn prec(op: &str) -> u8 {
    BINOPS.iter().find(|(o, _)| *o == op).unwrap().1
}

fn my_prec(t: &T) -> u8 {
    match t {
        T::Atom(_) => 9,
        T::Bin(op, ..) => prec(op),
        T::Un(..) => P_PREFIX,
        _ => P_POSTFIX,
    }
}

/// token list with minimal (or full) parentheses
pub fn toks(t: &T, ctx: u8, full: bool, out: &mut Vec<String>) {
    let p = my_prec(t);
    let need = p < ctx || (full && !matches!(t, T::Atom(_)) && ctx > 0);
    if need {
        out.push("(".into());
    }
    match t {
        T::Atom(a) => out.push(a.to_string()),
        T::Bin(op, l, r) => {
            toks(l, p, full, out);
            out.push(op.to_string());
            toks(r, p + 1, full, out);
        }
        T::Un(op, e) => {
            out.push(op.to_string());
            toks(e, P_PREFIX, full, out);
        }
        T::Call(f, a) => {
            toks(f, P_POSTFIX, full, out);
            out.push("(".into());
            toks(a, 0, full, out);
            out.push(")".into());
        }
        T::Call0(f) => {
            toks(f, P_POSTFIX, full, out);
            out.push("(".into());
            out.push(")".into());
        }
        T::Field(e) => {
            toks(e, P_POSTFIX, full, out);
            out.push(".".into());
            out.push("fld".into());
        }
        T::Proj(e) => {
            toks(e, P_POSTFIX, full, out);
            out.push(".".into());
            out.push("0".into());
        }
        T::Method(e, a) => {
            toks(e, P_POSTFIX, full, out);
            out.push(".".into());
            out.push("mth".into());
            out.push("(".into());
            toks(a, 0, full, out);
            out.push(")".into());
        }
    }
    if need {
        out.push(")".into());
    }
}

/// model tree → S-expression in the vocabulary of `sexpr_ast`
pub fn sexpr_model(t: &T) -> String {
    match t {
        T::Atom(a) => a.to_string(),
        T::Bin(op, l, r) => format!("({} {} {})", op, sexpr_model(l), sexpr_model(r)),
        T::Un(op, e) => format!("({} {})", op, sexpr_model(e)),
        T::Call(f, a) => format!("(call {} {})", sexpr_model(f), sexpr_model(a)),
        T::Call0(f) => format!("(call {} )", sexpr_model(f)),
        T::Field(e) => format!("(field {} fld)", sexpr_model(e)),
        T::Proj(e) => format!("(proj {} 0)", sexpr_model(e)),
        T::Method(e, a) => format!("(call (field {} mth) {})", sexpr_model(e), sexpr_model(a)),
    }
}

fn binop_sym(op: &common_defs::BinaryOp) -> &'static str {
    use common_defs::BinaryOp::*;
    match op {
        Add => "+",
        Sub => "-",
        Mul => "*",
        Div => "/",
        And => "&&",
        Or => "||",
        Less => "<",
        Greater => ">",
        LessEq => "<=",
        GreaterEq => ">=",
        Eq => "==",
        NotEq => "!=",
    }
}

pub fn sexpr_ast(e: &gast::Expr) -> String {
    use gast::Expr::*;
    match e {
        EPath { path, .. } => path.display(),
        EInt { value, .. } => value.clone(),
        EString { value, .. } => format!("{:?}", value),
        EBool { value, .. } => value.to_string(),
        EUnit { .. } => "()".into(),
        EBinary { op, lhs, rhs, .. } => format!("({} {} {})", binop_sym(op), sexpr_ast(lhs), sexpr_ast(rhs)),
        EUnary { op, expr, .. } => format!(
            "({} {})",
            match op {
                common_defs::UnaryOp::Neg => "-",
                common_defs::UnaryOp::Not => "!",
            },
            sexpr_ast(expr)
        ),
        ECall { func, args, .. } => format!("(call {} {})", sexpr_ast(func), args.iter().map(sexpr_ast).collect::<Vec<_>>().join(" ")),
        EField { expr, field, .. } => format!("(field {} {})", sexpr_ast(expr), field.0),
        EProj { tuple, index, .. } => format!("(proj {} {})", sexpr_ast(tuple), index),
        EConstr { constructor, args, .. } => {
            format!("(constr {} {})", constructor.display(), args.iter().map(sexpr_ast).collect::<Vec<_>>().join(" "))
        }
        ETuple { items, .. } => format!("(tuple {})", items.iter().map(sexpr_ast).collect::<Vec<_>>().join(" ")),
        other => format!("<{}>", strip_astptr(&format!("{:?}", other))),
    }
}

/// remove `astptr: SyntaxNodePtr { … }` / `ast: …` position fields from a Debug rendering
pub fn strip_astptr(s: &str) -> String {
    let mut out = String::with_capacity(s.len());
    let b = s.as_bytes();
    let mut i = 0;
    while i < b.len() {
        if s[i..].starts_with("astptr: ") || s[i..].starts_with("ast: SyntaxNodePtr") {
            // skip to the matching close of the first '{' after here
            let mut j = i;
            while j < b.len() && b[j] != b'{' {
                j += 1;
            }
            let mut depth = 0;
            while j < b.len() {
                if b[j] == b'{' {
                    depth += 1;
                } else if b[j] == b'}' {
                    depth -= 1;
                    if depth == 0 {
                        j += 1;
                        break;
                    }
                }
                j += 1;
            }
            i = j;
            out.push('@');
            continue;
        }
        let ch = s[i..].chars().next().unwrap();
        out.push(ch);
        i += ch.len_utf8();
    }
    out
}

fn parse_let_value(text: &str) -> Result<gast::Expr, String> {
    let r = catch_unwind(AssertUnwindSafe(|| compiler::pipeline::pipeline::parse_ast_file(Path::new("m.gom"), text)));
    let file = match r {
        Ok(Ok(f)) => f,
        Ok(Err(e)) => {
            let (stage, msg) = crate::families::common::describe_err(&e);
            return Err(format!("rejected at {}: {}", stage, msg));
        }
        Err(p) => return Err(format!("panic: {}", panic_message(p))),
    };
    for it in &file.toplevels {
        if let gast::Item::Fn(f) = it {
            if f.name.0 == "main" {
                if let gast::Expr::EBlock { exprs, .. } = &f.body {
                    for e in exprs {
                        if let gast::Expr::ELet { value, .. } = e {
                            return Ok((**value).clone());
                        }
                    }
                }
            }
        }
    }
    Err("no let in main".into())
}

fn wrap(expr: &str) -> String {
    format!("fn main() {{ let r = {} ; () }}", expr)
}

pub const ATOMS: [&str; 3] = ["a", "b", "c"];

/// node kinds: 12 binary + 2 unary + 4 postfix
const NKINDS: usize = 19;

/// all trees with exactly `n` operator nodes; atoms are assigned a, b, c… left to right
fn trees(n: usize) -> Vec<T> {
    fn go(n: usize) -> Vec<T> {
        if n == 0 {
            return vec![T::Atom("?")];
        }
        let mut out = Vec::new();
        for k in 0..NKINDS {
            if k < 12 {
                let op = BINOPS[k].0;
                for ln in 0..n {
                    let rn = n - 1 - ln;
                    for l in go(ln) {
                        for r in go(rn) {
                            out.push(T::Bin(op, Box::new(l.clone()), Box::new(r)));
                        }
                    }
                }
            } else if k < 14 {
                let op = if k == 12 { "-" } else { "!" };
                for e in go(n - 1) {
                    out.push(T::Un(op, Box::new(e)));
                }
            } else if k == 14 || k == 17 {
                for ln in 0..n {
                    let rn = n - 1 - ln;
                    for l in go(ln) {
                        for r in go(rn) {
                            if k == 14 {
                                out.push(T::Call(Box::new(l.clone()), Box::new(r)));
                            } else {
                                out.push(T::Method(Box::new(l.clone()), Box::new(r)));
                            }
                        }
                    }
                }
            } else {
                for e in go(n - 1) {
                    out.push(if k == 15 {
                        T::Field(Box::new(e))
                    } else if k == 16 {
                        T::Proj(Box::new(e))
                    } else {
                        T::Call0(Box::new(e))
                    });
                }
            }
        }
        out
    }
    fn name_atoms(t: &mut T, next: &mut usize) {
        const NAMES: [&str; 5] = ["a", "b", "c", "d", "e"];
        match t {
            T::Atom(a) => {
                *a = NAMES[*next % 5];
                *next += 1;
            }
            T::Bin(_, l, r) | T::Call(l, r) | T::Method(l, r) => {
                name_atoms(l, next);
                name_atoms(r, next);
            }
            T::Un(_, e) | T::Field(e) | T::Proj(e) | T::Call0(e) => name_atoms(e, next),
        }
    }
    let mut v = go(n);
    for t in v.iter_mut() {
        let mut k = 0;
        name_atoms(t, &mut k);
    }
    v
}

fn join(tokens: &[String], sep: &str) -> String {
    tokens.join(sep)
}

pub struct ParseTrees;

impl Family for ParseTrees {
    fn name(&self) -> &'static str {
        "parse-trees"
    }
    fn serves(&self) -> &'static [&'static str] {
        &["C11"]
    }
    fn rule(&self) -> &'static str {
        "all expression trees with <= 2 (quick) / <= 3 (thorough) operator nodes over 12 binary operators, unary - and !, call, field, tuple projection and method call; rendered with minimal parentheses, fully parenthesised and with 4 trivia patterns; non-trivial = trees whose minimal rendering drops at least one parenthesis pair relative to the full rendering; one case = a block of 500 trees. Parenthesised callees: 14 callee forms (name, negation, sum, comparison, call, field, projection, method call, if, match, closure, nested parentheses) x 0..3 arguments x followed by nothing / a call / a field: the tree is the call of the callee's own tree. Expressions in 16 positions (let value, statement, block value, after a statement, after an if statement, if / else branch value, while body, closure block, match arm block and value, argument, tuple / array / struct-literal component, closure value): 8 leading forms (if, match, while, call, negation, not, parenthesised, struct literal) followed by each of the 12 binary operators, a field, and three operator pairs, against the same text with the whole expression parenthesised. Conditions and scrutinees of if / else-if / while / match ending in 10 ways (identifier, qualified path, call, field, projection, literal, negation, parentheses, ...) before 7 body shapes (one identifier, empty, unit, sum, call, two statements, a nested construct), bare against parenthesised. Tuple projection chains written without blanks (9 index chains x 5 bases x 4 continuations) against the spaced, parenthesised spelling"
    }
    fn cases(&self, tier: Tier) -> Box<dyn Iterator<Item = Value> + '_> {
        let maxn = if tier == Tier::Quick { 2 } else { 3 };
        let mut v = Vec::new();
        for n in 1..=maxn {
            let cnt = trees(n).len();
            let mut lo = 0;
            while lo < cnt {
                v.push(json!({"n": n, "lo": lo, "hi": (lo + 500).min(cnt)}));
                lo += 500;
            }
        }
        for c in 0..CALLEES.len() {
            for n in 0..=3 {
                for second in 0..=2 {
                    v.push(json!({"kind": "callee", "callee": c, "args": n, "second": second}));
                }
            }
        }
        for c in 0..CONTEXTS.len() {
            v.push(json!({"kind": "position", "context": c}));
        }
        for c in 0..COND_ENDS.len() {
            v.push(json!({"kind": "condition-then-block", "cond": c}));
        }
        for c in 0..PROJ_CHAINS.len() {
            for b in 0..PROJ_BASES.len() {
                v.push(json!({"kind": "projection-chain", "chain": c, "base": b}));
            }
        }
        Box::new(v.into_iter())
    }
    fn case_timeout(&self, _tier: Tier) -> u64 {
        120
    }
    fn run(&self, case: &Value, _ctx: &mut Ctx) -> Report {
        let mut rep = Report::default();
        if case["kind"] == "callee" {
            return run_callee(case);
        }
        if case["kind"] == "projection-chain" {
            return run_projection_chain(case);
        }
        if case["kind"] == "position" {
            return run_position(case);
        }
        if case["kind"] == "condition-then-block" {
            return run_condition_then_block(case);
        }
        let n = case["n"].as_u64().unwrap() as usize;
        let (lo, hi) = (case["lo"].as_u64().unwrap() as usize, case["hi"].as_u64().unwrap() as usize);
        let all = trees(n);
        let mut reported = std::collections::BTreeMap::<String, u32>::new();
        let mut count = 0u64;
        for t in &all[lo..hi] {
            count += 1;
            let mut tmin = Vec::new();
            toks(t, 0, false, &mut tmin);
            let mut tfull = Vec::new();
            toks(t, 0, true, &mut tfull);
            let min_text = wrap(&join(&tmin, " "));
            let full_text = wrap(&join(&tfull, " "));
            if tmin.len() < tfull.len() {
                rep.more_keys.push(fnv(&min_text));
            }
            let site = |what: &str| format!("{};shape={}", what, shape(t));
            let mut fail = |class: &str, site: String, detail: String, text: &str, rep: &mut Report| {
                let c = reported.entry(format!("{}|{}", class, site)).or_insert(0);
                *c += 1;
                if *c <= 1 {
                    rep.findings.push(Finding {
                        property: "C11",
                        class: class.to_string(),
                        site,
                        detail,
                        replay: json!({"kind": "parse-tree", "model": sexpr_model(t), "minimal": min_text, "full": full_text, "text": text}),
                    });
                }
            };
            let a_min = parse_let_value(&min_text);
            let a_full = parse_let_value(&full_text);
            match (&a_min, &a_full) {
                (Ok(m), Ok(f)) => {
                    let (sm, sf) = (strip_astptr(&format!("{:?}", m)), strip_astptr(&format!("{:?}", f)));
                    if sm != sf {
                        fail("parse.min-vs-full", site("min!=full"), format!("{} parsed as {} but {} parsed as {}", min_text, sexpr_ast(m), full_text, sexpr_ast(f)), &min_text, &mut rep);
                    }
                    let want = sexpr_model(t);
                    let got = sexpr_ast(f);
                    if want != got {
                        fail("parse.full-vs-model", site("full!=model"), format!("{} expected {} got {}", full_text, want, got), &full_text, &mut rep);
                    }
                }
                (Err(e), _) => fail("parse.rejected", format!("msg={}", normalise_msg(e)), format!("{}: {}", min_text, e), &min_text, &mut rep),
                (_, Err(e)) => fail("parse.rejected", format!("msg={}", normalise_msg(e)), format!("{}: {}", full_text, e), &full_text, &mut rep),
            }
            if let Ok(m) = &a_min {
                let sm = strip_astptr(&format!("{:?}", m));
                for (tn, sep) in [("newline", "\n"), ("comment", " // c\n "), ("double", "  "), ("none", "")] {
                    let joined = join(&tmin, sep);
                    if sep.is_empty() {
                        // only where no two adjacent tokens fuse - by the language's own list of tokens, not by asking the
                        // lexer under test (a lexer that has grown a token `<-` must not be the judge of `a<-b`)
                        if tmin.windows(2).any(|w| tokens_fuse(&w[0], &w[1])) {
                            continue;
                        }
                    }
                    let text = format!("fn main() {{ let r ={}{}{}; () }}", if sep.is_empty() { " " } else { sep }, joined, if sep.is_empty() { " " } else { sep });
                    match parse_let_value(&text) {
                        Ok(v) => {
                            if strip_astptr(&format!("{:?}", v)) != sm {
                                fail("parse.trivia", site(tn), format!("{:?} parsed as {} instead of {}", text, sexpr_ast(&v), sexpr_ast(m)), &text, &mut rep);
                            }
                        }
                        Err(e) => fail("parse.trivia-rejected", format!("trivia={};msg={}", tn, normalise_msg(&e)), format!("{:?}: {}", text, e), &text, &mut rep),
                    }
                }
            }
        }
        rep.sub_evaluations = count;
        rep.outcome = Some(format!("{}:{}", n, lo));
        let mut fm = Vec::new();
        toks(&all[lo], 0, false, &mut fm);
        rep.sample = Some(json!({"operators": n, "first_tree": sexpr_model(&all[lo]), "first_minimal": join(&fm, " ")}));
        rep
    }
}

/// expressions that are called when written in parentheses: (name, text)
const CALLEES: [(&str, &str); 14] = [
    ("name", "f"),
    ("negation", "-f"),
    ("not", "!f"),
    ("sum", "a + f"),
    ("comparison", "a < f"),
    ("call", "f(a)"),
    ("empty-call", "f()"),
    ("field", "s.fld"),
    ("projection", "t.0"),
    ("method-call", "s.mth(a)"),
    ("if", "if c { f } else { g }"),
    ("match", "match c { true => f, false => g }"),
    ("closure", "|x| x + a"),
    ("nested-parentheses", "(f)"),
];

/// `(callee)(args)` is the call of the value of `callee`: parse the callee alone, then the call, and
/// compare; with `second` 1 / 2 the call is itself called / projected
fn run_callee(case: &Value) -> Report {
    let mut rep = Report::default();
    let (cname, ctext) = CALLEES[case["callee"].as_u64().unwrap() as usize];
    let n = case["args"].as_u64().unwrap() as usize;
    let second = case["second"].as_u64().unwrap();
    let args: Vec<&str> = ["p", "q + 1", "r(2)"][..n].to_vec();
    let mut text_expr = format!("({})({})", ctext, args.join(", "));
    match second {
        1 => text_expr.push_str("(z)"),
        2 => text_expr.push_str(".fld"),
        _ => {}
    }
    let site = format!("callee={};args={};then={}", cname, n, ["nothing", "call", "field"][second as usize]);
    rep.nontrivial_key = Some(site.clone());
    let alone = parse_let_value(&wrap(ctext));
    let arg_trees: Vec<Result<gast::Expr, String>> = args.iter().map(|a| parse_let_value(&wrap(a))).collect();
    let text = wrap(&text_expr);
    let got = parse_let_value(&text);
    let replay = json!({"kind": "text", "text": text, "oracle": "parse-only"});
    match (alone, got) {
        (Ok(c), Ok(g)) => {
            let mut want = format!("(call {} {})", sexpr_ast(&c), arg_trees.iter().map(|a| a.as_ref().map(sexpr_ast).unwrap_or_default()).collect::<Vec<_>>().join(" "));
            match second {
                1 => want = format!("(call {} z)", want),
                2 => want = format!("(field {} fld)", want),
                _ => {}
            }
            let have = sexpr_ast(&g);
            rep.outcome = Some(if want == have { "callee:as-written".into() } else { format!("callee:{}", cname) });
            if want != have {
                rep.findings.push(Finding { property: "C11", class: "parse.full-vs-model".into(), site, detail: format!("{} expected {} got {}", text_expr, want, have), replay });
            } else {
                rep.tag("parse:callee-as-written");
            }
        }
        (Err(e), _) => {
            rep.tag("machinery:callee-alone-rejected");
            rep.sample = Some(json!({"callee": ctext, "error": e}));
        }
        (_, Err(e)) => {
            rep.outcome = Some("callee:rejected".into());
            rep.findings.push(Finding { property: "C11", class: "parse.rejected".into(), site: format!("{};msg={}", site, normalise_msg(&e)), detail: format!("{}: {}", text_expr, e), replay });
        }
    }
    rep
}

/// where an expression can stand: (name, text with § for the expression)
const CONTEXTS: [(&str, &str); 16] = [
    ("let-value", "fn main() { let r = §; () }"),
    ("statement", "fn main() { §; () }"),
    ("block-value", "fn main() -> int32 { § }"),
    ("block-value-after-a-statement", "fn main() -> int32 { let z = 1; § }"),
    ("statement-after-an-if-statement", "fn main() { if k { () } else { () }; §; () }"),
    ("if-branch-value", "fn main() { let r = if k { § } else { z }; () }"),
    ("else-branch-value", "fn main() { let r = if k { z } else { § }; () }"),
    ("while-body-statement", "fn main() { while k { §; }; () }"),
    ("closure-block-value", "fn main() { let r = |q| { § }; () }"),
    ("match-arm-block-value", "fn main() { let r = match k { true => { § }, false => z }; () }"),
    ("match-arm-value", "fn main() { let r = match k { true => §, false => z }; () }"),
    ("argument", "fn main() { let r = g(§, z); () }"),
    ("tuple-component", "fn main() { let r = (§, z); () }"),
    ("array-element", "fn main() { let r = [§, z]; () }"),
    ("struct-field-value", "fn main() { let r = P { a: §, b: z }; () }"),
    ("closure-value", "fn main() { let r = |q| §; () }"),
];

/// expressions whose first token also starts a statement or could end one
fn leading_forms() -> Vec<(String, String)> {
    let mut v = Vec::new();
    let heads = [
        ("if", "if c { a } else { b }"),
        ("match", "match c { true => a, false => b }"),
        ("while", "while c { () }"),
        ("call", "f(a)"),
        ("negation", "-a"),
        ("not", "!a"),
        ("parenthesised", "(a)"),
        ("struct-literal", "P { a: a, b: b }"),
    ];
    for (hn, h) in heads {
        for (op, _) in BINOPS {
            v.push((format!("{}-then-{}", hn, op), format!("{} {} y", h, op)));
        }
        v.push((format!("{}-then-field", hn), format!("{}.fld", h)));
        v.push((format!("{}-then-minus-then-plus", hn), format!("{} - y + x", h)));
        v.push((format!("{}-then-minus-then-equals", hn), format!("{} - y == x", h)));
        v.push((format!("{}-then-or-then-and", hn), format!("{} || y && x", h)));
    }
    v
}

/// the expression means the same wherever it stands: with and without parentheses around the whole
/// of it the file is the same tree
fn run_position(case: &Value) -> Report {
    let mut rep = Report::default();
    let (cname, ctext) = CONTEXTS[case["context"].as_u64().unwrap() as usize];
    let parse_file = |text: &str| -> Result<String, String> {
        match catch_unwind(AssertUnwindSafe(|| compiler::pipeline::pipeline::parse_ast_file(Path::new("m.gom"), text))) {
            Ok(Ok(f)) => Ok(strip_astptr(&format!("{:?}", f))),
            Ok(Err(e)) => {
                let (stage, msg) = crate::families::common::describe_err(&e);
                Err(format!("rejected at {}: {}", stage, msg))
            }
            Err(p) => Err(format!("panic: {}", panic_message(p))),
        }
    };
    let mut n = 0u64;
    for (fname, expr) in leading_forms() {
        n += 1;
        let bare = ctext.replace('§', &expr);
        let wrapped = ctext.replace('§', &format!("({})", expr));
        let site = format!("position={};expression={}", cname, fname);
        rep.more_keys.push(fnv(&bare));
        let replay = json!({"kind": "text", "text": bare, "oracle": "parse-only", "same_tree_as": wrapped});
        match (parse_file(&wrapped), parse_file(&bare)) {
            (Ok(w), Ok(b)) => {
                if w != b {
                    rep.findings.push(Finding { property: "C11", class: "parse.min-vs-full".into(), site, detail: format!("{:?} is not read as {:?}", bare, wrapped), replay });
                }
            }
            (Err(e), _) => {
                rep.tag("machinery:position-reference-rejected");
                rep.sample = Some(json!({"text": wrapped, "error": e}));
            }
            (_, Err(e)) => {
                rep.findings.push(Finding { property: "C11", class: "parse.rejected".into(), site: format!("{};msg={}", site, normalise_msg(&e)), detail: format!("{:?}: {}", bare, e), replay });
            }
        }
    }
    rep.sub_evaluations = n;
    rep.outcome = Some(format!("position:{}:{}", cname, rep.findings.len()));
    if rep.findings.is_empty() {
        rep.tag("parse:position-independent");
    }
    rep
}

/// would two tokens written without a blank between them read as something else? Words and numbers run together;
/// the operators of more than one character are `== != <= >= && || -> => ::` (and `//` starts a comment); a digit and a
/// point make a float
fn tokens_fuse(a: &str, b: &str) -> bool {
    let (Some(x), Some(y)) = (a.chars().last(), b.chars().next()) else { return false };
    let word = |c: char| c.is_alphanumeric() || c == '_';
    if word(x) && word(y) {
        return true;
    }
    if (x.is_ascii_digit() && y == '.') || (x == '.' && y.is_ascii_digit()) {
        return true;
    }
    matches!((x, y), ('=', '=') | ('!', '=') | ('<', '=') | ('>', '=') | ('&', '&') | ('|', '|') | ('-', '>') | ('=', '>') | (':', ':') | ('/', '/') | ('/', '*') | ('.', '.'))
}

/// how a condition / scrutinee can end, just before the `{` of the body
const COND_ENDS: [(&str, &str); 22] = [
    ("identifier", "c"),
    ("qualified-path", "k == Color::Red"),
    ("qualified-path-alone", "Lib::flag"),
    ("call", "f(a)"),
    ("field", "s.fld"),
    ("projection", "t.0"),
    ("literal", "k < 3"),
    ("negated-identifier", "!c"),
    ("parenthesised", "(c)"),
    ("comparison-of-identifiers", "a == b"),
    // struct literals inside a condition: the `{` of the literal against the `{` of the body
    ("fieldless-literal-then-comparison", "Empty { } == x"),
    ("fieldless-literal-then-inequality", "Empty { } != x"),
    ("fieldless-literal-then-field", "Empty { }.fld"),
    ("fieldless-literal-then-conjunction", "Empty { } && c"),
    ("fieldless-literal-then-sum", "Empty { } + x"),
    ("fieldless-literal-in-the-middle", "x == Empty { } && c"),
    ("fieldless-literal-last", "x == Empty { }"),
    ("fieldless-literal-no-blank", "Empty {} == x"),
    ("literal-with-fields-first", "P { a: 1 } == x"),
    ("literal-with-fields-last", "x == P { a: 1 }"),
    ("shorthand-literal-first", "P { a, b } == x"),
    ("literal-argument", "f(Empty { }) == x"),
];
/// bodies that begin like the field list of a struct literal would
const BLOCK_BODIES: [(&str, &str); 7] = [
    ("one-identifier", "{ a }"),
    ("empty", "{ }"),
    ("unit", "{ () }"),
    ("sum", "{ a + 0 }"),
    ("call", "{ g(a) }"),
    ("two-statements", "{ a; b }"),
    ("nested-block-construct", "{ if a { b } else { a } }"),
];

/// `if` / `else if` / `while` / `match` with the condition written bare and in parentheses are the same tree
fn run_condition_then_block(case: &Value) -> Report {
    let mut rep = Report::default();
    let (cname, cond) = COND_ENDS[case["cond"].as_u64().unwrap() as usize];
    let parse_file = |text: &str| -> Result<String, String> {
        match catch_unwind(AssertUnwindSafe(|| compiler::pipeline::pipeline::parse_ast_file(Path::new("m.gom"), text))) {
            Ok(Ok(f)) => Ok(strip_astptr(&format!("{:?}", f))),
            Ok(Err(e)) => {
                let (stage, msg) = crate::families::common::describe_err(&e);
                Err(format!("rejected at {}: {}", stage, msg))
            }
            Err(p) => Err(format!("panic: {}", panic_message(p))),
        }
    };
    let mut n = 0u64;
    for (bname, body) in BLOCK_BODIES {
        let constructs: Vec<(&str, String)> = vec![
            ("if", format!("fn main() {{ let r = if § {} else {}; () }}", body, body)),
            ("else-if", format!("fn main() {{ let r = if z {{ a }} else if § {} else {}; () }}", body, body)),
            ("while", format!("fn main() {{ while § {}; () }}", body)),
            ("if-statement", format!("fn main() {{ if § {} else {}; () }}", body, body)),
            ("match-scrutinee", "fn main() { let r = match § { _ => a }; () }".to_string()),
        ];
        for (kname, tmpl) in constructs {
            n += 1;
            let bare = tmpl.replace('§', cond);
            let wrapped = tmpl.replace('§', &format!("({})", cond));
            let site = format!("condition-ends-in={};body={};construct={}", cname, bname, kname);
            rep.more_keys.push(fnv(&bare));
            let replay = json!({"kind": "text", "text": bare, "oracle": "parse-only", "same_tree_as": wrapped});
            match (parse_file(&wrapped), parse_file(&bare)) {
                (Ok(w), Ok(b)) => {
                    if w != b {
                        rep.findings.push(Finding { property: "C11", class: "parse.min-vs-full".into(), site, detail: format!("{:?} is not read as {:?}", bare, wrapped), replay });
                    }
                }
                (Err(e), _) => {
                    rep.tag("machinery:condition-reference-rejected");
                    rep.sample = Some(json!({"text": wrapped, "error": e}));
                }
                (_, Err(e)) => {
                    rep.findings.push(Finding { property: "C11", class: "parse.rejected".into(), site: format!("{};msg={}", site, normalise_msg(&e)), detail: format!("{:?}: {}", bare, e), replay });
                }
            }
        }
    }
    rep.sub_evaluations = n;
    rep.outcome = Some(format!("condition-then-block:{}:{}", cname, rep.findings.len()));
    rep
}

/// tuple projections written the usual way, without blanks: `t.0.1` is `(t.0).1`
const PROJ_CHAINS: [&[usize]; 9] = [&[0, 1], &[1, 0], &[0, 0], &[2, 1, 0], &[0, 1, 2], &[1, 1, 1, 1], &[0, 1, 0, 1, 2], &[10, 2], &[3, 12]];
const PROJ_BASES: [&str; 5] = ["t", "f(a)", "s.fld", "t.0", "(a, b)"];

fn run_projection_chain(case: &Value) -> Report {
    let mut rep = Report::default();
    let chain = PROJ_CHAINS[case["chain"].as_u64().unwrap() as usize];
    let base = PROJ_BASES[case["base"].as_u64().unwrap() as usize];
    let mut compact = base.to_string();
    let mut spaced = format!("({})", base);
    for i in chain {
        compact.push_str(&format!(".{}", i));
        spaced = format!("({}) . {}", spaced, i);
    }
    // and a field, a call and an operator after the chain
    for (tail_name, tail) in [("nothing", ""), ("field", ".fld"), ("call", "(z)"), ("sum", " + 1")] {
        let site = format!("projection-chain;length={};base={};then={}", chain.len(), base, tail_name);
        rep.more_keys.push(fnv(&format!("{}{}{}", site, compact, tail)));
        let text = wrap(&format!("{}{}", compact, tail));
        let reference = wrap(&format!("({}){}", spaced, tail));
        let replay = json!({"kind": "text", "text": text, "oracle": "parse-only"});
        match (parse_let_value(&reference), parse_let_value(&text)) {
            (Ok(w), Ok(g)) => {
                if sexpr_ast(&w) != sexpr_ast(&g) {
                    rep.findings.push(Finding { property: "C11", class: "parse.min-vs-full".into(), site, detail: format!("{}{} parsed as {} but the parenthesised form as {}", compact, tail, sexpr_ast(&g), sexpr_ast(&w)), replay });
                } else {
                    rep.tag("parse:projection-chain-as-written");
                }
            }
            (Err(e), _) => {
                rep.tag("machinery:projection-reference-rejected");
                rep.sample = Some(json!({"text": reference, "error": e}));
            }
            (_, Err(e)) => {
                rep.findings.push(Finding { property: "C11", class: "parse.rejected".into(), site: format!("{};msg={}", site, normalise_msg(&e)), detail: format!("{}{}: {}", compact, tail, e), replay });
            }
        }
    }
    rep.sub_evaluations = 4;
    rep.outcome = Some(format!("projection-chain:{}", if rep.findings.is_empty() { "as-written" } else { "differs" }));
    rep
}

fn shape(t: &T) -> String {
    match t {
        T::Atom(_) => "x".into(),
        T::Bin(op, l, r) => format!("({} {} {})", op, shape(l), shape(r)),
        T::Un(op, e) => format!("(u{} {})", op, shape(e)),
        T::Call(f, a) => format!("(call {} {})", shape(f), shape(a)),
        T::Call0(e) => format!("(call0 {})", shape(e)),
        T::Field(e) => format!("(fld {})", shape(e)),
        T::Proj(e) => format!("(prj {})", shape(e)),
        T::Method(e, a) => format!("(mth {} {})", shape(e), shape(a)),
    }
}

fn fnv(s: &str) -> u64 {
    let mut h: u64 = 0xcbf29ce484222325;
    for b in s.as_bytes() {
        h ^= *b as u64;
        h = h.wrapping_mul(0x100000001b3);
    }
    h
}

// ------------------------------------------------------------------ literal spellings

pub struct Literals;

const ESCAPES: [(&str, &str); 30] = [
    // supplementary planes through surrogate-pair escapes (plane 2, plane 16) and raw
    ("\\ud840\\udc0b", "\u{2000b}"),
    ("\\udbff\\udfff", "\u{10ffff}"),
    ("\u{2000b}", "\u{2000b}"),
    // C1 controls, no-break space, byte order mark: escaped and raw
    ("\\u0085", "\u{85}"),
    ("\u{85}", "\u{85}"),
    ("\u{9f}", "\u{9f}"),
    ("\u{a0}", "\u{a0}"),
    ("\\ufeff", "\u{feff}"),
    ("\\u2028", "\u{2028}"),
    ("\\u0000", "\u{0}"),
    ("\\ud83d\\ude00", "😀"),
    ("\\u007f", "\u{7f}"),
    ("\\\"", "\""),
    ("\\\\", "\\"),
    ("\\/", "/"),
    ("\\b", "\u{8}"),
    ("\\f", "\u{c}"),
    ("\\n", "\n"),
    ("\\r", "\r"),
    ("\\t", "\t"),
    ("\\u0041", "A"),
    ("\\u00e9", "é"),
    ("x", "x"),
    // plain text that reads like the tail of an escape when a backslash happens to stand before it
    ("u0041", "u0041"),
    ("ud83d", "ud83d"),
    ("n", "n"),
    ("t", "t"),
    ("b", "b"),
    ("/", "/"),
    ("r", "r"),
];

const LONE_SURROGATES: [&str; 7] = ["\\ud800", "\\udc00", "\\udfff", "\\ud800x", "x\\udbff", "\\udc00\\ud800", "\\ud800\\u0041"];

impl Family for Literals {
    fn name(&self) -> &'static str {
        "literals"
    }
    fn serves(&self) -> &'static [&'static str] {
        &["C11"]
    }
    fn rule(&self) -> &'static str {
        "string literal spellings: every escape the lexer accepts, and 7 pieces of plain text that read like the tail of an escape (u0041, n, t, ...), alone and in every ordered pair; multi-line strings of 2-3 lines over {empty, quote, backslash, spaces, non-ASCII}, each also in a file with CR LF line ends (as are the single escapes); 7 spellings of half a surrogate pair (alone, next to other characters, the two halves in the wrong order) as an expression and as a pattern must be rejected; the AST value and the text printed by the compiled program (through the Go model) must equal the denoted characters; distinct = distinct literal spellings"
    }
    fn cases(&self, _tier: Tier) -> Box<dyn Iterator<Item = Value> + '_> {
        let mut v = Vec::new();
        for i in 0..ESCAPES.len() {
            v.push(json!({"kind": "str", "parts": [i]}));
            v.push(json!({"kind": "str", "parts": [i], "crlf": true}));
            for j in 0..ESCAPES.len() {
                v.push(json!({"kind": "str", "parts": [i, j]}));
            }
        }
        // escapes that denote no character: half of a surrogate pair (a string is a sequence of characters)
        for lit in LONE_SURROGATES {
            v.push(json!({"kind": "no-character", "lit": lit, "as": "expression"}));
            v.push(json!({"kind": "no-character", "lit": lit, "as": "pattern"}));
        }
        let lines = ["", "\"q\"", "back\\slash", "  sp  ", "é😀", "plain"];
        for a in 0..lines.len() {
            for b in 0..lines.len() {
                v.push(json!({"kind": "multi", "lines": [lines[a], lines[b]]}));
                // the same file with CR LF line ends: the line end is not part of a line's characters
                v.push(json!({"kind": "multi", "lines": [lines[a], lines[b]], "crlf": true}));
                if a == b {
                    for c in 0..lines.len() {
                        v.push(json!({"kind": "multi", "lines": [lines[a], lines[b], lines[c]]}));
                        v.push(json!({"kind": "multi", "lines": [lines[a], lines[b], lines[c]], "crlf": true}));
                    }
                }
            }
        }
        Box::new(v.into_iter())
    }
    fn run(&self, case: &Value, ctx: &mut Ctx) -> Report {
        let mut rep = Report::default();
        if case["kind"] == "no-character" {
            let lit = case["lit"].as_str().unwrap();
            let text = if case["as"] == "expression" {
                format!("fn main() {{\n    let r = \"{}\";\n    string_println(r)\n}}\n", lit)
            } else {
                format!("fn main() {{\n    let r = match \"q\" {{ \"{}\" => 1, _ => 0 }};\n    string_println(int32_to_string(r))\n}}\n", lit)
            };
            rep.nontrivial_key = Some(text.clone());
            let path = ctx.scratch.single_path();
            match crate::oracle::compile_at(&path, &text) {
                crate::oracle::CompileOutcome::Ok(_) => {
                    rep.tag("no-character:accepted");
                    rep.findings.push(Finding {
                        property: "C11",
                        class: "literal.no-character-accepted".into(),
                        site: format!("lone-surrogate;as={}", case["as"].as_str().unwrap()),
                        detail: format!("the escape in \"{}\" is half of a surrogate pair and denotes no character, but the program was accepted", lit),
                        replay: json!({"kind": "text", "text": text, "oracle": "must-reject"}),
                    });
                }
                crate::oracle::CompileOutcome::Err(_) => rep.tag("no-character:rejected"),
                crate::oracle::CompileOutcome::Panic(m) => {
                    let m = normalise_msg(&m);
                    rep.findings.push(Finding { property: "C11", class: "compile.panic".into(), site: format!("lone-surrogate;msg={}", m), detail: m, replay: json!({"kind": "text", "text": text, "oracle": "total"}) });
                }
            }
            return rep;
        }
        let (lit, denoted, site): (String, String, String) = if case["kind"] == "str" {
            let parts: Vec<usize> = case["parts"].as_array().unwrap().iter().map(|x| x.as_u64().unwrap() as usize).collect();
            let sp: String = parts.iter().map(|i| ESCAPES[*i].0).collect();
            let de: String = parts.iter().map(|i| ESCAPES[*i].1).collect();
            let any_escape = parts.iter().any(|i| ESCAPES[*i].0.starts_with('\\'));
            (format!("\"{}\"", sp), de, format!("str:{}", if any_escape { "escape" } else { "plain" }))
        } else {
            let ls: Vec<String> = case["lines"].as_array().unwrap().iter().map(|x| x.as_str().unwrap().to_string()).collect();
            let lit = ls.iter().map(|l| format!("\\\\{}", l)).collect::<Vec<_>>().join("\n        ");
            (lit, ls.join("\n"), format!("multi:{}", ls.len()))
        };
        let text = if case["kind"] == "str" {
            format!("fn main() {{\n    let r = {};\n    string_println(r)\n}}\n", lit)
        } else {
            format!("fn main() {{\n    let r = {}\n    ;\n    string_println(r)\n}}\n", lit)
        };
        let crlf = case["crlf"].as_bool().unwrap_or(false);
        let text = if crlf { text.replace('\n', "\r\n") } else { text };
        let site = if crlf { format!("{};crlf", site) } else { site };
        rep.nontrivial_key = Some(text.clone());
        let replay = json!({"kind": "literal", "text": text, "denoted": denoted});
        match parse_let_value(&text) {
            Ok(gast::Expr::EString { value, .. }) => {
                if value != denoted {
                    rep.tag("ast-value-differs");
                    rep.findings.push(Finding {
                        property: "C11",
                        class: "literal.ast-value".into(),
                        site: site.clone(),
                        detail: format!("literal {} denotes {:?} but the AST holds {:?}", lit, denoted, value),
                        replay: replay.clone(),
                    });
                } else {
                    rep.tag("ast-value-ok");
                }
            }
            Ok(other) => rep.findings.push(Finding {
                property: "C11",
                class: "literal.not-a-string".into(),
                site: site.clone(),
                detail: format!("{} parsed as {}", lit, sexpr_ast(&other)),
                replay: replay.clone(),
            }),
            Err(e) => rep.findings.push(Finding {
                property: "C11",
                class: "literal.rejected".into(),
                site: format!("{};msg={}", site, normalise_msg(&e)),
                detail: format!("{}: {}", lit, e),
                replay: replay.clone(),
            }),
        }
        // end to end: the compiled program prints the denoted characters
        let path = ctx.scratch.single_path();
        if let crate::oracle::CompileOutcome::Ok(c) = crate::oracle::compile_at(&path, &text) {
            if let Ok(go) = crate::oracle::go_text(&c) {
                let gr = crate::oracle::analyse_and_run(go, 100_000);
                match (&gr.verdict, &gr.run) {
                    (crate::gosem::GoVerdict::Ok(_), Some(run)) => {
                        let want = format!("{}\n", denoted).into_bytes();
                        rep.outcome = Some(String::from_utf8_lossy(&run.stdout).into_owned());
                        if run.stdout != want {
                            rep.tag("printed-differs");
                            rep.findings.push(Finding {
                                property: "C11",
                                class: "literal.printed".into(),
                                site: site.clone(),
                                detail: format!("literal {} denotes {:?} but the program prints {:?}", lit, denoted, String::from_utf8_lossy(&run.stdout)),
                                replay: replay.clone(),
                            });
                        } else {
                            rep.tag("printed-ok");
                        }
                    }
                    (crate::gosem::GoVerdict::Rejected(errs), _) => {
                        rep.tag("go-rejected");
                        rep.findings.push(Finding {
                            property: "C11",
                            class: format!("literal.go-{}", errs[0].rule),
                            site: site.clone(),
                            detail: format!("literal {}: emitted Go rejected: {}", lit, errs[0].msg),
                            replay: replay.clone(),
                        });
                    }
                    _ => rep.tag("machinery:go-unsupported"),
                }
            }
        } else {
            rep.tag("compile-failed");
        }
        rep.sample = Some(json!({"literal": lit, "denoted": denoted}));
        rep
    }
}
