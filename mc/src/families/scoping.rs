//! C05: lexical name resolution. The binder-shape lattice: all function bodies over a one-name
//! grammar (lets, tuple lets, closures, if-blocks, match arms binding the same identifier `x`),
//! checked three ways: (i) the binder the compiler stored for every use equals the binder given by
//! the textbook rules (the generator's binder identities), (ii) acceptance ⇔ all uses bound,
//! (iii) output = reference semantics.

use crate::drive::*;
use crate::families::common::*;
use crate::ug::ast::*;
use crate::ug::build::*;
use crate::ug::print::Printer;
use compiler::hir;
use serde_json::{Value, json};
use std::panic::{AssertUnwindSafe, catch_unwind};

#[derive(Debug, Clone, PartialEq)]
pub enum XE {
    Lit,
    Use,
    If(bool, Box<XB>, Box<XB>),
    MatchOpt(Box<XE>, Box<XE>, Box<XE>), // match Som(scrut) { Som(x) => a, Non => b }
    MatchVar(Box<XE>, Box<XE>),          // match scrut { x => body }
}

#[derive(Debug, Clone, PartialEq)]
pub enum XS {
    Let(XE),
    LetTup(XE),
    Show(XE),
    Clo(XE, XE), // let f = |x| body; showI(f(arg))
    /// `while <runs once> { stmts; showI(tail) };` - the body is a block of its own
    While(Box<XB>),
    /// `let f = |x| { stmts; tail }; showI(f(0))` - a closure whose body is a block with statements
    CloBlock(Box<XB>),
    /// `match 0 { k => { stmts; showI(tail) } };` - an arm whose body is a block with statements
    ArmBlock(Box<XB>),
}

#[derive(Debug, Clone, PartialEq)]
pub struct XB {
    pub stmts: Vec<XS>,
    pub tail: XE,
}

fn exprs0() -> Vec<XE> {
    vec![XE::Lit, XE::Use]
}

fn stmts0() -> Vec<XS> {
    let mut v = Vec::new();
    for e in exprs0() {
        v.push(XS::Let(e.clone()));
        v.push(XS::LetTup(e.clone()));
        v.push(XS::Show(e.clone()));
        for a in exprs0() {
            v.push(XS::Clo(e.clone(), a));
        }
    }
    v
}

fn blocks0() -> Vec<XB> {
    let mut v = Vec::new();
    for t in exprs0() {
        v.push(XB { stmts: vec![], tail: t.clone() });
        for s in stmts0() {
            v.push(XB { stmts: vec![s], tail: t.clone() });
        }
    }
    v
}

fn exprs1(full_if: bool) -> Vec<XE> {
    let mut v = exprs0();
    let bs = blocks0();
    for (i, a) in bs.iter().enumerate() {
        for (j, b) in bs.iter().enumerate() {
            if !full_if && i != j && !(a.stmts.is_empty() || b.stmts.is_empty()) {
                continue;
            }
            v.push(XE::If((i + j) % 2 == 0, Box::new(a.clone()), Box::new(b.clone())));
        }
    }
    for s in exprs0() {
        for a in exprs0() {
            for b in exprs0() {
                v.push(XE::MatchOpt(Box::new(s.clone()), Box::new(a.clone()), Box::new(b)));
            }
            v.push(XE::MatchVar(Box::new(s.clone()), Box::new(a)));
        }
    }
    v
}

/// `if c { s1; s2; tail } else { literal }` for every pair of depth-0 statements: a nested scope that
/// binds the name more than once
fn exprs_two_statement_blocks() -> Vec<XE> {
    let mut v = Vec::new();
    let s0 = stmts0();
    for a in &s0 {
        for b in &s0 {
            for t in exprs0() {
                v.push(XE::If(true, Box::new(XB { stmts: vec![a.clone(), b.clone()], tail: t }), Box::new(XB { stmts: vec![], tail: XE::Lit })));
            }
        }
    }
    v
}

/// all bodies of the tier: up to `n` depth-0 statements followed by a depth-1 tail
fn bodies(tier: Tier) -> Vec<XB> {
    let mut tails = exprs1(tier == Tier::Thorough);
    tails.extend(exprs_two_statement_blocks());
    let s0 = stmts0();
    let mut prefixes: Vec<Vec<XS>> = vec![vec![]];
    let maxn = if tier == Tier::Quick { 1 } else { 2 };
    let mut last = prefixes.clone();
    for _ in 0..maxn {
        let mut next = Vec::new();
        for p in &last {
            for s in &s0 {
                let mut q = p.clone();
                q.push(s.clone());
                next.push(q);
            }
        }
        prefixes.extend(next.clone());
        last = next;
    }
    let mut v = Vec::new();
    for p in prefixes {
        for t in &tails {
            v.push(XB { stmts: p.clone(), tail: t.clone() });
        }
    }
    // constructs that own a block (loop body, closure body, arm body) holding every depth-0 block, with
    // and without an outer binding before them, followed by a use: what the block binds ends with it
    for inner in blocks0() {
        for owner in 0..3 {
            let ob = Box::new(inner.clone());
            let os = match owner {
                0 => XS::While(ob),
                1 => XS::CloBlock(ob),
                _ => XS::ArmBlock(ob),
            };
            for pre in [None, Some(XS::Let(XE::Lit))] {
                for tail in exprs0() {
                    let mut stmts: Vec<XS> = pre.iter().cloned().collect();
                    stmts.push(os.clone());
                    stmts.push(XS::Show(XE::Use));
                    v.push(XB { stmts, tail });
                }
            }
        }
    }
    // depth-1 expressions in statement position followed by a use (does a binding leak out?)
    for t in &tails {
        for s in [XS::Show(t.clone()), XS::Let(t.clone())] {
            for tail in exprs0() {
                v.push(XB { stmts: vec![s.clone()], tail });
            }
        }
    }
    v
}

struct Elab {
    n: Names,
    /// α-renamed spellings (unique per binder), parallel to n.names
    unique: Vec<String>,
    lit: i128,
    unbound_uses: u32,
    uses: u32,
    shadowing: u32,
    unbound_id: VarId,
    items: Vec<Item>,
    clo: u32,
}

impl Elab {
    fn binder(&mut self, scope: &Option<VarId>) -> VarId {
        if scope.is_some() {
            self.shadowing += 1;
        }
        let id = self.n.fresh_exact("x");
        self.unique.push(format!("x{}", id));
        id
    }
    fn other(&mut self, sp: &str) -> VarId {
        let id = self.n.fresh(sp);
        self.unique.push(self.n.names[id as usize].clone());
        id
    }
    fn expr(&mut self, e: &XE, scope: &Option<VarId>) -> E {
        match e {
            XE::Lit => {
                self.lit += 1;
                int(self.lit)
            }
            XE::Use => {
                self.uses += 1;
                match scope {
                    Some(id) => v(*id),
                    None => {
                        self.unbound_uses += 1;
                        v(self.unbound_id)
                    }
                }
            }
            XE::If(c, a, b) => if_(E::Bool(*c), self.block(a, scope), self.block(b, scope)),
            XE::MatchOpt(s, a, b) => {
                let sv = self.expr(s, scope);
                let bx = self.binder(scope);
                let av = self.expr(a, &Some(bx));
                let bv = self.expr(b, scope);
                E::Match(
                    Box::new(E::Ctor("Opt".into(), "Som".into(), false, vec![sv], vec![])),
                    vec![
                        (Pat::Ctor("Opt".into(), "Som".into(), false, vec![Pat::Var(bx)]), av),
                        (Pat::Ctor("Opt".into(), "Non".into(), false, vec![]), bv),
                    ],
                )
            }
            XE::MatchVar(s, a) => {
                let sv = self.expr(s, scope);
                let bx = self.binder(scope);
                let av = self.expr(a, &Some(bx));
                E::Match(Box::new(sv), vec![(Pat::Var(bx), av)])
            }
        }
    }
    fn block(&mut self, b: &XB, scope: &Option<VarId>) -> E {
        let mut sc = *scope;
        let mut stmts = Vec::new();
        for s in &b.stmts {
            match s {
                XS::Let(e) => {
                    let ev = self.expr(e, &sc);
                    let bx = self.binder(&sc);
                    stmts.push(let_(bx, ev));
                    sc = Some(bx);
                }
                XS::LetTup(e) => {
                    let ev = self.expr(e, &sc);
                    let bx = self.binder(&sc);
                    let w = self.other("w");
                    stmts.push(Stmt::Let(Pat::Tuple(vec![Pat::Var(bx), Pat::Var(w)]), None, E::Tuple(vec![ev, int(0)])));
                    sc = Some(bx);
                }
                XS::Show(e) => {
                    let ev = self.expr(e, &sc);
                    stmts.push(st(call("showI", vec![ev])));
                }
                XS::Clo(body, arg) => {
                    let f = self.other("f");
                    let bx = self.binder(&sc);
                    let bv = self.expr(body, &Some(bx));
                    stmts.push(let_(f, E::Closure(vec![(bx, Some(Ty::i32()))], Box::new(block(vec![], Some(bv))))));
                    let av = self.expr(arg, &sc);
                    stmts.push(st(call("showI", vec![E::Call(Box::new(v(f)), vec![av])])));
                    self.clo += 1;
                }
                XS::While(inner) => {
                    let w = self.other("w");
                    stmts.push(let_(w, bi("ref", vec![int(0)])));
                    let body = self.block(inner, &sc);
                    let E::Block(mut bs, tail) = body else { unreachable!() };
                    bs.push(st(call("showI", vec![*tail.unwrap()])));
                    bs.push(st(bi("ref_set", vec![v(w), int(1)])));
                    stmts.push(st(E::While(Box::new(bin(BinOp::Lt, bi("ref_get", vec![v(w)]), int(1))), Box::new(E::Block(bs, None)))));
                }
                XS::CloBlock(inner) => {
                    let f = self.other("f");
                    let bx = self.binder(&sc);
                    let body = self.block(inner, &Some(bx));
                    stmts.push(let_(f, E::Closure(vec![(bx, Some(Ty::i32()))], Box::new(body))));
                    stmts.push(st(call("showI", vec![E::Call(Box::new(v(f)), vec![int(0)])])));
                    self.clo += 1;
                }
                XS::ArmBlock(inner) => {
                    let k = self.other("k");
                    let body = self.block(inner, &sc);
                    let E::Block(mut bs, tail) = body else { unreachable!() };
                    bs.push(st(call("showI", vec![*tail.unwrap()])));
                    stmts.push(st(E::Match(Box::new(int(0)), vec![(Pat::Var(k), E::Block(bs, None))])));
                }
            }
        }
        let t = self.expr(&b.tail, &sc);
        block(stmts, Some(t))
    }
}

/// returns (program, α-renamed names, #uses, #unbound uses, #shadowing binders)
pub fn build(body: &XB, with_param: bool, variant_named_x: bool, early_variant_use: bool, struct_named_x: bool) -> (Program, Vec<String>, u32, u32, u32) {
    let mut el = Elab {
        n: Names::new(),
        unique: Vec::new(),
        lit: 0,
        unbound_uses: 0,
        uses: 0,
        shadowing: 0,
        unbound_id: 0,
        items: Vec::new(),
        clo: 0,
    };
    el.unbound_id = el.n.fresh_exact("x");
    el.unique.push("x_unbound".into());
    // showI only (a minimal prelude keeps token alignment trivial)
    let sx = el.other("shown");
    el.items.push(fn_def("showI", vec![(sx, Ty::i32())], Some(Ty::Unit), block(vec![], Some(println(add(s("="), i2s(v(sx))))))));
    el.items.push(Item::Enum(EnumDef {
        name: "Opt".into(),
        generics: vec![],
        variants: vec![("Non".into(), vec![]), ("Som".into(), vec![Ty::i32()])],
        derives: vec![],
    }));
    if variant_named_x {
        // an enum of the package with a (lower-case) variant spelled like every binder
        el.items.push(Item::Enum(EnumDef { name: "Low".into(), generics: vec![], variants: vec![("x".into(), vec![]), ("other".into(), vec![Ty::i32()])], derives: vec![] }));
    }
    if struct_named_x {
        // a struct of the package spelled like every binder (a struct is built and matched with field
        // syntax only: its bare name is no pattern and no expression)
        el.items.push(Item::Struct(StructDef { name: "x".into(), generics: vec![], fields: vec![("fld".into(), Ty::i32())], derives: vec![] }));
    }
    if early_variant_use {
        // the variant itself is used (bare) before any binder of its spelling is
        let l = el.other("l");
        let k = el.other("k");
        el.items.push(fn_def("early", vec![], Some(Ty::named("Low")), E::Ctor("Low".into(), "x".into(), false, vec![], vec![])));
        el.items.push(fn_def(
            "showLow",
            vec![(l, Ty::named("Low"))],
            Some(Ty::Unit),
            E::Match(
                Box::new(v(l)),
                vec![(Pat::Ctor("Low".into(), "x".into(), true, vec![]), println(s("low-x"))), (Pat::Ctor("Low".into(), "other".into(), true, vec![Pat::Var(k)]), println(add(s("low-other"), i2s(v(k)))))],
            ),
        ));
    }
    let (param, scope) = if with_param {
        let p = el.binder(&None);
        (p, Some(p))
    } else {
        (el.other("p"), None)
    };
    let b = el.block(body, &scope);
    el.items.push(fn_def("body", vec![(param, Ty::i32())], Some(Ty::i32()), b));
    let mut main_stmts = Vec::new();
    if early_variant_use {
        main_stmts.push(st(call("showLow", vec![call("early", vec![])])));
    }
    main_stmts.push(st(call("showI", vec![call("body", vec![int(100)])])));
    el.items.push(fn_def("main", vec![], None, block(main_stmts, None)));
    let prog = Program::single(el.items, el.n.names.clone());
    (prog, el.unique, el.uses, el.unbound_uses, el.shadowing)
}

/// non-trivia tokens: (start, end, text)
fn toks(text: &str) -> Vec<(usize, usize, String)> {
    lexer::lex(text)
        .iter()
        .filter(|t| !t.kind.is_trivia())
        .map(|t| (u32::from(t.range.start()) as usize, u32::from(t.range.end()) as usize, t.text.to_string()))
        .collect()
}

fn first_ident_in(tokens: &[(usize, usize, String)], lo: usize, hi: usize) -> Option<usize> {
    tokens.iter().position(|(s, e, t)| *s >= lo && *e <= hi && t.chars().next().map(|c| c.is_alphabetic()).unwrap_or(false) && *t != "let")
}

pub struct Scoping;

impl Family for Scoping {
    fn name(&self) -> &'static str {
        "scoping"
    }
    fn serves(&self) -> &'static [&'static str] {
        &["C05", "C01", "C02", "C04"]
    }
    fn rule(&self) -> &'static str {
        "binder-shape lattice: every function body made of <= 1 (quick) / <= 2 (thorough) depth-0 statements {let x, let (x,_), show, closure |x|} followed by a depth-1 tail (plus: a loop body / closure body / arm body that is a block holding every depth-0 block, with and without an outer binding before it, followed by a use) {x, literal, if with one-statement blocks, if whose then-block has two statements (every pair), match binding x, match x => …}, with and without a parameter named x, every binder spelled `x`; every body whose binders are parameters and closure parameters only and whose uses are all bound also in a package that declares an enum with a variant spelled `x` (a pattern of that spelling is a constructor pattern), the enum in the same file, and in a second file of the package with the variant itself used bare in a function that comes first; every body whose uses are all bound also in a package that declares a struct spelled `x`, in the same file and in a second file; non-trivial = programs with a use whose innermost binder is shadowing another binder, or with an unbound use; distinct = distinct source text"
    }
    fn cases(&self, tier: Tier) -> Box<dyn Iterator<Item = Value> + '_> {
        let n = bodies(tier).len();
        let mut v = Vec::new();
        let mut lo = 0;
        while lo < n {
            v.push(json!({"lo": lo, "hi": (lo + 100).min(n)}));
            lo += 100;
        }
        Box::new(v.into_iter())
    }
    fn case_timeout(&self, _tier: Tier) -> u64 {
        120
    }
    fn run(&self, case: &Value, ctx: &mut Ctx) -> Report {
        let mut rep = Report::default();
        let all = bodies(ctx.tier);
        let (lo, hi) = (case["lo"].as_u64().unwrap() as usize, case["hi"].as_u64().unwrap() as usize);
        let mut count = 0u64;
        let mut reported = std::collections::BTreeMap::<String, u32>::new();
        for (bi, body) in all[lo..hi].iter().enumerate() {
            for (with_param, variant_named_x, sibling, struct_named_x) in [
                (true, false, false, false),
                (false, false, false, false),
                (true, true, false, false),
                (false, true, false, false),
                (true, true, true, false),
                (false, true, true, false),
                (true, false, false, true),
                (false, false, false, true),
                (true, false, true, true),
            ] {
                let (prog, unique, uses, unbound, shadowing) = build(body, with_param, variant_named_x, sibling && !struct_named_x, struct_named_x);
                // a use without a binder would name the struct
                if struct_named_x && unbound > 0 {
                    continue;
                }
                // with a variant spelled x in the package, a use without a binder means the variant
                // (and a pattern spelled like a variant is a constructor pattern: only parameters and closure
                // parameters can be binders of that name)
                if variant_named_x && (unbound > 0 || has_two_statement_block(body) || has_pattern_binder(body)) {
                    continue;
                }
                count += 1;
                let text = Printer::new(&prog.names).package(&prog.packages[0]);
                let text2 = Printer::new(&unique).package(&prog.packages[0]);
                let site_shape = format!(
                    "{}{}{}{}",
                    shape_of(body),
                    if variant_named_x { ";variant-named-x" } else { "" },
                    if struct_named_x { ";struct-named-x" } else { "" },
                    if sibling && struct_named_x { ";struct-in-sibling-file" } else if sibling { ";enum-in-sibling-file;variant-used-earlier" } else { "" }
                );
                let subcase = json!({"index": lo + bi, "with_param": with_param, "variant_named_x": variant_named_x, "sibling": sibling, "struct_named_x": struct_named_x});
                if shadowing > 0 && uses > 0 || unbound > 0 {
                    rep.more_keys.push(fnv(&text));
                }
                let mut push = |rep: &mut Report, property: &'static str, class: String, site: String, detail: String, replay: Value| {
                    let n = reported.entry(format!("{}|{}|{}", property, class, site)).or_insert(0);
                    *n += 1;
                    if *n <= 1 {
                        rep.findings.push(Finding { property, class, site, detail, replay });
                    }
                };
                // (i) resolver agreement (one file at a time: not for the two-file flavour)
                let (t1, t2) = (toks(&text), toks(&text2));
                if t1.len() != t2.len() {
                    rep.tag("machinery:token-misalignment");
                    continue;
                }
                let r = catch_unwind(AssertUnwindSafe(|| {
                    if sibling {
                        return None;
                    }
                    let file = compiler::pipeline::pipeline::parse_ast_file(std::path::Path::new("m.gom"), &text).ok()?;
                    Some(hir::lower_to_hir(file))
                }));
                match r {
                    Err(p) => {
                        let m = normalise_msg(&crate::oracle::panic_message(p));
                        push(&mut rep, "C05", "hir.panic".into(), format!("msg={}", m), m.clone(), json!({"kind": "scoping", "source": text}));
                    }
                    Ok(None) if sibling => {}
                    Ok(None) => rep.tag("machinery:parse-failed"),
                    Ok(Some((_pkg, table, _diags))) => {
                        // binder positions: pattern variables and closure parameters carry their syntax pointers;
                        // locals without one are function parameters
                        let mut binder_ptr: std::collections::HashMap<hir::LocalId, (usize, usize)> = std::collections::HashMap::new();
                        for idx in 0..table.pat_count() {
                            let pid = hir::PatId { pkg: table.package(), idx: idx as u32 };
                            if let hir::Pat::PVar { name, astptr } = table.pat(pid) {
                                let r = astptr.text_range();
                                binder_ptr.insert(*name, (u32::from(r.start()) as usize, u32::from(r.end()) as usize));
                            }
                        }
                        for idx in 0..table.expr_count() {
                            let id = hir::ExprId { pkg: table.package(), idx: idx as u32 };
                            if let hir::Expr::EClosure { params, .. } = table.expr(id) {
                                for p in params {
                                    let r = p.astptr.text_range();
                                    binder_ptr.insert(p.name, (u32::from(r.start()) as usize, u32::from(r.end()) as usize));
                                }
                            }
                        }
                        for idx in 0..table.expr_count() {
                            let id = hir::ExprId { pkg: table.package(), idx: idx as u32 };
                            if let hir::Expr::ENameRef { res, hint, astptr: Some(ptr) } = table.expr(id) {
                                if hint != "x" {
                                    continue;
                                }
                                let r = ptr.text_range();
                                let (ulo, uhi): (usize, usize) = (u32::from(r.start()) as usize, u32::from(r.end()) as usize);
                                let Some(ui) = first_ident_in(&t1, ulo, uhi) else { continue };
                                let want = &t2[ui].2; // unique spelling of the true binder
                                let got: String = match res {
                                    hir::NameRef::Local(lid) => match binder_ptr.get(lid) {
                                        Some((blo, bhi)) => match first_ident_in(&t1, *blo, *bhi) {
                                            Some(bi2) => t2[bi2].2.clone(),
                                            None => "<binder-without-ident>".into(),
                                        },
                                        None => {
                                            if with_param { unique_param(&unique, &prog) } else { "<parameter>".into() }
                                        }
                                    },
                                    hir::NameRef::Unresolved(_) => "x_unbound".into(),
                                    other => format!("<{:?}>", std::mem::discriminant(other)),
                                };
                                if &got != want {
                                    rep.tag("resolver:wrong-binder");
                                    let class = if want == "x_unbound" {
                                        "hir.bound-a-use-with-no-binder-in-scope"
                                    } else if got == "x_unbound" {
                                        "hir.unresolved-although-bound"
                                    } else {
                                        "hir.wrong-binder"
                                    };
                                    push(
                                        &mut rep,
                                        "C05",
                                        class.into(),
                                        format!("shape={}", site_shape),
                                        format!("use at {}..{} should refer to {} but the compiler resolved it to {}", ulo, uhi, want, got),
                                        json!({"kind": "scoping", "source": text, "renamed": text2, "case": subcase}),
                                    );
                                } else {
                                    rep.tag("resolver:agree");
                                }
                            }
                        }
                    }
                }
                // (ii)+(iii) acceptance and behaviour
                if unbound > 0 {
                    let path = ctx.scratch.single_path();
                    match crate::oracle::compile_at(&path, &text) {
                        crate::oracle::CompileOutcome::Err(e) => {
                            let msgs: Vec<String> = e.diagnostics().iter().map(|d| d.message().to_string()).collect();
                            if msgs.iter().any(|m| m.contains("Unresolved name")) {
                                rep.tag("unbound:rejected");
                            } else {
                                rep.tag("unbound:rejected-other");
                                push(&mut rep, "C05", "unbound.rejected-without-unresolved-diagnostic".into(), format!("msg={}", normalise_msg(&msgs.join("; "))), msgs.join("; "), json!({"kind": "scoping", "source": text}));
                            }
                        }
                        crate::oracle::CompileOutcome::Ok(_) => {
                            rep.tag("unbound:accepted");
                            push(&mut rep, "C05", "unbound.accepted".into(), format!("shape={}", site_shape), "a use with no binder in scope was accepted".into(), json!({"kind": "scoping", "source": text}));
                        }
                        crate::oracle::CompileOutcome::Panic(m) => {
                            let m = normalise_msg(&m);
                            push(&mut rep, "C04", "compile.panic".into(), format!("msg={}", m), m.clone(), json!({"kind": "scoping", "source": text}));
                        }
                    }
                } else {
                    let opts = DiffOpts {
                        props_sem: &["C05", "C01"],
                        props_reject: &["C05"],
                        sibling_file_types: if sibling && struct_named_x { &["x"] } else if sibling { &["Low"] } else { &[] },
                        ..DiffOpts::default()
                    };
                    let mut sub = Report::default();
                    differential(&prog, &format!("shape={}", site_shape), "scoping", &subcase, ctx, &opts, &mut sub);
                    for t in sub.tags {
                        rep.tags.push(t);
                    }
                    for f in sub.findings {
                        push(&mut rep, f.property, f.class, f.site, f.detail, f.replay);
                    }
                    if rep.sample.is_none() {
                        rep.sample = sub.sample;
                    }
                }
            }
        }
        rep.sub_evaluations = count;
        rep.outcome = Some(format!("{}", lo));
        rep
    }
}

fn has_pattern_binder(b: &XB) -> bool {
    fn e(x: &XE) -> bool {
        match x {
            XE::If(_, a, c) => bl(a) || bl(c),
            XE::MatchOpt(..) | XE::MatchVar(..) => true,
            _ => false,
        }
    }
    fn bl(b: &XB) -> bool {
        b.stmts.iter().any(|s| match s {
            XS::Let(_) | XS::LetTup(_) => true,
            XS::Show(x) => e(x),
            XS::Clo(a, c) => e(a) || e(c),
            XS::While(_) | XS::CloBlock(_) | XS::ArmBlock(_) => true,
        }) || e(&b.tail)
    }
    bl(b)
}

fn has_two_statement_block(b: &XB) -> bool {
    fn e(x: &XE) -> bool {
        match x {
            XE::If(_, a, c) => a.stmts.len() > 1 || c.stmts.len() > 1 || bl(a) || bl(c),
            XE::MatchOpt(s, a, c) => e(s) || e(a) || e(c),
            XE::MatchVar(s, a) => e(s) || e(a),
            _ => false,
        }
    }
    fn bl(b: &XB) -> bool {
        b.stmts.iter().any(|s| match s {
            XS::Let(x) | XS::LetTup(x) | XS::Show(x) => e(x),
            XS::Clo(a, c) => e(a) || e(c),
            XS::While(i) | XS::CloBlock(i) | XS::ArmBlock(i) => bl(i),
        }) || e(&b.tail)
    }
    bl(b)
}

fn unique_param(unique: &[String], prog: &Program) -> String {
    for it in prog.items() {
        if let Item::Fn(f) = it {
            if f.name == "body" {
                return unique[f.params[0].0 as usize].clone();
            }
        }
    }
    "<no-param>".into()
}

/// coarse shape for fingerprints: which binder forms are involved
fn shape_of(b: &XB) -> String {
    fn e(x: &XE, out: &mut Vec<&'static str>) {
        match x {
            XE::Lit => {}
            XE::Use => out.push("use"),
            XE::If(_, a, c) => {
                out.push("if");
                bl(a, out);
                bl(c, out);
            }
            XE::MatchOpt(s, a, c) => {
                out.push("match-ctor");
                e(s, out);
                e(a, out);
                e(c, out);
            }
            XE::MatchVar(s, a) => {
                out.push("match-var");
                e(s, out);
                e(a, out);
            }
        }
    }
    fn bl(b: &XB, out: &mut Vec<&'static str>) {
        for s in &b.stmts {
            match s {
                XS::Let(x) => {
                    e(x, out);
                    out.push("let");
                }
                XS::LetTup(x) => {
                    e(x, out);
                    out.push("let-tuple");
                }
                XS::Show(x) => {
                    out.push("stmt");
                    e(x, out);
                }
                XS::Clo(a, c) => {
                    out.push("closure");
                    e(a, out);
                    e(c, out);
                }
                XS::While(i) => {
                    out.push("while-block");
                    bl(i, out);
                }
                XS::CloBlock(i) => {
                    out.push("closure-block");
                    bl(i, out);
                }
                XS::ArmBlock(i) => {
                    out.push("arm-block");
                    bl(i, out);
                }
            }
        }
        out.push("tail");
        e(&b.tail, out);
    }
    let mut v = Vec::new();
    bl(b, &mut v);
    v.join(">")
}

fn fnv(s: &str) -> u64 {
    let mut h: u64 = 0xcbf29ce484222325;
    for b in s.as_bytes() {
        h ^= *b as u64;
        h = h.wrapping_mul(0x100000001b3);
    }
    h
}
