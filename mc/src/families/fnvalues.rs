//! C02 / C04 / C01: every kind of function-like entity used as a *value* (not called where it is
//! named), through every flow a function value can take. Whatever the verdict, the compiler must
//! not panic, and an accepted program must yield valid Go that prints what the direct call prints.

use crate::drive::*;
use crate::families::common::*;
use crate::oracle::*;
use serde_json::{Value, json};

struct Entity {
    name: &'static str,
    decls: &'static str,
    /// statements at the start of main (values the arguments need)
    pre: &'static str,
    /// the expression that names the function
    value: &'static str,
    params: &'static [&'static str],
    ret: &'static str,
    args: &'static [&'static str],
    /// rendering of the result `§` as a string expression
    render: &'static str,
    expected: &'static str,
}

const ENTITIES: [Entity; 18] = [
    Entity { name: "top-level-fn", decls: "fn inc(x: int32) -> int32 { x + 1 }\n", pre: "", value: "inc", params: &["int32"], ret: "int32", args: &["4"], render: "int32_to_string(§)", expected: "5" },
    Entity { name: "generic-fn", decls: "fn idg[T](x: T) -> T { x }\n", pre: "", value: "idg", params: &["int32"], ret: "int32", args: &["4"], render: "int32_to_string(§)", expected: "4" },
    Entity { name: "two-argument-fn", decls: "fn sub(x: int32, y: int32) -> int32 { x - y }\n", pre: "", value: "sub", params: &["int32", "int32"], ret: "int32", args: &["9", "4"], render: "int32_to_string(§)", expected: "5" },
    Entity { name: "runtime-builtin", decls: "", pre: "", value: "int32_to_string", params: &["int32"], ret: "string", args: &["4"], render: "§", expected: "4" },
    Entity { name: "builtin-ref", decls: "", pre: "", value: "ref", params: &["int32"], ret: "Ref[int32]", args: &["4"], render: "int32_to_string(ref_get(§))", expected: "4" },
    Entity { name: "builtin-ref_get", decls: "", pre: "let r0 = ref(4);\n    ", value: "ref_get", params: &["Ref[int32]"], ret: "int32", args: &["r0"], render: "int32_to_string(§)", expected: "4" },
    Entity { name: "builtin-ref_set", decls: "", pre: "let r0 = ref(4);\n    ", value: "ref_set", params: &["Ref[int32]", "int32"], ret: "unit", args: &["r0", "5"], render: "unit_to_string(§) + int32_to_string(ref_get(r0))", expected: "()5" },
    Entity { name: "builtin-vec_new", decls: "", pre: "", value: "vec_new", params: &[], ret: "Vec[int32]", args: &[], render: "int32_to_string(vec_len(vec_push(§, 1)))", expected: "1" },
    Entity { name: "builtin-vec_push", decls: "", pre: "let v0: Vec[int32] = vec_new();\n    ", value: "vec_push", params: &["Vec[int32]", "int32"], ret: "Vec[int32]", args: &["v0", "7"], render: "int32_to_string(vec_get(§, 0))", expected: "7" },
    Entity { name: "builtin-vec_get", decls: "", pre: "let v0: Vec[int32] = vec_new();\n    let v1 = vec_push(v0, 7);\n    ", value: "vec_get", params: &["Vec[int32]", "int32"], ret: "int32", args: &["v1", "0"], render: "int32_to_string(§)", expected: "7" },
    Entity { name: "builtin-vec_len", decls: "", pre: "let v0: Vec[int32] = vec_new();\n    let v1 = vec_push(v0, 7);\n    ", value: "vec_len", params: &["Vec[int32]"], ret: "int32", args: &["v1"], render: "int32_to_string(§)", expected: "1" },
    Entity { name: "builtin-array_get", decls: "", pre: "", value: "array_get", params: &["[int32; 2]", "int32"], ret: "int32", args: &["[7, 8]", "1"], render: "int32_to_string(§)", expected: "8" },
    Entity { name: "builtin-array_set", decls: "", pre: "", value: "array_set", params: &["[int32; 2]", "int32", "int32"], ret: "[int32; 2]", args: &["[7, 8]", "1", "9"], render: "int32_to_string(array_get(§, 1))", expected: "9" },
    Entity {
        name: "inherent-method",
        decls: "struct Pt { x: int32 }\nimpl Pt { fn sum(self: Pt, k: int32) -> int32 { self.x + k } }\n",
        pre: "",
        value: "Pt::sum",
        params: &["Pt", "int32"],
        ret: "int32",
        args: &["Pt { x: 1 }", "2"],
        render: "int32_to_string(§)",
        expected: "3",
    },
    Entity {
        name: "inherent-method-of-generic-impl",
        decls: "struct Bx[T] { v: T }\nimpl[T] Bx[T] { fn get(self: Bx[T]) -> T { self.v } }\n",
        pre: "let bx: Bx[int32] = Bx { v: 4 };\n    ",
        value: "Bx::get",
        params: &["Bx[int32]"],
        ret: "int32",
        args: &["bx"],
        render: "int32_to_string(§)",
        expected: "4",
    },
    Entity {
        name: "trait-method",
        decls: "trait Tr { fn m(Self) -> int32; }\nimpl Tr for int32 { fn m(self: int32) -> int32 { self + 1 } }\n",
        pre: "",
        value: "Tr::m",
        params: &["int32"],
        ret: "int32",
        args: &["4"],
        render: "int32_to_string(§)",
        expected: "5",
    },
    Entity {
        name: "enum-constructor",
        decls: "enum Opt { Non, Som(int32) }\nfn un(o: Opt) -> int32 { match o { Som(k) => k, Non => 0 } }\n",
        pre: "",
        value: "Som",
        params: &["int32"],
        ret: "Opt",
        args: &["4"],
        render: "int32_to_string(un(§))",
        expected: "4",
    },
    Entity {
        name: "closure-free",
        decls: "",
        pre: "",
        value: "|q: int32| q + 1",
        params: &["int32"],
        ret: "int32",
        args: &["4"],
        render: "int32_to_string(§)",
        expected: "5",
    },
];

const FLOWS: [&str; 13] = [
    "direct-call", "let-alias", "let-annotated", "argument", "tuple-element", "returned", "array-element", "struct-field", "if-branch",
    // the value is named and never called (nothing pins what it is applied to)
    "let-never-called", "let-wildcard", "statement", "let-annotated-never-called",
];

fn never_called(flow: &str) -> bool {
    matches!(flow, "let-never-called" | "let-wildcard" | "statement" | "let-annotated-never-called")
}

fn program(e: &Entity, flow: &str) -> String {
    let fnty = format!("({}) -> {}", e.params.join(", "), e.ret);
    let args = e.args.join(", ");
    let mut decls = String::from(e.decls);
    let show = |call: String| format!("string_println({})", e.render.replace('§', &call));
    let body = match flow {
        "direct-call" => {
            if e.value.starts_with('|') {
                format!("let f = {};\n    {}", e.value, show(format!("f({})", args)))
            } else {
                show(format!("{}({})", e.value, args))
            }
        }
        "let-alias" => format!("let f = {};\n    {}", e.value, show(format!("f({})", args))),
        "let-annotated" => format!("let f: {} = {};\n    {}", fnty, e.value, show(format!("f({})", args))),
        "argument" => {
            let ps: Vec<String> = e.params.iter().enumerate().map(|(i, t)| format!(", a{}: {}", i, t)).collect();
            let names: Vec<String> = (0..e.params.len()).map(|i| format!("a{}", i)).collect();
            decls.push_str(&format!("fn apply_it(f: {}{}) -> {} {{ f({}) }}\n", fnty, ps.concat(), e.ret, names.join(", ")));
            let mut call_args = vec![e.value.to_string()];
            call_args.extend(e.args.iter().map(|a| a.to_string()));
            show(format!("apply_it({})", call_args.join(", ")))
        }
        "tuple-element" => format!("let t: ({}, int32) = ({}, 0);\n    let g = t.0;\n    {}", fnty, e.value, show(format!("g({})", args))),
        "returned" => {
            decls.push_str(&format!("fn give() -> {} {{ {} }}\n", fnty, e.value));
            format!("let g = give();\n    {}", show(format!("g({})", args)))
        }
        "array-element" => format!("let a: [{}; 1] = [{}];\n    let g = array_get(a, 0);\n    {}", fnty, e.value, show(format!("g({})", args))),
        "struct-field" => {
            decls.push_str(&format!("struct Holder {{ f: {} }}\n", fnty));
            format!("let h = Holder {{ f: {} }};\n    let g = h.f;\n    {}", e.value, show(format!("g({})", args)))
        }
        "let-never-called" => format!("let f = {};\n    string_println(\"named\")", e.value),
        "let-wildcard" => format!("let _ = {};\n    string_println(\"named\")", e.value),
        "statement" => format!("{};\n    string_println(\"named\")", e.value),
        "let-annotated-never-called" => format!("let f: {} = {};\n    string_println(\"named\")", fnty, e.value),
        _ => format!("let c = true;\n    let g = if c {{ {} }} else {{ {} }};\n    {}", e.value, e.value, show(format!("g({})", args))),
    };
    format!("{}fn main() {{\n    {}{};\n    string_println(\"done\")\n}}\n", decls, e.pre, body)
}

pub struct FnValues;

impl Family for FnValues {
    fn name(&self) -> &'static str {
        "fnvalues"
    }
    fn serves(&self) -> &'static [&'static str] {
        &["C02", "C04", "C01", "C03"]
    }
    fn rule(&self) -> &'static str {
        "18 function-like entities (top-level fn, generic fn, two-argument fn, a runtime builtin, the 9 builtins that are expanded at their call sites, an inherent method, an inherent method of a generic impl, a trait method, an enum constructor, a capture-free closure) x 13 flows of the value (called where named, let alias, annotated let, argument of a higher-order function, tuple element, returned from a function, array element, struct field, result of an if; named and never called: bound by let, by let _, as a statement, by an annotated let); oracle: never a panic; if accepted, the Go is valid, the stage IRs are consistent and the program prints what the direct call prints (a rejection with a diagnostic is a verdict, not a finding). non-trivial = programs in which the entity is not called where it is named; distinct = distinct source text"
    }
    fn cases(&self, _tier: Tier) -> Box<dyn Iterator<Item = Value> + '_> {
        let mut v = Vec::new();
        for e in ENTITIES.iter() {
            for f in FLOWS {
                v.push(json!({"entity": e.name, "flow": f}));
            }
        }
        Box::new(v.into_iter())
    }
    fn run(&self, case: &Value, ctx: &mut Ctx) -> Report {
        let mut rep = Report::default();
        let (en, flow) = (case["entity"].as_str().unwrap(), case["flow"].as_str().unwrap());
        let e = ENTITIES.iter().find(|e| e.name == en).unwrap();
        let text = program(e, flow);
        let want = if never_called(flow) { "named\ndone\n".to_string() } else { format!("{}\ndone\n", e.expected) };
        let site = format!("entity={};flow={}", en, flow);
        let replay = json!({"kind": "differential", "family": "fnvalues", "case": case, "source": text, "expected": {"stdout": want, "end": "ok"}});
        if flow != "direct-call" {
            rep.nontrivial_key = Some(text.clone());
        }
        let path = ctx.scratch.single_path();
        let comp = match compile_at(&path, &text) {
            CompileOutcome::Ok(c) => c,
            CompileOutcome::Panic(m) => {
                let m = normalise_msg(&m);
                rep.tag("compile:panic");
                rep.findings.push(Finding { property: "C04", class: "compile.panic".into(), site: format!("{};msg={}", site, m), detail: m, replay });
                return rep;
            }
            CompileOutcome::Err(err) => {
                let (stage, msg) = describe_err(&err);
                rep.tag(format!("compile:rejected:{}", stage));
                rep.outcome = Some(format!("{}:rejected:{}", site, stage));
                // the direct call of every entity is plain goml
                if flow == "direct-call" {
                    rep.findings.push(Finding { property: "C03", class: format!("compile.rejected.{}", stage), site: format!("{};msg={}", site, normalise_msg(&msg)), detail: msg, replay });
                } else if stage == "compile" {
                    rep.findings.push(Finding { property: "C03", class: "rejected-after-typer".into(), site: format!("{};msg={}", site, normalise_msg(&msg)), detail: msg, replay });
                }
                return rep;
            }
        };
        rep.tag("compile:ok");
        for (stage, msg) in crate::irck::check_all(&comp) {
            rep.tag(format!("irck:{}", stage));
            rep.findings.push(Finding { property: "C03", class: format!("irck.{}", stage), site: format!("{};msg={}", site, normalise_msg(&msg)), detail: msg, replay: replay.clone() });
        }
        let go = go_text(&comp).unwrap_or_default();
        drop(comp);
        match crate::projects::run_go(&go, FUEL) {
            Ok(o) => {
                rep.outcome = Some(format!("{}|{}", site, lossy(&o.stdout)));
                if lossy(&o.stdout) == want && o.end == NEnd::Ok {
                    rep.tag("agree");
                } else {
                    rep.tag("disagree");
                    rep.findings.push(Finding {
                        property: "C01",
                        class: "sem.stdout".into(),
                        site,
                        detail: format!("expected {:?} got {:?}/{}", want, lossy(&o.stdout), end_tag(&o.end)),
                        replay: json!({"kind": "differential", "family": "fnvalues", "case": case, "source": text, "expected": {"stdout": want, "end": "ok"}, "observed": {"stdout": lossy(&o.stdout), "go_text": go}}),
                    });
                }
            }
            Err(m) if m.starts_with("machinery") => rep.tag("machinery:go-unsupported"),
            Err(m) => {
                rep.tag("go:rejected");
                rep.findings.push(Finding { property: "C02", class: m.split(':').next().unwrap_or("go.invalid").to_string(), site: format!("{};goerr={}", site, normalise_msg(&m)), detail: m, replay })
            }
        }
        rep
    }
}
