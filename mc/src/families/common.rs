//! Oracles shared by program families: compile with the real pipeline, check and run the
//! emitted Go text with gosem, compare with the reference semantics.

use crate::drive::*;
use crate::gosem::GoVerdict;
use crate::oracle::*;
use crate::ug::ast::{Item, Package, Program};
use crate::ug::{eval, print};
use serde_json::{Value, json};

pub const FUEL: u64 = 3_000_000;

pub struct DiffOpts {
    /// properties that own a semantic (behavioural) disagreement
    pub props_sem: &'static [&'static str],
    /// properties that own an invalid-Go verdict
    pub props_go: &'static [&'static str],
    /// properties that own a compiler panic
    pub props_panic: &'static [&'static str],
    /// properties that own an unexpected rejection of a well-formed program
    pub props_reject: &'static [&'static str],
    /// properties that own IR consistency
    pub props_ir: &'static [&'static str],
    pub fuel: u64,
    /// applied to both outputs before they are compared (e.g. JSON canonicalisation)
    pub normalise: Option<fn(&[u8]) -> Vec<u8>>,
    /// struct / enum definitions of these names are written to a second file of the same package
    pub sibling_file_types: &'static [&'static str],
}

impl Default for DiffOpts {
    fn default() -> Self {
        DiffOpts {
            props_sem: &["C01"],
            props_go: &["C02"],
            props_panic: &["C04"],
            props_reject: &[],
            props_ir: &["C03"],
            fuel: FUEL,
            normalise: None,
            sibling_file_types: &[],
        }
    }
}

pub fn lossy(b: &[u8]) -> String {
    String::from_utf8_lossy(b).into_owned()
}

pub fn end_tag(e: &NEnd) -> String {
    match e {
        NEnd::Ok => "ok".into(),
        NEnd::TrapDivZero => "trap-div0".into(),
        NEnd::TrapIndex => "trap-index".into(),
        NEnd::TrapMissing => "trap-missing".into(),
        NEnd::GoPanic(k) => format!("go-panic({})", k),
        NEnd::Horizon => "horizon".into(),
        NEnd::Unsupported(_) => "unsupported".into(),
    }
}

/// classify how two outputs differ (line multisets): extra / missing / reordered / value
pub fn classify_stdout(reference: &[u8], got: &[u8]) -> &'static str {
    let r: Vec<&str> = std::str::from_utf8(reference).unwrap_or("").lines().collect();
    let g: Vec<&str> = std::str::from_utf8(got).unwrap_or("").lines().collect();
    let mut rs = r.clone();
    let mut gs = g.clone();
    rs.sort();
    gs.sort();
    if rs == gs {
        return "reordered";
    }
    // probes are lines starting with 't'
    let probes = |v: &Vec<&str>| {
        let mut p: Vec<String> = v.iter().filter(|l| l.starts_with('t')).map(|s| s.to_string()).collect();
        p.sort();
        p
    };
    let (rp, gp) = (probes(&r), probes(&g));
    if rp != gp {
        let extra = gp.iter().any(|x| gp.iter().filter(|y| *y == x).count() > rp.iter().filter(|y| *y == x).count());
        let missing = rp.iter().any(|x| rp.iter().filter(|y| *y == x).count() > gp.iter().filter(|y| *y == x).count());
        return match (extra, missing) {
            (true, false) => "extra-effect",
            (false, true) => "missing-effect",
            _ => "effects-differ",
        };
    }
    "value-differs"
}

pub struct DiffResult {
    pub compiled: bool,
    pub go_ok: bool,
    pub agree: bool,
    pub go_obs: Option<Obs>,
    pub ref_obs: Obs,
}

/// The whole differential pipeline for one µgoml program.
pub fn differential(prog: &Program, site: &str, family: &str, case: &Value, ctx: &mut Ctx, opts: &DiffOpts, rep: &mut Report) -> Option<DiffResult> {
    let text = if opts.sibling_file_types.is_empty() {
        print::print_main(prog)
    } else {
        // the same package in two files: the named types in `types.gom`, everything else in main.gom
        let in_sibling = |it: &Item| match it {
            Item::Struct(d) => opts.sibling_file_types.contains(&d.name.as_str()),
            Item::Enum(d) => opts.sibling_file_types.contains(&d.name.as_str()),
            _ => false,
        };
        let main_pkg = &prog.packages[0];
        let (sib, rest): (Vec<Item>, Vec<Item>) = main_pkg.items.iter().cloned().partition(|it| in_sibling(it));
        let pr = print::Printer::new(&prog.names);
        format!(
            "package Main\n\n{}//// FILE types.gom\npackage Main\n\n{}",
            pr.package(&Package { name: None, imports: main_pkg.imports.clone(), items: rest }),
            pr.package(&Package { name: None, imports: vec![], items: sib })
        )
    };
    let reference = eval::run_program(prog, opts.fuel);
    let ref_obs = obs_of_ref(&reference);
    let replay_base = |extra: Value| -> Value {
        json!({"kind": "differential", "family": family, "case": case, "source": text, "expected": {"stdout": lossy(&ref_obs.stdout), "end": end_tag(&ref_obs.end)}, "observed": extra})
    };
    match &ref_obs.end {
        NEnd::Unsupported(m) => {
            rep.tag("machinery:ref-unsupported");
            rep.sample = Some(json!({"ref_unsupported": m, "site": site}));
            return None;
        }
        NEnd::Horizon => {
            rep.tag("machinery:ref-horizon");
            return None;
        }
        _ => {}
    }
    rep.tag(format!("ref-end:{}", end_tag(&ref_obs.end)));
    let (path, main_text) = materialize_text(ctx, &text);
    let comp = match compile_at(&path, &main_text) {
        CompileOutcome::Ok(c) => c,
        CompileOutcome::Panic(m) => {
            rep.tag("compile:panic");
            let m = normalise_msg(&m);
            for p in opts.props_panic {
                rep.findings.push(Finding {
                    property: p,
                    class: "compile.panic".into(),
                    site: format!("{};msg={}", site, m),
                    detail: m.clone(),
                    replay: replay_base(json!({"panic": m})),
                });
            }
            return Some(DiffResult { compiled: false, go_ok: false, agree: false, go_obs: None, ref_obs });
        }
        CompileOutcome::Err(e) => {
            let (stage, msg) = describe_err(&e);
            rep.tag(format!("compile:rejected:{}", stage));
            rep.sample = Some(json!({"rejected": msg, "site": site, "source": text}));
            let m = normalise_msg(&msg);
            for p in opts.props_reject {
                rep.findings.push(Finding {
                    property: p,
                    class: format!("compile.rejected.{}", stage),
                    site: format!("{};msg={}", site, m),
                    detail: msg.clone(),
                    replay: replay_base(json!({"rejected": msg})),
                });
            }
            return Some(DiffResult { compiled: false, go_ok: false, agree: false, go_obs: None, ref_obs });
        }
    };
    rep.tag("compile:ok");
    if !opts.props_ir.is_empty() {
        rep.tag("irck:checked(core,mono,lift,anf)");
        for (stage, msg) in crate::irck::check_all(&comp) {
            rep.tag(format!("irck:{}", stage));
            for p in opts.props_ir {
                rep.findings.push(Finding {
                    property: p,
                    class: format!("irck.{}", stage),
                    site: format!("{};msg={}", site, normalise_msg(&msg)),
                    detail: msg.clone(),
                    replay: replay_base(json!({"irck": msg})),
                });
            }
        }
    }
    let go = match go_text(&comp) {
        Ok(t) => t,
        Err(m) => {
            rep.tag("gopp:panic");
            for p in opts.props_panic {
                rep.findings.push(Finding {
                    property: p,
                    class: "gopp.panic".into(),
                    site: site.to_string(),
                    detail: m.clone(),
                    replay: replay_base(json!({"panic": m})),
                });
            }
            return Some(DiffResult { compiled: true, go_ok: false, agree: false, go_obs: None, ref_obs });
        }
    };
    drop(comp);
    let gr = analyse_and_run(go, opts.fuel);
    match &gr.verdict {
        GoVerdict::Unsupported(m) => {
            rep.tag("machinery:go-unsupported");
            rep.sample = Some(json!({"go_unsupported": m, "site": site}));
            return Some(DiffResult { compiled: true, go_ok: false, agree: false, go_obs: None, ref_obs });
        }
        GoVerdict::Rejected(errs) => {
            rep.tag("go:rejected");
            let mut rules: Vec<&str> = errs.iter().map(|e| e.rule).collect();
            rules.sort();
            rules.dedup();
            for r in &rules {
                rep.tag(format!("go-rule:{}", r));
            }
            let first = &errs[0];
            for p in opts.props_go {
                rep.findings.push(Finding {
                    property: p,
                    class: format!("go.{}", rules.join("+")),
                    site: format!("{};goerr={}", site, normalise_msg(&first.msg)),
                    detail: format!("line {}: {}", first.line, first.msg),
                    replay: replay_base(json!({"go_errors": errs.iter().take(5).map(|e| format!("{}:{}: {}", e.rule, e.line, e.msg)).collect::<Vec<_>>(), "go_text": gr.text})),
                });
            }
            return Some(DiffResult { compiled: true, go_ok: false, agree: false, go_obs: None, ref_obs });
        }
        GoVerdict::Ok(p) => {
            for (r, _n) in p.rules_evaluated.iter() {
                rep.tag(format!("go-rule-evaluated:{}", r));
            }
        }
    }
    rep.tag("go:ok");
    let run = gr.run.as_ref().unwrap();
    let go_obs = obs_of_go(run);
    match &go_obs.end {
        NEnd::Unsupported(m) => {
            rep.tag("machinery:go-run-unsupported");
            rep.sample = Some(json!({"go_run_unsupported": m, "site": site}));
            return Some(DiffResult { compiled: true, go_ok: true, agree: false, go_obs: Some(go_obs), ref_obs });
        }
        NEnd::Horizon => {
            rep.tag("machinery:go-horizon");
            return Some(DiffResult { compiled: true, go_ok: true, agree: false, go_obs: Some(go_obs), ref_obs });
        }
        _ => {}
    }
    rep.nontrivial_key = Some(text.clone());
    rep.outcome = Some(format!("{}|{}", lossy(&go_obs.stdout), end_tag(&go_obs.end)));
    rep.tag(format!("go-end:{}", end_tag(&go_obs.end)));
    let mut agree = match opts.normalise {
        Some(f) => go_obs.end == ref_obs.end && f(&go_obs.stdout) == f(&ref_obs.stdout),
        None => go_obs == ref_obs,
    };
    if !agree {
        let (stripped, changed) = strip_float_verb(&go_obs.stdout);
        let class = if changed && stripped == ref_obs.stdout && go_obs.end == ref_obs.end {
            "sem.float-verb".to_string()
        } else if go_obs.end != ref_obs.end {
            // stdout must still agree up to the trap point
            format!("sem.end:{}->{}", end_tag(&ref_obs.end), end_tag(&go_obs.end))
        } else {
            format!("sem.stdout:{}", classify_stdout(&ref_obs.stdout, &go_obs.stdout))
        };
        rep.tag(format!("disagree:{}", class));
        for p in opts.props_sem {
            rep.findings.push(Finding {
                property: p,
                class: class.clone(),
                site: site.to_string(),
                detail: format!("expected {:?}/{} got {:?}/{}", lossy(&ref_obs.stdout), end_tag(&ref_obs.end), lossy(&go_obs.stdout), end_tag(&go_obs.end)),
                replay: replay_base(json!({"stdout": lossy(&go_obs.stdout), "end": end_tag(&go_obs.end), "go_text": gr.text})),
            });
        }
    } else {
        rep.tag("agree");
        agree = true;
    }
    if rep.sample.is_none() {
        rep.sample = Some(json!({"site": site, "source": text, "stdout": lossy(&go_obs.stdout), "end": end_tag(&go_obs.end)}));
    }
    Some(DiffResult { compiled: true, go_ok: true, agree, go_obs: Some(go_obs), ref_obs })
}

pub fn describe_err(e: &compiler::pipeline::pipeline::CompilationError) -> (&'static str, String) {
    use compiler::pipeline::pipeline::CompilationError::*;
    let stage = match e {
        Parser { .. } => "parser",
        Lower { .. } => "lower",
        Typer { .. } => "typer",
        Compile { .. } => "compile",
    };
    let msg = e.diagnostics().iter().next().map(|d| d.message().to_string()).unwrap_or_default();
    (stage, msg)
}

/// strip gensym numbers / ids from a message so it can serve in a fingerprint
pub fn normalise_msg(m: &str) -> String {
    let mut out = String::new();
    let mut prev_digit = false;
    for c in m.chars().take(160) {
        if c.is_ascii_digit() {
            if !prev_digit {
                out.push('#');
            }
            prev_digit = true;
        } else {
            prev_digit = false;
            out.push(if c == '\n' { ' ' } else { c });
        }
    }
    out
}

/// `//// FILE <relative path>` starts another file of a project (the first part is main.gom):
/// write the files under a fresh directory and give back main.gom's path and text
pub fn materialize_text(ctx: &mut crate::drive::Ctx, text: &str) -> (std::path::PathBuf, String) {
    if !text.contains("//// FILE ") {
        return (ctx.scratch.single_path(), text.to_string());
    }
    let root = ctx.scratch.fresh_dir("multi");
    let mut parts = text.split("//// FILE ");
    let main_text = parts.next().unwrap_or("").to_string();
    for part in parts {
        let (rel, body) = part.split_once('\n').unwrap_or((part, ""));
        let p = root.join(rel.trim());
        std::fs::create_dir_all(p.parent().unwrap()).ok();
        std::fs::write(&p, body).ok();
    }
    let mp = root.join("main.gom");
    std::fs::write(&mp, &main_text).ok();
    (mp, main_text)
}

/// A program written as text with the lines it has to print: compile it, check the stage IRs, check
/// and run the Go. `sem` / `go` / `reject` name the properties a wrong output / invalid Go / a
/// rejection is reported under.
pub fn expect_text_program(ctx: &mut crate::drive::Ctx, rep: &mut Report, family: &str, case: &Value, site: &str, text: &str, expected: &str, sem: &[&'static str], go_props: &[&'static str], reject: &[&'static str]) {
    let replay = json!({"kind": "differential", "family": family, "case": case, "source": text, "expected": {"stdout": expected, "end": "ok"}});
    let (path, main_text) = materialize_text(ctx, text);
    let comp = match compile_at(&path, &main_text) {
        CompileOutcome::Ok(c) => c,
        CompileOutcome::Panic(m) => {
            let m = normalise_msg(&m);
            rep.tag("compile:panic");
            for p in reject.iter().chain(["C04"].iter()) {
                rep.findings.push(Finding { property: p, class: "compile.panic".into(), site: format!("{};msg={}", site, m), detail: m.clone(), replay: replay.clone() });
            }
            return;
        }
        CompileOutcome::Err(e) => {
            let (stage, msg) = describe_err(&e);
            rep.tag(format!("compile:rejected:{}", stage));
            for p in reject {
                rep.findings.push(Finding { property: p, class: format!("compile.rejected.{}", stage), site: format!("{};msg={}", site, normalise_msg(&msg)), detail: msg.clone(), replay: replay.clone() });
            }
            return;
        }
    };
    rep.tag("compile:ok");
    for (stage, msg) in crate::irck::check_all(&comp) {
        rep.tag(format!("irck:{}", stage));
        rep.findings.push(Finding { property: "C03", class: format!("irck.{}", stage), site: format!("{};msg={}", site, normalise_msg(&msg)), detail: msg, replay: replay.clone() });
    }
    let go = go_text(&comp).unwrap_or_default();
    drop(comp);
    match crate::projects::run_go(&go, FUEL) {
        Ok(o) if lossy(&o.stdout) == expected && o.end == NEnd::Ok => rep.tag("agree"),
        Ok(o) => {
            rep.tag("disagree");
            for p in sem {
                rep.findings.push(Finding { property: p, class: "sem.stdout".into(), site: site.to_string(), detail: format!("expected {:?} got {:?}/{}", expected, lossy(&o.stdout), end_tag(&o.end)), replay: json!({"kind": "differential", "family": family, "case": case, "source": text, "expected": {"stdout": expected, "end": "ok"}, "observed": {"stdout": lossy(&o.stdout), "end": end_tag(&o.end), "go_text": go}}) });
            }
        }
        Err(m) if m.starts_with("machinery") => rep.tag("machinery:go-unsupported"),
        Err(m) => {
            rep.tag("go:rejected");
            for p in go_props {
                rep.findings.push(Finding { property: p, class: m.split(':').next().unwrap_or("go.invalid").to_string(), site: format!("{};goerr={}", site, normalise_msg(&m)), detail: m.clone(), replay: replay.clone() });
            }
        }
    }
}

/// the same project through `build` of every package (dependencies first) and `link`
pub fn run_text_separate(ctx: &mut crate::drive::Ctx, text: &str) -> Result<Obs, (String, String)> {
    let mut parts = text.split("//// FILE ");
    let mut files = vec![("main.gom".to_string(), parts.next().unwrap_or("").to_string())];
    for part in parts {
        let (rel, body) = part.split_once('\n').unwrap_or((part, ""));
        files.push((rel.trim().to_string(), body.to_string()));
    }
    let proj = crate::projects::Project { name: "names".into(), files, expected_stdout: None };
    let root = ctx.scratch.fresh_dir("names-sep");
    let order: Vec<usize> = (0..proj.files.len()).collect();
    crate::projects::materialize(&root, &proj, &order);
    let pkgs = crate::projects::packages(&proj);
    let Some(topo) = crate::projects::topo_orders(&pkgs).into_iter().next() else {
        return Err(("machinery".into(), "no build order".into()));
    };
    let out = ctx.scratch.fresh_dir("names-out");
    match crate::projects::separate(&root, &out, &pkgs, &topo, false).built {
        crate::projects::Built::Ok { go } => {
            let gr = analyse_and_run(go, FUEL);
            match (&gr.verdict, &gr.run) {
                (GoVerdict::Ok(_), Some(r)) => Ok(obs_of_go(r)),
                (GoVerdict::Rejected(errs), _) => Err((format!("go.{}", errs[0].rule), format!("line {}: {}", errs[0].line, errs[0].msg))),
                (GoVerdict::Unsupported(m), _) => Err(("machinery.go-unsupported".into(), m.clone())),
                _ => Err(("machinery".into(), "no run".into())),
            }
        }
        crate::projects::Built::Err { stage, messages } => Err((format!("rejected.{}", stage), messages.join("; "))),
        crate::projects::Built::Panic(m) => Err(("compile.panic".into(), normalise_msg(&m))),
    }
}
