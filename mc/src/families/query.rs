//! C20: editor queries are crash-free on every text an editor sees while typing (prefixes and
//! single-token deletions of seed programs) at every cursor position, and agree with the compiler
//! on texts that compile (hover = declared type of the binder a use refers to; every offered
//! completion type-checks when inserted).

use crate::drive::*;
use crate::families::common::normalise_msg;
use crate::oracle::panic_message;
use compiler::query::{ColonColonCompletionKind, DotCompletionKind, colon_colon_completions, dot_completions, hover_type};
use serde_json::{Value, json};
use std::panic::{AssertUnwindSafe, catch_unwind};
use std::path::Path;

/// seed programs. `§` marks completion cursors (removed from the text). Binders named `v_<tag>` have
/// the declared type listed in `TYPED`.
pub const SEEDS: [&str; 11] = [
    // 0: structs, fields, inherent methods
    "struct Point { x: int32, y: int32 }\n\nimpl Point {\n    fn sum(self: Point) -> int32 { self.x + self.y }\n    fn scale(self: Point, k: int32) -> Point { Point { x: self.x * k, y: self.y * k } }\n}\n\nfn main() {\n    let v_point: Point = Point { x: 1, y: 2 };\n    let a = v_point.§x;\n    let b = v_point.sum();\n    let c = v_point.§scale(2);\n    string_println(int32_to_string(a + b + c.x))\n}\n",
    // 1: enums and colon-colon
    "enum Color { Red, Green, Rgb(int32, int32, int32) }\n\nfn pick(v_color: Color) -> int32 {\n    match v_color {\n        Color::Red => 1,\n        Color::Green => 2,\n        Color::Rgb(r, g, b) => r + g + b,\n    }\n}\n\nfn main() {\n    let c = Color::§Red;\n    let d = Color::§Rgb(1, 2, 3);\n    string_println(int32_to_string(pick(c) + pick(d)))\n}\n",
    // 2: closures, tuples, refs
    "fn main() {\n    let v_int: int32 = 5;\n    let v_pair: (int32, bool) = (v_int, true);\n    let v_fn: (int32) -> int32 = |q: int32| q + v_int;\n    let v_ref: Ref[int32] = ref(v_int);\n    let r = v_fn(v_pair.0) + ref_get(v_ref);\n    string_println(int32_to_string(r))\n}\n",
    // 3: generics
    "struct Box[T] { v: T }\n\nimpl[T] Box[T] {\n    fn get(self: Box[T]) -> T { self.v }\n}\n\nfn id[T](v_t: T) -> T { v_t }\n\nfn main() {\n    let v_box: Box[int32] = Box { v: 3 };\n    let v_str: string = id(\"s\");\n    let n = v_box.§get();\n    let m = v_box.§v;\n    string_println(v_str + int32_to_string(n + m))\n}\n",
    // 4: traits and dyn
    "trait Show { fn show(Self) -> string; }\n\nstruct A { n: int32 }\n\nimpl Show for A {\n    fn show(self: A) -> string { int32_to_string(self.n) }\n}\n\nfn render[T: Show](v_t: T) -> string { Show::show(v_t) }\n\nfn main() {\n    let v_a: A = A { n: 7 };\n    let other = A { n: 8 };\n    let v_dyn: dyn Show = other;\n    string_println(render(v_a) + Show::§show(v_dyn))\n}\n",
    // 5: vec / arrays / while
    "fn main() {\n    let v_vec: Vec[int32] = vec_new();\n    let v_vec2: Vec[int32] = vec_push(v_vec, 1);\n    let v_arr: [int32; 2] = [1, 2];\n    let v_cnt: Ref[int32] = ref(0);\n    while ref_get(v_cnt) < 2 {\n        ref_set(v_cnt, ref_get(v_cnt) + 1)\n    };\n    string_println(int32_to_string(vec_get(v_vec2, 0) + array_get(v_arr, 1)))\n}\n",
    // 6: nested struct fields
    "struct In { k: int32, s: string }\nstruct Out { inner: In, flag: bool }\n\nfn main() {\n    let v_out: Out = Out { inner: In { k: 1, s: \"x\" }, flag: true };\n    let a = v_out.§inner.§k;\n    let b = v_out.inner.§s;\n    string_println(b + int32_to_string(a))\n}\n",
    // 7: match with bindings and strings
    "enum Opt { None, Some(string) }\n\nfn show(v_opt: Opt) -> string {\n    match v_opt {\n        Opt::Some(v_inner) => v_inner,\n        Opt::None => \"none\",\n    }\n}\n\nfn main() {\n    string_println(show(Opt::§Some(\"a\")) + show(Opt::None))\n}\n",
    // 8: numeric widths
    "fn main() {\n    let v_i8: int8 = 1i8;\n    let v_u64: uint64 = 2u64;\n    let v_f64: float64 = 1.5;\n    let v_bool: bool = v_i8 < 2i8;\n    string_println(int8_to_string(v_i8) + uint64_to_string(v_u64) + float64_to_string(v_f64) + bool_to_string(v_bool))\n}\n",
    // 9: derive + to_string
    "#[derive(ToString)]\nstruct P { a: int32, b: bool }\n\nfn main() {\n    let v_p: P = P { a: 1, b: false };\n    string_println(v_p.§to_string())\n}\n",
    // 10: non-ASCII text (2-, 3- and 4-byte characters in a comment and in string literals): byte
    // columns inside a character are positions an editor can send
    "struct Q { name: string }\n\nfn main() {\n    // na\u{ef}ve \u{2603} \u{1F600} comment\n    let v_q: Q = Q { name: \"\u{e9}\u{2603}\u{1F600}\" };\n    let v_s: string = v_q.§name + \"\u{fc}\";\n    string_println(v_s)\n}\n",
];

/// programs for the totality check only: well-formed syntax, ill-formed *types* and declarations
/// (what an editor holds while a signature is being typed)
pub const TOTAL_EXTRA: [&str; 2] = [
    "struct Bx[T] { v: T }\n\nfn a[T](x: T[int32]) -> unit { let y = x.v; x.get() }\nfn b(x: int32[bool]) -> unit { x.v }\nfn c(x: Nope) -> unit { x.v }\nfn d(x: Nope[int32]) -> unit { x.v }\nfn e(x: Bx) -> unit { x.v }\nfn f(x: Bx[int32, bool]) -> unit { x.v }\nfn g(x: dyn Missing) -> unit { x.v }\nfn h[T](x: Bx[T[T]]) -> unit { x.v }\nfn i(x: [Nope; 2], y: Vec[T], z: Ref[Bx]) -> unit { x.v; y.v; z.v }\n\nfn main() {\n    let z: Nope[int32] = 1;\n    z.v;\n    Nope::thing;\n    Bx::v;\n    T::v\n}\n",
    "trait Tr { fn m(Self) -> int32; }\nstruct S { a: int32 }\nimpl Tr for Nope { fn m(self: Nope) -> int32 { self.a } }\nimpl Nope { fn k(self: Nope) -> int32 { self.a } }\nimpl Missing for S { fn m(self: S) -> int32 { self.a } }\nimpl S { fn new(a: int32) -> S { S { a: a } } fn get(self: S) -> int32 { self.a } }\nimpl S { fn get(self: S) -> int32 { 2 } }\nenum E { A(Nope), B(S[int32]) }\n\nfn main() {\n    let s = S::new(1);\n    s.get();\n    s.new(2);\n    let e = E::A(s);\n    match e { E::A(q) => q.a, E::B(r) => r.a };\n    let d: dyn Missing = s;\n    d.m();\n    Tr::m(s)\n}\n",
];

fn total_seed_text(i: usize) -> String {
    if i < SEEDS.len() { seed_text(i).0 } else { TOTAL_EXTRA[i - SEEDS.len()].to_string() }
}

/// declared types of the `v_*` binders (as the type printer renders them, spaces removed)
pub const TYPED: [(&str, &str); 29] = [
    ("v_q", "Q"),
    ("v_s", "string"),
    ("v_point", "Point"),
    ("v_color", "Color"),
    ("v_int", "int32"),
    ("v_pair", "(int32,bool)"),
    ("v_fn", "(int32)->int32"),
    ("v_ref", "Ref[int32]"),
    ("v_box", "Box[int32]"),
    ("v_str", "string"),
    ("v_a", "A"),
    ("v_dyn", "dynShow"),
    ("v_vec", "Vec[int32]"),
    ("v_vec2", "Vec[int32]"),
    ("v_arr", "[int32;2]"),
    ("v_cnt", "Ref[int32]"),
    ("v_out", "Out"),
    ("v_opt", "Opt"),
    ("v_inner", "string"),
    ("v_i8", "int8"),
    ("v_u64", "uint64"),
    ("v_f64", "float64"),
    ("v_bool", "bool"),
    ("v_p", "P"),
    ("v_t", "T"),
    ("v_x", "int32"),
    ("v_y", "int32"),
    ("v_z", "int32"),
    ("v_w", "int32"),
];

fn seed_text(i: usize) -> (String, Vec<usize>) {
    let raw = SEEDS[i];
    let mut text = String::new();
    let mut cursors = Vec::new();
    for ch in raw.chars() {
        if ch == '§' {
            cursors.push(text.len());
        } else {
            text.push(ch);
        }
    }
    (text, cursors)
}

fn line_col(text: &str, off: usize) -> (u32, u32) {
    let before = &text[..off];
    let line = before.matches('\n').count() as u32;
    let col = (off - before.rfind('\n').map(|i| i + 1).unwrap_or(0)) as u32;
    (line, col)
}

fn guarded<T>(f: impl FnOnce() -> T) -> Result<T, String> {
    catch_unwind(AssertUnwindSafe(f)).map_err(|p| normalise_msg(&panic_message(p)))
}

fn positions(text: &str, all: bool) -> Vec<(u32, u32)> {
    let lines: Vec<&str> = text.split('\n').collect();
    let mut v = Vec::new();
    for (li, l) in lines.iter().enumerate() {
        if all {
            for c in 0..=(l.len() as u32 + 2) {
                v.push((li as u32, c));
            }
        } else {
            // token boundaries ±1
            let toks = lexer::lex(l);
            let mut cols = std::collections::BTreeSet::new();
            cols.insert(0u32);
            cols.insert(l.len() as u32);
            cols.insert(l.len() as u32 + 1);
            for t in toks {
                let s: u32 = t.range.start().into();
                let e: u32 = t.range.end().into();
                for c in [s.saturating_sub(1), s, s + 1, e] {
                    cols.insert(c);
                }
                if !t.text.is_ascii() {
                    // every byte column of a token with multi-byte characters
                    for c in s..=e {
                        cols.insert(c);
                    }
                }
            }
            for c in cols {
                v.push((li as u32, c));
            }
        }
    }
    // columns past the end of a line that would be offsets inside the following lines
    for (li, l) in lines.iter().enumerate() {
        for k in [2u32, 3, 7, 11, 19] {
            v.push((li as u32, l.len() as u32 + k));
        }
    }
    let n = lines.len() as u32;
    v.push((n, 0));
    v.push((n + 1, 0));
    v.push((0, 100000));
    // the extremes of the coordinate type, on the first, a middle and the last line and past the end
    for line in [0, 1, n / 2, n.saturating_sub(1), n, u32::MAX - 1, u32::MAX] {
        for col in [u32::MAX - 1, u32::MAX, 1 << 31, (1 << 31) - 1] {
            v.push((line, col));
        }
    }
    for col in [0, 1] {
        v.push((u32::MAX, col));
        v.push((u32::MAX - 1, col));
    }
    v
}

pub struct QueryTotal;

impl Family for QueryTotal {
    fn name(&self) -> &'static str {
        "query-total"
    }
    fn serves(&self) -> &'static [&'static str] {
        &["C20"]
    }
    fn rule(&self) -> &'static str {
        "texts = every prefix at every char boundary (quick: every 4th) and every single-token deletion of 11 seed programs (one with 2-, 3- and 4-byte characters in a comment and in string literals) and of 2 programs with well-formed syntax and ill-formed types / declarations (a type parameter applied to arguments, wrong arities, unknown types and traits, impls for unknown types, duplicate methods); positions = every (line, byte col) incl. columns inside multi-byte characters, two columns past each line end and two lines past the end (quick: token boundaries ±1 and every byte column of tokens with non-ASCII text); requests = hover, dot-completion, colon-colon-completion; oracle = returns without panic within the cap; one case = one seed x mode x window of 40 texts; distinct = distinct (text, request) pairs that returned Some/Ok"
    }
    fn cases(&self, _tier: Tier) -> Box<dyn Iterator<Item = Value> + '_> {
        let mut v = Vec::new();
        for i in 0..SEEDS.len() + TOTAL_EXTRA.len() {
            let text = total_seed_text(i);
            let nb = text.chars().count() + 1;
            let mut lo = 0;
            while lo < nb {
                v.push(json!({"seed": i, "mode": "prefix", "lo": lo, "hi": (lo + 40).min(nb)}));
                lo += 40;
            }
            let nt = lexer::lex(&text).len();
            let mut lo = 0;
            while lo < nt {
                v.push(json!({"seed": i, "mode": "delete-token", "lo": lo, "hi": (lo + 40).min(nt)}));
                lo += 40;
            }
        }
        Box::new(v.into_iter())
    }
    fn case_timeout(&self, tier: Tier) -> u64 {
        match tier {
            Tier::Quick => 60,
            Tier::Thorough => 900,
        }
    }
    fn run(&self, case: &Value, ctx: &mut Ctx) -> Report {
        let mut rep = Report::default();
        let si = case["seed"].as_u64().unwrap() as usize;
        let text = total_seed_text(si);
        let mode = case["mode"].as_str().unwrap();
        let (lo, hi) = (case["lo"].as_u64().unwrap() as usize, case["hi"].as_u64().unwrap() as usize);
        let quick = ctx.tier == Tier::Quick;
        let mut texts: Vec<String> = Vec::new();
        if mode == "prefix" {
            let bounds: Vec<usize> = text.char_indices().map(|(i, _)| i).chain(std::iter::once(text.len())).collect();
            for (bi, b) in bounds.iter().enumerate() {
                if bi < lo || bi >= hi || (quick && bi % 4 != 0) {
                    continue;
                }
                texts.push(text[..*b].to_string());
            }
        } else {
            let toks = lexer::lex(&text);
            for (ti, t) in toks.iter().enumerate() {
                if ti < lo || ti >= hi || t.kind.is_trivia() {
                    continue;
                }
                let (s, e): (usize, usize) = (u32::from(t.range.start()) as usize, u32::from(t.range.end()) as usize);
                texts.push(format!("{}{}", &text[..s], &text[e..]));
            }
        }
        let path = Path::new("dummy");
        let mut queries = 0u64;
        let mut reported = std::collections::BTreeMap::<String, u32>::new();
        for t in &texts {
            let line_lens: Vec<u32> = t.split('\n').map(|l| l.len() as u32).collect();
            for (line, col) in positions(t, !quick) {
                // a column past the end of its line is no position of the next line: whatever is answered
                // there is what is answered at the end of the line (or nothing)
                if let Some(len) = line_lens.get(line as usize) {
                    if col > *len && (line as usize) + 1 < line_lens.len() {
                        queries += 1;
                        let far = guarded(|| hover_type(path, t, line, col).ok());
                        let end = guarded(|| hover_type(path, t, line, *len).ok());
                        if let (Ok(Some(f)), Ok(e)) = (&far, &end) {
                            if Some(f) != e.as_ref() {
                                let n = reported.entry("past-line-end".to_string()).or_insert(0);
                                *n += 1;
                                if *n <= 1 {
                                    rep.findings.push(Finding {
                                        property: "C20",
                                        class: "hover.column-past-line-end-answers-for-another-line".into(),
                                        site: "request=hover".into(),
                                        detail: format!("seed {} {} at {}:{} (the line has {} bytes): hover says {} but at the end of the line it says {:?}", si, mode, line, col, len, f, e),
                                        replay: json!({"kind": "query", "request": "hover", "text": t, "line": line, "col": col}),
                                    });
                                }
                            }
                        }
                    }
                }
                for req in ["hover", "dot", "colon"] {
                    queries += 1;
                    let r = match req {
                        "hover" => guarded(|| hover_type(path, t, line, col).is_ok()),
                        "dot" => guarded(|| dot_completions(path, t, line, col).map(|v| !v.is_empty()).unwrap_or(false)),
                        _ => guarded(|| colon_colon_completions(path, t, line, col).map(|v| !v.is_empty()).unwrap_or(false)),
                    };
                    match r {
                        Ok(true) => {
                            rep.more_keys.push(fnv(&format!("{}|{}|{}|{}", t, req, line, col)));
                        }
                        Ok(false) => {}
                        Err(msg) => {
                            let n = reported.entry(format!("{}|{}", req, msg)).or_insert(0);
                            *n += 1;
                            if *n <= 1 {
                                rep.findings.push(Finding {
                                    property: "C20",
                                    class: format!("query.panic.{}", req),
                                    site: format!("msg={}", msg),
                                    detail: format!("seed {} {} at {}:{}: {}", si, mode, line, col, msg),
                                    replay: json!({"kind": "query", "request": req, "text": t, "line": line, "col": col}),
                                });
                            }
                        }
                    }
                }
            }
        }
        rep.sub_evaluations = queries;
        rep.outcome = Some(format!("{}:{}:{}", si, mode, lo));
        rep.sample = Some(json!({"seed": si, "mode": mode, "window": [lo, hi], "texts": texts.len(), "queries": queries}));
        rep
    }
}

fn fnv(s: &str) -> u64 {
    let mut h: u64 = 0xcbf29ce484222325;
    for b in s.as_bytes() {
        h ^= *b as u64;
        h = h.wrapping_mul(0x100000001b3);
    }
    h
}

fn squash(s: &str) -> String {
    s.chars().filter(|c| !c.is_whitespace()).collect()
}

fn default_arg(ty: &str) -> Option<&'static str> {
    Some(match squash(ty).as_str() {
        "int32" => "0",
        "bool" => "true",
        "string" => "\"\"",
        "unit" => "()",
        "int8" => "0i8",
        _ => return None,
    })
}

/// split a pretty-printed function type `(A, B) -> C` into parameter types (top-level commas only)
fn fn_params(detail: &str) -> Option<Vec<String>> {
    let d = detail.trim();
    if !d.starts_with('(') {
        return None;
    }
    let mut depth = 0;
    let mut cur = String::new();
    let mut out = Vec::new();
    for (i, ch) in d.char_indices() {
        match ch {
            '(' | '[' => {
                depth += 1;
                if depth > 1 {
                    cur.push(ch);
                }
            }
            ')' | ']' => {
                depth -= 1;
                if depth == 0 {
                    if !cur.trim().is_empty() {
                        out.push(cur.trim().to_string());
                    }
                    let _ = i;
                    return Some(out);
                }
                cur.push(ch);
            }
            ',' if depth == 1 => {
                out.push(cur.trim().to_string());
                cur.clear();
            }
            _ => cur.push(ch),
        }
    }
    None
}

fn typechecks(text: &str) -> Result<(), String> {
    let r = catch_unwind(AssertUnwindSafe(|| compiler::pipeline::pipeline::typecheck_with_packages(Path::new("dummy"), text)));
    match r {
        Err(p) => Err(format!("panic: {}", panic_message(p))),
        Ok(Err(e)) => {
            let (stage, msg) = crate::families::common::describe_err(&e);
            Err(format!("{}: {}", stage, msg))
        }
        Ok(Ok((_, _, diags))) => {
            if diags.has_errors() {
                Err(format!("typer: {}", diags.iter().next().map(|d| d.message().to_string()).unwrap_or_default()))
            } else {
                Ok(())
            }
        }
    }
}

/// Projects for hover in a package of several files (every file has imports, so queries go
/// through the package-aware path). Binders `v_*` are annotated; the files are laid out so that the
/// same positions of two files hold binders of different types.
fn hover_projects() -> Vec<(&'static str, Vec<(&'static str, &'static str)>)> {
    vec![
        (
            "two-files-same-positions",
            vec![
                ("main.gom", "package Main\nimport Lib\n\nfn main() -> unit {\n    let v_a: int32 = Lib::one();\n    let v_b: bool = v_a > 0;\n    string_println(int32_to_string(v_a) + bool_to_string(v_b))\n}\n"),
                ("other.gom", "package Main\nimport Lib\n\nfn othr() -> unit {\n    let v_a: string = \"text\";\n    let v_b: int32 = Lib::one();\n    string_println(v_a + int32_to_string(v_b))\n}\n"),
                ("Lib/lib.gom", "package Lib\n\nfn one() -> int32 { 1 }\n"),
            ],
        ),
        (
            "three-files-and-a-library-of-two",
            vec![
                ("main.gom", "package Main\nimport Lib\n\nfn main() -> unit {\n    let v_p: Lib::P = Lib::mk(1);\n    let v_n: int32 = helper(v_p);\n    string_println(int32_to_string(v_n + util()))\n}\n"),
                ("help.gom", "package Main\nimport Lib\n\nfn helper(v_q: Lib::P) -> int32 {\n    let v_p: string = Lib::name();\n    let v_n: bool = true;\n    string_len(v_p) + Lib::geta(v_q)\n}\n"),
                ("util.gom", "package Main\nimport Lib\n\nfn util() -> int32 {\n    let v_p: (int32, bool) = (1, true);\n    let v_n: Vec[int32] = vec_new();\n    v_p.0 + vec_len(v_n)\n}\n"),
                ("Lib/a.gom", "package Lib\n\nstruct P { a: int32 }\nfn mk(k: int32) -> P {\n    let v_p: P = P { a: k };\n    v_p\n}\n"),
                ("Lib/b.gom", "package Lib\n\nfn geta(v_p: P) -> int32 {\n    let v_n: int32 = v_p.a;\n    v_n\n}\nfn name() -> string {\n    let v_s: string = \"n\";\n    v_s\n}\n"),
            ],
        ),
        (
            // no file of the package imports anything: the entry file still sees its sibling's items
            "two-files-no-imports",
            vec![
                ("main.gom", "package Main\n\nfn main() -> unit {\n    let v_u: string = side(3);\n    let w_u = side(4);\n    let v_l: Local = Local { k: true };\n    let w_l = Local { k: false };\n    let v_k: bool = v_l.k;\n    let w_k = w_l.k;\n    string_println(v_u + w_u + bool_to_string(v_k) + bool_to_string(w_k))\n}\n"),
                ("side.gom", "package Main\n\nstruct Local { k: bool }\nfn side(v_n: int32) -> string {\n    let v_l: int32 = v_n + 1;\n    int32_to_string(v_l)\n}\n"),
            ],
        ),
        (
            // closures at the same offsets in two files; their parameters have no annotation (`w_*`: every
            // occurrence of the name in a file must get one type)
            "closure-parameters-at-same-positions",
            vec![
                ("main.gom", "package Main\nimport Lib\n\nfn main() -> unit {\n    let v_f: (string) -> bool = |w_x| w_x == \"a\";\n    let v_b: bool = v_f(\"a\");\n    string_println(bool_to_string(v_b) + int32_to_string(Lib::one()))\n}\n"),
                ("othr.gom", "package Main\nimport Lib\n\nfn othr() -> unit {\n    let v_f: (int32) -> int32 = |w_x| w_x + 1111;\n    let v_b: int32 = v_f(2222);\n    string_println(int32_to_string(v_b) + int32_to_string(Lib::one()))\n}\n"),
                ("Lib/lib.gom", "package Lib\n\nfn one() -> int32 { 1 }\n"),
            ],
        ),
        (
            // a field of one name and two types, read at the same offsets in two files of the package
            "field-reads-at-same-positions",
            vec![
                ("main.gom", "package Main\n\nstruct Pa { v_q: uint32, pad: int32 }\nfn main() -> unit {\n    let v_p: Pa = Pa(111u32, 2);\n    let v_r: uint32 = v_p.v_q;\n    string_println(uint32_to_string(v_r))\n}\n"),
                ("othr.gom", "package Main\n\nstruct Pb { v_q: string, pad: int32 }\nfn othr() -> unit {\n    let v_p: Pb = Pb(\"abcd\", 2);\n    let v_r: string = v_p.v_q;\n    string_println(v_r)\n}\n"),
            ],
        ),
        (
            "closure-parameters-at-same-positions-no-imports",
            vec![
                ("main.gom", "package Main\n\nfn main() -> unit {\n    let v_f: (string) -> bool = |w_x| w_x == \"a\";\n    let v_b: bool = v_f(\"a\");\n    string_println(bool_to_string(v_b))\n}\n"),
                ("othr.gom", "package Main\n\nfn othr() -> unit {\n    let v_f: (int32) -> int32 = |w_x| w_x + 1111;\n    let v_b: int32 = v_f(2222);\n    string_println(int32_to_string(v_b))\n}\n"),
            ],
        ),
    ]
}

/// `let v_x: T =` / `(v_x: T` declarations of a file: name -> declared type (spaces removed)
fn declared_binders(text: &str) -> std::collections::BTreeMap<String, String> {
    let mut m = std::collections::BTreeMap::new();
    let bytes = text.as_bytes();
    let mut i = 0;
    while let Some(pos) = text[i..].find("v_") {
        let s = i + pos;
        let mut e = s;
        while e < bytes.len() && (bytes[e].is_ascii_alphanumeric() || bytes[e] == b'_') {
            e += 1;
        }
        let name = &text[s..e];
        let rest = &text[e..];
        if let Some(after) = rest.strip_prefix(": ") {
            // the annotation ends at ` =`, or at the `)` / `,` that closes a parameter
            let mut depth = 0i32;
            let mut end = after.len();
            for (k, c) in after.char_indices() {
                match c {
                    '(' | '[' => depth += 1,
                    ')' | ']' if depth > 0 => depth -= 1,
                    ')' | ',' if depth == 0 => {
                        end = k;
                        break;
                    }
                    '=' if depth == 0 => {
                        end = k;
                        break;
                    }
                    _ => {}
                }
            }
            m.entry(name.to_string()).or_insert_with(|| squash(after[..end].trim()));
        }
        i = e;
    }
    m
}

pub struct QueryAgree;

impl Family for QueryAgree {
    fn name(&self) -> &'static str {
        "query-agree"
    }
    fn serves(&self) -> &'static [&'static str] {
        &["C20"]
    }
    fn rule(&self) -> &'static str {
        "on the 11 complete seed programs: hover at every character of every occurrence of a `v_*` binder or use must report the binder's declared type; at every `x.`/`Path::` cursor each offered completion, inserted (methods with synthesised arguments), must type-check; 6 projects whose packages have several files (same binder names and positions, different types; a package none of whose files imports anything; closures at the same offsets in two files, with and without imports; a field of one name and two types read at the same offsets in two files): hover on every annotated binder and its uses in every file must report the file's own declaration, and every occurrence of an unannotated closure parameter in a file gets one type; distinct = distinct (seed, occurrence) / (seed, cursor, item)"
    }
    fn cases(&self, _tier: Tier) -> Box<dyn Iterator<Item = Value> + '_> {
        Box::new((0..SEEDS.len()).map(|i| json!({"seed": i})).chain((0..hover_projects().len()).map(|i| json!({"project": i}))))
    }
    fn run(&self, case: &Value, _ctx: &mut Ctx) -> Report {
        let mut rep = Report::default();
        if let Some(pi) = case["project"].as_u64() {
            // hover in every file of every package of a project laid out on disk
            let (pname, files) = hover_projects()[pi as usize].clone();
            let root = _ctx.scratch.fresh_dir("hoverproj");
            for (rel, text) in &files {
                let p = root.join(rel);
                std::fs::create_dir_all(p.parent().unwrap()).ok();
                std::fs::write(&p, text).ok();
            }
            let mut checks = 0u64;
            for (rel, text) in &files {
                let path = root.join(rel);
                let declared = declared_binders(text);
                for t in lexer::lex(text) {
                    let Some(want) = declared.get(t.text) else { continue };
                    let (s, e): (usize, usize) = (u32::from(t.range.start()) as usize, u32::from(t.range.end()) as usize);
                    // the declaration of a struct's field is neither an expression nor a binder
                    let line_start = text[..s].rfind('\n').map(|i| i + 1).unwrap_or(0);
                    if text[line_start..].starts_with("struct ") {
                        continue;
                    }
                    for off in s..e {
                        let (line, col) = line_col(text, off);
                        checks += 1;
                        let got = match guarded(|| hover_type(&path, text, line, col)) {
                            Ok(Ok(s)) => squash(&s),
                            Ok(Err(e)) => format!("<err:{}>", e),
                            Err(p) => format!("<panic:{}>", p),
                        };
                        rep.more_keys.push(fnv(&format!("{}|{}|hover|{}", pname, rel, off)));
                        // a path-qualified type may be printed with or without its package
                        let same = got == *want || want.rsplit("::").next() == Some(got.as_str()) || got.rsplit("::").next() == Some(want.as_str());
                        if !same {
                            rep.findings.push(Finding {
                                property: "C20",
                                class: if got.starts_with("<panic") { "query.panic.hover".into() } else { "hover.type-differs".into() },
                                site: format!("project={};file={};binder={};want={};got={}", pname, rel, t.text, want, got),
                                detail: format!("project {} file {} hover at {}:{} on `{}`: declared {} but hover says {}", pname, rel, line, col, t.text, want, got),
                                replay: json!({"kind": "query-project", "files": files, "file": rel, "line": line, "col": col, "expected": want}),
                            });
                            break;
                        }
                    }
                }
            }
            // binders without an annotation (`w_*`): every occurrence of the name in a file gets one type,
            // and a type, not an unsolved variable
            for (rel, text) in &files {
                let path = root.join(rel);
                let mut seen: std::collections::BTreeMap<String, Vec<(u32, u32, String)>> = std::collections::BTreeMap::new();
                for t in lexer::lex(text) {
                    if !t.text.starts_with("w_") {
                        continue;
                    }
                    let (line, col) = line_col(text, u32::from(t.range.start()) as usize);
                    checks += 1;
                    let got = match guarded(|| hover_type(&path, text, line, col)) {
                        Ok(Ok(s)) => squash(&s),
                        Ok(Err(e)) => format!("<err:{}>", e),
                        Err(p) => format!("<panic:{}>", p),
                    };
                    seen.entry(t.text.to_string()).or_default().push((line, col, got));
                }
                for (name, occ) in seen {
                    let first = occ[0].2.clone();
                    if let Some((line, col, got)) = occ.iter().find(|(_, _, g)| *g != first || g.contains("TypeVar") || g.starts_with('<')) {
                        rep.findings.push(Finding {
                            property: "C20",
                            class: if got.starts_with("<panic") { "query.panic.hover".into() } else { "hover.binder-and-use-disagree".into() },
                            site: format!("project={};file={};binder={}", pname, rel, name),
                            detail: format!("project {} file {}: hover on the occurrences of `{}` says {:?} (occurrence at {}:{} says {})", pname, rel, name, occ.iter().map(|o| o.2.clone()).collect::<Vec<_>>(), line, col, got),
                            replay: json!({"kind": "query-project", "files": files, "file": rel, "line": line, "col": col, "expected": first}),
                        });
                    }
                }
            }
            rep.sub_evaluations = checks;
            rep.outcome = Some(format!("project:{}", pname));
            return rep;
        }
        let si = case["seed"].as_u64().unwrap() as usize;
        let (text, cursors) = seed_text(si);
        let path = Path::new("dummy");
        if let Err(e) = typechecks(&text) {
            rep.tag("machinery:seed-does-not-typecheck");
            rep.sample = Some(json!({"seed": si, "error": e}));
            return rep;
        }
        let mut checks = 0u64;
        // hover on every occurrence of a typed binder
        let toks = lexer::lex(&text);
        for t in &toks {
            if let Some((_, want)) = TYPED.iter().find(|(n, _)| *n == t.text) {
                let (s, e): (usize, usize) = (u32::from(t.range.start()) as usize, u32::from(t.range.end()) as usize);
                for off in s..e {
                    let (line, col) = line_col(&text, off);
                    checks += 1;
                    let r = guarded(|| hover_type(path, &text, line, col));
                    let got = match r {
                        Ok(Ok(s)) => squash(&s),
                        Ok(Err(e)) => format!("<err:{}>", e),
                        Err(p) => format!("<panic:{}>", p),
                    };
                    rep.more_keys.push(fnv(&format!("{}|hover|{}", si, off)));
                    if got != *want {
                        rep.findings.push(Finding {
                            property: "C20",
                            class: "hover.type-differs".into(),
                            site: format!("binder={};want={};got={}", t.text, want, got),
                            detail: format!("seed {} hover at {}:{} on `{}`: expected {} got {}", si, line, col, t.text, want, got),
                            replay: json!({"kind": "query", "request": "hover", "text": text, "line": line, "col": col, "expected": want}),
                        });
                        break;
                    }
                }
            }
        }
        // completions
        for cur in cursors {
            let (line, col) = line_col(&text, cur);
            let before = &text[..cur];
            if before.ends_with('.') {
                // drop the rest of the identifier after the cursor so the prefix is empty
                let rest_start = cur + text[cur..].find(|c: char| !(c.is_alphanumeric() || c == '_')).unwrap_or(0);
                let mut tail = &text[rest_start..];
                // drop an argument list that belonged to the removed member
                if tail.starts_with('(') {
                    let close = tail.find(')').unwrap_or(0);
                    tail = &tail[close + 1..];
                }
                let base = format!("{}{}", before, tail);
                let r = guarded(|| dot_completions(path, &base, line, col));
                let items = match r {
                    Ok(Some(v)) => v,
                    Ok(None) => {
                        rep.findings.push(Finding {
                            property: "C20",
                            class: "completion.none".into(),
                            site: format!("seed={};dot", si),
                            detail: format!("no dot completions at {}:{} of seed {}", line, col, si),
                            replay: json!({"kind": "query", "request": "dot", "text": base, "line": line, "col": col}),
                        });
                        continue;
                    }
                    Err(p) => {
                        rep.findings.push(Finding {
                            property: "C20",
                            class: "query.panic.dot".into(),
                            site: format!("msg={}", p),
                            detail: p,
                            replay: json!({"kind": "query", "request": "dot", "text": base, "line": line, "col": col}),
                        });
                        continue;
                    }
                };
                rep.tag(format!("dot-items:{}", items.len()));
                for it in items {
                    checks += 1;
                    let ins = match it.kind {
                        DotCompletionKind::Field => it.name.clone(),
                        DotCompletionKind::Method => {
                            let params = it.detail.as_deref().and_then(fn_params).unwrap_or_default();
                            let args: Option<Vec<&str>> = params.iter().skip(1).map(|p| default_arg(p)).collect();
                            match args {
                                Some(a) => format!("{}({})", it.name, a.join(", ")),
                                None => {
                                    rep.tag("completion-skipped:arg-synthesis");
                                    continue;
                                }
                            }
                        }
                    };
                    // the completed member replaces the rest of the statement: `let _probe = <recv>.<ins>;`
                    let stmt_start = before.rfind(['=', '(', '{', ';', '+']).map(|i| i + 1).unwrap_or(0);
                    let recv = before[stmt_start..].trim();
                    let line_start = before.rfind('\n').map(|i| i + 1).unwrap_or(0);
                    let candidate = format!("{}    let _probe = {}{};\n{}", &text[..line_start], recv, ins, &text[line_start..]).replace("let _probe", "let probe0");
                    rep.more_keys.push(fnv(&format!("{}|dot|{}|{}", si, cur, it.name)));
                    if let Err(e) = typechecks(&candidate) {
                        rep.findings.push(Finding {
                            property: "C20",
                            class: "completion.does-not-typecheck".into(),
                            site: format!("seed={};item={}", si, it.name),
                            detail: format!("offered `{}` after `{}` but `{}{}` fails: {}", it.name, recv, recv, ins, e),
                            replay: json!({"kind": "text-typecheck", "text": candidate}),
                        });
                    }
                }
            } else if before.ends_with("::") {
                let rest_start = cur + text[cur..].find(|c: char| !(c.is_alphanumeric() || c == '_')).unwrap_or(0);
                let base = format!("{}{}", before, &text[rest_start..]);
                let r = guarded(|| colon_colon_completions(path, &base, line, col));
                let items = match r {
                    Ok(Some(v)) => v,
                    Ok(None) => {
                        rep.tag("colon-none");
                        continue;
                    }
                    Err(p) => {
                        rep.findings.push(Finding {
                            property: "C20",
                            class: "query.panic.colon".into(),
                            site: format!("msg={}", p),
                            detail: p,
                            replay: json!({"kind": "query", "request": "colon", "text": base, "line": line, "col": col}),
                        });
                        continue;
                    }
                };
                rep.tag(format!("colon-items:{}", items.len()));
                let ns_start = before[..before.len() - 2].rfind(|c: char| !(c.is_alphanumeric() || c == '_' || c == ':')).map(|i| i + 1).unwrap_or(0);
                let ns = &before[ns_start..before.len() - 2];
                for it in items {
                    checks += 1;
                    rep.more_keys.push(fnv(&format!("{}|colon|{}|{}", si, cur, it.name)));
                    // resolution check: `let probe0 = Ns::item;` must not produce an unresolved-name error
                    let line_start = before.rfind('\n').map(|i| i + 1).unwrap_or(0);
                    let probe = match it.kind {
                        ColonColonCompletionKind::Type | ColonColonCompletionKind::Trait => continue,
                        _ => format!("{}    let probe0 = {}::{};\n{}", &text[..line_start], ns, it.name, &text[line_start..]),
                    };
                    if let Err(e) = typechecks(&probe) {
                        let el = e.to_lowercase();
                        if el.contains("unresolved") || el.contains("not found") || el.contains("unknown") || el.starts_with("panic") {
                            rep.findings.push(Finding {
                                property: "C20",
                                class: "completion.does-not-resolve".into(),
                                site: format!("seed={};item={}", si, it.name),
                                detail: format!("offered `{}::{}` but it does not resolve: {}", ns, it.name, e),
                                replay: json!({"kind": "text-typecheck", "text": probe}),
                            });
                        }
                    }
                }
            }
        }
        rep.sub_evaluations = checks.max(1);
        rep.outcome = Some(format!("seed{}", si));
        rep.sample = Some(json!({"seed": si, "checks": checks}));
        rep
    }
}

// ------------------------------------------------------------------ hover vs the typed tree

/// every identifier use the typed tree knows (a variable / function reference with its source range)
fn collect_vars(e: &compiler::tast::Expr, out: &mut Vec<(usize, usize, String)>) {
    use compiler::tast::Expr as X;
    match e {
        X::EVar { ty, astptr, .. } => {
            if let Some(p) = astptr {
                let r = p.text_range();
                out.push((u32::from(r.start()) as usize, u32::from(r.end()) as usize, ty.to_pretty(80)));
            }
        }
        X::EPrim { .. } | X::ETraitMethod { .. } | X::EDynTraitMethod { .. } | X::EInherentMethod { .. } => {}
        X::EConstr { args, .. } => args.iter().for_each(|a| collect_vars(a, out)),
        X::ETuple { items, .. } | X::EArray { items, .. } => items.iter().for_each(|a| collect_vars(a, out)),
        X::EClosure { params, body, .. } => {
            // binders: closure parameters
            for p in params {
                if let Some(ptr) = &p.astptr {
                    let r = ptr.text_range();
                    out.push((u32::from(r.start()) as usize, u32::from(r.end()) as usize, p.ty.to_pretty(80)));
                }
            }
            collect_vars(body, out)
        }
        X::ELet { pat, value, .. } => {
            collect_pat_binders(pat, out);
            collect_vars(value, out)
        }
        X::EBlock { exprs, .. } => exprs.iter().for_each(|a| collect_vars(a, out)),
        X::EMatch { expr, arms, .. } => {
            collect_vars(expr, out);
            arms.iter().for_each(|a| {
                collect_pat_binders(&a.pat, out);
                collect_vars(&a.body, out)
            });
        }
        X::EIf { cond, then_branch, else_branch, .. } => {
            collect_vars(cond, out);
            collect_vars(then_branch, out);
            collect_vars(else_branch, out);
        }
        X::EWhile { cond, body, .. } => {
            collect_vars(cond, out);
            collect_vars(body, out);
        }
        X::EGo { expr, .. } | X::EUnary { expr, .. } | X::EToDyn { expr, .. } | X::EField { expr, .. } => collect_vars(expr, out),
        X::EProj { tuple, .. } => collect_vars(tuple, out),
        X::ECall { func, args, .. } => {
            collect_vars(func, out);
            args.iter().for_each(|a| collect_vars(a, out));
        }
        X::EBinary { lhs, rhs, .. } => {
            collect_vars(lhs, out);
            collect_vars(rhs, out);
        }
    }
}

/// binders: every pattern variable with a source range
fn collect_pat_binders(p: &compiler::tast::Pat, out: &mut Vec<(usize, usize, String)>) {
    use compiler::tast::Pat as P;
    match p {
        P::PVar { ty, astptr, .. } => {
            if let Some(ptr) = astptr {
                let r = ptr.text_range();
                out.push((u32::from(r.start()) as usize, u32::from(r.end()) as usize, ty.to_pretty(80)));
            }
        }
        P::PConstr { args, .. } => args.iter().for_each(|a| collect_pat_binders(a, out)),
        P::PTuple { items, .. } => items.iter().for_each(|a| collect_pat_binders(a, out)),
        P::PPrim { .. } | P::PWild { .. } => {}
    }
}

/// extra programs for the hover oracle: names that mean different things in different name spaces
pub const HOVER_EXTRA: [&str; 4] = [
    // binders in every pattern form: shorthand and renaming struct-pattern fields, tuple and constructor
    // patterns, nested; closure parameters with and without annotation
    "struct Point { x: int32, y: string }\nenum Opt { Non, Som((int32, string)) }\n\nfn main() {\n    let p = Point { x: 1, y: \"s\" };\n    let Point { x, y } = p;\n    let Point { x: px, y: py } = p;\n    let (a, b) = (x, y);\n    let o = Opt::Som((px, py));\n    let r = match o {\n        Opt::Som((n, t)) => t + int32_to_string(n),\n        Opt::Non => b,\n    };\n    let q = match p {\n        Point { x, y: label } => label + int32_to_string(x + a),\n    };\n    let f = |u: int32, w| w + int32_to_string(u);\n    string_println(r + q + f(1, \"k\"))\n}\n",
    // callees and receivers under prefix operators
    "struct Flag { on: bool }\nimpl Flag { fn has(self: Flag, k: int32) -> bool { self.on } }\nfn f(a: int32) -> int32 { a }\nfn g(a: int32) -> bool { a > 0 }\n\nfn main() {\n    let fl = Flag { on: true };\n    let z = -f(1);\n    let n = !g(2);\n    let m = !fl.has(1);\n    let w = - f(f(3));\n    string_println(int32_to_string(z + w) + bool_to_string(n) + bool_to_string(m))\n}\n",
    // locals and fields spelled like functions; a generic function referenced at two instances
    "struct Buf { size: int64, len: int32 }\n\nfn len(s: string) -> int32 { 3 }\nfn size(b: Buf) -> int64 { b.size }\nfn id[T](x: T) -> T { x }\nfn twice(f: (int32) -> int32, x: int32) -> int32 { f(f(x)) }\nfn inc(x: int32) -> int32 { x + 1 }\n\nfn main() {\n    let buf = Buf { size: 2i64, len: 1 };\n    let l0 = len(\"x\");\n    let s0 = size(buf);\n    let len = 5;\n    let b = len + 1;\n    let size = buf.len;\n    let s = size + buf.len;\n    let k = id(1);\n    let t = id(\"s\");\n    let inc2 = twice(inc, 1);\n    let id2 = |id: int32| id + len;\n    string_println(t + int32_to_string(b + s + k + inc2 + id2(1) + l0) + int64_to_string(s0))\n}\n",
    // the same name bound at several depths with different types
    "enum Opt { Non, Som(int32) }\n\nfn pick(x: string) -> int32 {\n    let x = string_len(x);\n    let r = match Opt::Som(x) {\n        Opt::Som(x) => {\n            let x = x > 0;\n            if x { 1 } else { 0 }\n        },\n        Opt::Non => x,\n    };\n    let f = |x: bool| if x { r } else { 0 };\n    f(x > 1) + x\n}\n\nfn main() {\n    string_println(int32_to_string(pick(\"ab\")))\n}\n",
];

pub struct HoverAll;

/// programs in which one word names many things that are not functions
const NAMED_THINGS: [&str; 3] = [
    "struct Rec { size: int32, other: bool }\nenum Kind { size, Other(int32) }\ntrait Sized { fn size(Self) -> int32; }\nimpl Sized for Rec { fn size(self: Rec) -> int32 { self.size } }\n// the size of a Rec is its size field\nfn flip(size: bool) -> bool { !size }\nfn main() {\n    let r = Rec { size: 1, other: true };\n    let t = r.size;\n    let label = \"size\";\n    let Rec { size: w, other: o } = r;\n    let k = Kind::size;\n    string_println(label + int32_to_string(t + w))\n}\n",
    "struct total[T] { total: T }\nimpl[T] total[T] { fn total(self: total[T]) -> T { self.total } }\nfn main() {\n    // total\n    let b = total { total: 2 };\n    string_println(int32_to_string(b.total()))\n}\n",
    "enum Tree { leaf, node(int32) }\nfn depth(t: Tree) -> int32 { match t { Tree::leaf => 0, Tree::node(deep) => deep } }\nfn main() {\n    let nodes = depth(Tree::node(3)); // node, leaf, deep\n    string_println(int32_to_string(nodes))\n}\n",
];

/// programs whose parameters are written with `Self`, generic parameters, function types: a hover on the
/// parameter's name in the parameter list says what a hover on its use in the body says
const PARAMETER_PROGRAMS: [&str; 5] = [
    // the types are spelled unlike the way the compiler prints them: odd spacing, Self inside another type, nested parentheses
    "struct Pq { a: int32 }\nimpl Pq { fn merge(self: Self, others: Vec[Self], k : ( int32 ,bool ), cell: Ref[ Self ]) -> int32 { let o = others; let kk = k; let c = cell; self.a + kk.0 } fn twin(self: Pq, pair: (Self, Self)) -> int32 { let p = pair; self.a } }\nfn spaced(a :int32 , b: ( string , ( bool,int8 ) ), f: ( int32 )->int32) -> int32 { let x = a; let y = b; let g = f; x }\nfn main() {\n    let p = Pq { a: 1 };\n    let v: Vec[Pq] = vec_new();\n    string_println(int32_to_string(p.merge(v, (1, true), ref(p)) + p.twin((p, p)) + spaced(1, (\"s\", (true, 1i8)), |q: int32| q)));\n}\n",
    // generic parameters and closures with spelled-out types
    "struct Bq[T] { v: T }\nimpl[T] Bq[T] { fn both(self: Self, other: Bq[ T ], items: Vec[ Bq[T] ]) -> T { let o = other; let i = items; self.v } }\nfn main() {\n    let b = Bq { v: 1 };\n    let l: Vec[Bq[int32]] = vec_new();\n    let c = |m : ( int32 ,int32 ), n: Bq[ int32 ]| { let mm = m; let nn = n; mm.0 };\n    string_println(int32_to_string(b.both(b, l) + c((1, 2), b)));\n}\n",
    "trait Show { fn show(Self) -> string; fn twice(Self, int32) -> string; }\nstruct Wq { k: int32 }\nimpl Show for int32 { fn show(self: Self) -> string { int32_to_string(self) } fn twice(self: Self, times: int32) -> string { int32_to_string(self * times) } }\nimpl Show for Wq { fn show(self: Self) -> string { int32_to_string(self.k) } fn twice(self: Wq, times: int32) -> string { int32_to_string(self.k * times) } }\nimpl Wq { fn get(self: Self) -> int32 { self.k } fn add(self: Self, more: int32) -> Wq { Wq { k: self.k + more } } }\nfn main() {\n    let w = Wq { k: 2 };\n    string_println(Show::show(3) + Show::twice(w, 2) + int32_to_string(Wq::get(w.add(1))))\n}\n",
    "struct Bx[T] { v: T }\nimpl[T] Bx[T] { fn take(self: Self) -> T { self.v } fn put(self: Bx[T], item: T) -> Bx[T] { Bx { v: item } } }\nfn first[A, B](left: A, right: B) -> A { let unused = right; left }\nfn apply(step: (int32) -> int32, start: int32) -> int32 { step(start) }\nfn inc(n: int32) -> int32 { n + 1 }\nfn main() {\n    let b = Bx { v: 1 };\n    string_println(int32_to_string(Bx::take(b.put(5)) + first(1, \"s\") + apply(inc, 2)))\n}\n",
    "enum Opt[T] { Non, Som(T) }\nimpl[T] Opt[T] { fn or(self: Self, other: T) -> T { match self { Opt::Som(held) => held, Opt::Non => other } } }\nfn pair(both: (int32, string), cell: Ref[bool], list: Vec[int8], grid: [int32; 2]) -> int32 { let b = both; let c = cell; let l = list; let g = grid; b.0 }\nfn main() {\n    let o: Opt[int32] = Opt::Som(1);\n    string_println(int32_to_string(o.or(2) + pair((1, \"s\"), ref(true), vec_new(), [1, 2])))\n}\n",
];

fn run_parameter_binders(i: usize, ctx: &mut Ctx, rep: &mut Report) {
    let text = PARAMETER_PROGRAMS[i];
    let name = format!("parameters{}", i);
    let path = ctx.scratch.single_path();
    if !matches!(crate::oracle::compile_at(&path, text), crate::oracle::CompileOutcome::Ok(_)) {
        rep.tag("machinery:program-does-not-compile");
        rep.sample = Some(json!({"program": name}));
        return;
    }
    let toks: Vec<(String, usize, bool)> = lexer::lex(text).iter().filter(|t| !t.kind.is_trivia()).map(|t| (t.text.to_string(), u32::from(t.range.start()) as usize, t.text.chars().next().is_some_and(|c| c.is_ascii_alphabetic()) )).collect();
    let ask = |off: usize| {
        let (line, col) = line_col(text, off);
        match guarded(|| hover_type(&path, text, line, col)) {
            Ok(Ok(t)) => squash(&t),
            Ok(Err(_)) => "<nothing>".to_string(),
            Err(p) => format!("<panic:{}>", p),
        }
    };
    let mut checked = 0u64;
    let mut k = 0;
    while k < toks.len() {
        if toks[k].0 != "fn" {
            k += 1;
            continue;
        }
        // fn name [generics] ( params ) ... { body }
        let mut j = k + 2;
        if j < toks.len() && toks[j].0 == "[" {
            while j < toks.len() && toks[j].0 != "]" {
                j += 1;
            }
            j += 1;
        }
        if j >= toks.len() || toks[j].0 != "(" {
            k += 1;
            continue;
        }
        let mut depth = 0i32;
        let mut params: Vec<(String, usize)> = Vec::new();
        let mut m = j;
        while m < toks.len() {
            match toks[m].0.as_str() {
                "(" | "[" => depth += 1,
                ")" | "]" => {
                    depth -= 1;
                    if depth == 0 {
                        break;
                    }
                }
                _ => {
                    if depth == 1 && toks[m].2 && m + 1 < toks.len() && toks[m + 1].0 == ":" && matches!(toks[m - 1].0.as_str(), "(" | ",") {
                        params.push((toks[m].0.clone(), toks[m].1));
                    }
                }
            }
            m += 1;
        }
        // the body ends where the next `fn` begins (the programs do not nest functions)
        let body_end = toks.iter().skip(m).position(|t| t.0 == "fn").map(|p| p + m).unwrap_or(toks.len());
        for (pname, poff) in params {
            let Some(use_tok) = toks[m..body_end].iter().find(|t| t.0 == pname) else { continue };
            for off in poff..poff + pname.len() {
                checked += 1;
                let (at_binder, at_use) = (ask(off), ask(use_tok.1));
                rep.more_keys.push(fnv(&format!("{}|{}", name, off)));
                if at_binder != at_use {
                    let (line, col) = line_col(text, off);
                    rep.findings.push(Finding {
                        property: "C20",
                        class: "hover.parameter-differs-from-its-use".into(),
                        site: format!("program={};parameter={};binder={};use={}", name, pname, at_binder, at_use),
                        detail: format!("{} hover at {}:{} on the parameter `{}` says {} but on its use in the body {}", name, line, col, pname, at_binder, at_use),
                        replay: json!({"kind": "query", "request": "hover", "text": text, "line": line, "col": col, "expected": at_use}),
                    });
                    break;
                }
            }
        }
        k = m;
    }
    rep.sub_evaluations = checked;
    rep.outcome = Some(format!("parameter-binders:{}:{}", name, rep.findings.len()));
}

/// adding a function nobody calls changes no answer: hover at every offset of every word, before
/// and after a function of that name (and of a type nothing else has) is appended to the file
fn run_unrelated_function(i: usize, ctx: &mut Ctx, rep: &mut Report) {
    let (name, text): (String, String) = if i < SEEDS.len() {
        (format!("seed{}", i), seed_text(i).0)
    } else if i < SEEDS.len() + HOVER_EXTRA.len() {
        (format!("extra{}", i - SEEDS.len()), HOVER_EXTRA[i - SEEDS.len()].to_string())
    } else {
        (format!("named-things{}", i - SEEDS.len() - HOVER_EXTRA.len()), NAMED_THINGS[i - SEEDS.len() - HOVER_EXTRA.len()].to_string())
    };
    if text.contains("\nimport ") || text.starts_with("import ") {
        rep.tag("inapplicable:imports");
        return;
    }
    let path = ctx.scratch.single_path();
    let comp = match crate::oracle::compile_at(&path, &text) {
        crate::oracle::CompileOutcome::Ok(c) => c,
        _ => {
            rep.tag("machinery:program-does-not-compile");
            rep.sample = Some(json!({"program": name}));
            return;
        }
    };
    let functions: std::collections::BTreeSet<String> = comp.tast.toplevels.iter().filter_map(|it| if let compiler::tast::Item::Fn(f) = it { Some(f.name.clone()) } else { None }).collect();
    drop(comp);
    // every word of the text (identifiers, and the words inside comments and strings) with its offsets
    let mut words: std::collections::BTreeMap<String, Vec<usize>> = std::collections::BTreeMap::new();
    let bytes = text.as_bytes();
    let mut k = 0;
    while k < bytes.len() {
        if bytes[k].is_ascii_alphabetic() {
            let s0 = k;
            while k < bytes.len() && (bytes[k].is_ascii_alphanumeric() || bytes[k] == b'_') {
                k += 1;
            }
            words.entry(text[s0..k].to_string()).or_default().push(s0);
        } else {
            k += 1;
        }
    }
    const KEYWORDS: [&str; 30] = ["fn", "let", "struct", "enum", "trait", "impl", "match", "if", "else", "while", "true", "false", "for", "in", "go", "return", "package", "import", "extern", "dyn", "Self", "self", "type", "array", "int32", "string", "bool", "unit", "int64", "main"];
    let mut checked = 0u64;
    let mut reported = std::collections::BTreeSet::new();
    for (word, offsets) in &words {
        if KEYWORDS.contains(&word.as_str()) || functions.contains(word) {
            continue;
        }
        let with_fn = format!("{}\nfn {}(only_here: string, and_here: string, last_one: string) -> string {{ only_here }}\n", text, word);
        // the appended function must leave the program valid (a word that is a variant, say, may not)
        if !matches!(crate::oracle::compile_at(&path, &with_fn), crate::oracle::CompileOutcome::Ok(_)) {
            rep.tag("unrelated-function:name-not-free");
            continue;
        }
        for s0 in offsets {
            for off in *s0..*s0 + word.len() {
                let (line, col) = line_col(&text, off);
                checked += 1;
                let ask = |t: &str| match guarded(|| hover_type(&path, t, line, col)) {
                    Ok(Ok(t)) => squash(&t),
                    Ok(Err(_)) => "<nothing>".to_string(),
                    Err(p) => format!("<panic:{}>", p),
                };
                let (before, after) = (ask(&text), ask(&with_fn));
                if before != after && reported.insert((word.clone(), before.clone(), after.clone())) {
                    rep.findings.push(Finding {
                        property: "C20",
                        class: "hover.answers-with-an-unrelated-function".into(),
                        site: format!("program={};word={};before={};after={}", name, word, before, after),
                        detail: format!("{} hover at {}:{} on `{}` says {} and, once an uncalled function of that name is appended, {}", name, line, col, word, before, after),
                        replay: json!({"kind": "query", "request": "hover", "text": with_fn, "line": line, "col": col, "expected": before}),
                    });
                }
            }
        }
    }
    rep.sub_evaluations = checked;
    rep.outcome = Some(format!("unrelated-function:{}:{}", name, rep.findings.len()));
}

impl Family for HoverAll {
    fn name(&self) -> &'static str {
        "hover-all"
    }
    fn serves(&self) -> &'static [&'static str] {
        &["C20"]
    }
    fn rule(&self) -> &'static str {
        "programs = the 11 query seed programs + 4 extra programs (binders in every pattern form incl. shorthand struct-pattern fields; callees and receivers under prefix operators; one spelling naming a local, a field, a function and a closure parameter) + the 74 corpus programs; for every identifier use and every binder (pattern variable, closure parameter) that the compiler's typed tree records with a source range (variables, parameters, function references, generic functions at each instance) and every byte offset inside it: hover must report exactly the type the typed tree assigns to that use. plus, on the seed and extra programs and 3 programs in which one word names a field, a variant, a trait method, a parameter, a type and stands in comments and strings: for every word of the text that is not a function and every offset inside each of its occurrences, the answer is the same before and after an uncalled function of that name is appended to the file; on 3 programs with parameters written `Self`, with type parameters, function, tuple, Ref, Vec and array types: a hover on the parameter in the parameter list says what a hover on its use in the body says. non-trivial = uses whose spelling is also the name of a top-level function, a field or another binder of a different type; distinct = distinct (program, offset)"
    }
    fn cases(&self, _tier: Tier) -> Box<dyn Iterator<Item = Value> + '_> {
        let n = SEEDS.len() + HOVER_EXTRA.len() + crate::families::text::corpus_sources().len() - 1;
        let m = SEEDS.len() + HOVER_EXTRA.len() + NAMED_THINGS.len();
        Box::new((0..n).map(|i| json!({"program": i})).chain((0..m).map(|i| json!({"unrelated-function": i}))).chain((0..PARAMETER_PROGRAMS.len()).map(|i| json!({"parameter-binders": i}))))
    }
    fn case_timeout(&self, _tier: Tier) -> u64 {
        300
    }
    fn run(&self, case: &Value, ctx: &mut Ctx) -> Report {
        let mut rep = Report::default();
        if let Some(i) = case["parameter-binders"].as_u64() {
            run_parameter_binders(i as usize, ctx, &mut rep);
            return rep;
        }
        if let Some(i) = case["unrelated-function"].as_u64() {
            run_unrelated_function(i as usize, ctx, &mut rep);
            return rep;
        }
        let i = case["program"].as_u64().unwrap() as usize;
        let (name, text): (String, String) = if i < SEEDS.len() {
            (format!("seed{}", i), seed_text(i).0)
        } else if i < SEEDS.len() + HOVER_EXTRA.len() {
            (format!("extra{}", i - SEEDS.len()), HOVER_EXTRA[i - SEEDS.len()].to_string())
        } else {
            let srcs: Vec<(String, String)> = crate::families::text::corpus_sources().into_iter().filter(|(n, _)| n != "builtin.gom").collect();
            let (n, s) = srcs[i - SEEDS.len() - HOVER_EXTRA.len()].clone();
            (format!("corpus/{}", n), s)
        };
        // programs with package sub-directories need their directory: skip (hover works on one file)
        if text.contains("\nimport ") || text.starts_with("import ") {
            rep.tag("inapplicable:imports");
            return rep;
        }
        let path = ctx.scratch.single_path();
        let comp = match crate::oracle::compile_at(&path, &text) {
            crate::oracle::CompileOutcome::Ok(c) => c,
            _ => {
                rep.tag("machinery:program-does-not-compile");
                rep.sample = Some(json!({"program": name}));
                return rep;
            }
        };
        let mut uses = Vec::new();
        for item in &comp.tast.toplevels {
            match item {
                compiler::tast::Item::Fn(f) => collect_vars(&f.body, &mut uses),
                compiler::tast::Item::ImplBlock(b) => b.methods.iter().for_each(|f| collect_vars(&f.body, &mut uses)),
                _ => {}
            }
        }
        drop(comp);
        let toks = lexer::lex(&text);
        let idents: std::collections::BTreeMap<&str, usize> = toks.iter().fold(std::collections::BTreeMap::new(), |mut m, t| {
            *m.entry(t.text).or_insert(0) += 1;
            m
        });
        let mut checked = 0u64;
        let mut reported = std::collections::BTreeSet::new();
        for (s, e, want) in &uses {
            if *e > text.len() || *s >= *e {
                continue;
            }
            // a node's range may include trailing trivia
            let spelled = text[*s..*e].trim_end();
            let e = &(*s + spelled.len());
            // only plain identifiers: on a path `A::b` the segments mean different things
            if !spelled.chars().all(|c| c.is_alphanumeric() || c == '_') {
                continue;
            }
            // uses inside derived / generated code point at the attribute, not at an identifier
            if !toks.iter().any(|t| u32::from(t.range.start()) as usize == *s && t.text == spelled) {
                continue;
            }
            if idents.get(spelled).copied().unwrap_or(0) > 1 {
                rep.more_keys.push(fnv(&format!("{}|{}", name, s)));
            }
            for off in *s..*e {
                let (line, col) = line_col(&text, off);
                checked += 1;
                let got = match guarded(|| hover_type(&path, &text, line, col)) {
                    Ok(Ok(t)) => squash(&t),
                    Ok(Err(m)) => format!("<err:{}>", m),
                    Err(p) => format!("<panic:{}>", p),
                };
                if got != squash(want) && reported.insert((spelled.to_string(), squash(want), got.clone())) {
                    rep.findings.push(Finding {
                        property: "C20",
                        class: if got.starts_with("<panic") { "query.panic.hover".into() } else { "hover.differs-from-typed-tree".into() },
                        site: format!("program={};ident={};want={};got={}", name, spelled, squash(want), got),
                        detail: format!("{} hover at {}:{} on `{}`: the typed tree says {} but hover says {}", name, line, col, spelled, squash(want), got),
                        replay: json!({"kind": "query", "request": "hover", "text": text, "line": line, "col": col, "expected": squash(want)}),
                    });
                }
            }
        }
        rep.sub_evaluations = checked;
        rep.tag(format!("uses:{}", uses.len()));
        rep.outcome = Some(format!("{}:{}", name, uses.len()));
        rep.sample = Some(json!({"program": name, "identifier_uses_in_typed_tree": uses.len(), "hover_requests": checked}));
        rep
    }
}
