//! C18 / C04: the ways an attribute can be laid out in the text. Whitespace and comments are trivia
//! of the grammar: however `#[derive(ToString, ToJson)]` is spaced, commented or split over lines,
//! the item derives what the plainly written attribute derives. Attributes the compiler does not
//! know may be accepted or rejected, never crash it, and never change what a derive next to them
//! generates.

use crate::drive::*;
use crate::families::common::*;
use crate::gosem::GoVerdict;
use crate::oracle::*;
use serde_json::{Value, json};

/// (name, text before the item; § = the item's first line follows directly, pure trivia change?)
const LAYOUTS: [(&str, &str, bool); 38] = [
    ("plain", "#[derive(ToString, ToJson)]\n§", true),
    ("trailing-line-comment", "#[derive(ToString, ToJson)] // show it\n§", true),
    ("trailing-comment-closing-bracket", "#[derive(ToString, ToJson)] // ]\n§", true),
    ("trailing-comment-opening-bracket", "#[derive(ToString, ToJson)] // [\n§", true),
    ("trailing-comment-attribute", "#[derive(ToString, ToJson)] // #[derive(Nope)]\n§", true),
    ("trailing-comment-parens", "#[derive(ToString, ToJson)] // ) ( ,\n§", true),
    ("comment-line-between", "#[derive(ToString, ToJson)]\n// about the item\n§", true),
    ("comment-line-before", "// about the item\n#[derive(ToString, ToJson)]\n§", true),
    ("blank-lines-between", "#[derive(ToString, ToJson)]\n\n\n§", true),
    ("same-line-as-item", "#[derive(ToString, ToJson)] §", true),
    ("trailing-spaces", "#[derive(ToString, ToJson)]   \t\n§", true),
    ("indented", "    #[derive(ToString, ToJson)]\n    §", true),
    ("tab-indented", "\t#[derive(ToString, ToJson)]\n\t§", true),
    ("crlf", "#[derive(ToString, ToJson)]\r\n§", true),
    ("spaces-inside", "#[ derive ( ToString , ToJson ) ]\n§", true),
    ("space-after-hash", "# [derive(ToString, ToJson)]\n§", true),
    ("no-space-in-list", "#[derive(ToString,ToJson)]\n§", true),
    ("list-over-lines", "#[derive(\n    ToString,\n    ToJson\n)]\n§", true),
    ("list-over-lines-with-comments", "#[derive(\n    ToString, // text\n    ToJson // json\n)]\n§", true),
    ("comment-inside-brackets", "#[ // which\n derive(ToString, ToJson)]\n§", true),
    ("trailing-comma", "#[derive(ToString, ToJson,)]\n§", false),
    ("other-order", "#[derive(ToJson, ToString)]\n§", false),
    ("two-attributes", "#[derive(ToString)]\n#[derive(ToJson)]\n§", false),
    ("two-attributes-one-line", "#[derive(ToString)] #[derive(ToJson)]\n§", false),
    ("two-attributes-comment-between", "#[derive(ToString)] // first\n#[derive(ToJson)] // second\n§", false),
    ("two-attributes-other-order", "#[derive(ToJson)]\n#[derive(ToString)]\n§", false),
    ("two-attributes-unknown-between", "#[derive(ToString)]\n#[inline]\n#[derive(ToJson)]\n§", false),
    ("two-attributes-overlapping", "#[derive(ToString)]\n#[derive(ToString, ToJson)]\n§", false),
    ("three-attributes", "#[derive(ToString)]\n#[derive()]\n#[derive(ToJson)]\n§", false),
    ("unknown-before", "#[doc(\"about\")]\n#[derive(ToString, ToJson)]\n§", false),
    ("unknown-after", "#[derive(ToString, ToJson)]\n#[doc(\"about\")]\n§", false),
    ("unknown-with-closing-bracket-string", "#[doc(\"closing bracket: ]\")]\n#[derive(ToString, ToJson)]\n§", false),
    ("unknown-with-opening-bracket-string", "#[doc(\"opening bracket: [\")]\n#[derive(ToString, ToJson)]\n§", false),
    ("unknown-with-hash-string", "#[doc(\"#[derive(Nope)]\")]\n#[derive(ToString, ToJson)]\n§", false),
    ("unknown-bare", "#[inline]\n#[derive(ToString, ToJson)]\n§", false),
    ("unknown-path", "#[a::b(c)]\n#[derive(ToString, ToJson)]\n§", false),
    ("unknown-nested-brackets", "#[cfg(any([a], [b]))]\n#[derive(ToString, ToJson)]\n§", false),
    ("unknown-with-comment", "#[doc(\"about\")] // ]\n#[derive(ToString, ToJson)] // ]\n§", false),
];

/// attributes that derive nothing usable: the item then has no to_string (the program below does not
/// call it); accepted or rejected, never a panic
const ODD: [(&str, &str); 12] = [
    ("derive-empty", "#[derive()]\n§"),
    ("derive-bare", "#[derive]\n§"),
    ("derive-unknown", "#[derive(Nope)]\n§"),
    ("derive-twice", "#[derive(ToString, ToString)]\n§"),
    ("derive-lowercase", "#[derive(tostring)]\n§"),
    ("derive-nested", "#[derive(ToString(ToJson))]\n§"),
    ("derive-string", "#[derive(\"ToString\")]\n§"),
    ("empty-attribute", "#[]\n§"),
    ("unclosed-in-comment", "#[derive(ToString) // ]\n§"),
    ("only-comment-inside", "#[ // derive(ToString)\n]\n§"),
    ("attribute-at-end-of-file", "§\n#[derive(ToString)]"),
    ("attribute-before-fn", "§\n#[derive(ToString)]\nfn helper() -> int32 { 1 }"),
];

const ITEMS: [(&str, &str, &str); 3] = [
    ("struct", "struct Sx { a: int32, b: string }", "Sx { a: 7, b: \"x]\" }"),
    ("enum", "enum Ex { Aa, Bb(int32, string) }", "Bb(3, \"[y\")"),
    ("unit-enum", "enum Ux { Only }", "Only"),
];

fn run_single(ctx: &mut Ctx, text: &str) -> Result<Obs, (String, String)> {
    let path = ctx.scratch.single_path();
    match compile_at(&path, text) {
        CompileOutcome::Ok(c) => {
            let go = go_text(&c).map_err(|m| ("gopp.panic".to_string(), m))?;
            let gr = analyse_and_run(go, FUEL);
            match (&gr.verdict, &gr.run) {
                (GoVerdict::Ok(_), Some(r)) => Ok(obs_of_go(r)),
                (GoVerdict::Rejected(errs), _) => Err((format!("go.{}", errs[0].rule), format!("line {}: {}", errs[0].line, errs[0].msg))),
                (GoVerdict::Unsupported(m), _) => Err(("machinery.go-unsupported".into(), m.clone())),
                _ => Err(("machinery".into(), "no run".into())),
            }
        }
        CompileOutcome::Err(e) => {
            let (stage, msg) = describe_err(&e);
            Err((format!("rejected.{}", stage), msg))
        }
        CompileOutcome::Panic(m) => Err(("compile.panic".into(), normalise_msg(&m))),
    }
}

fn program(layout: &str, item: &str, value: &str, uses_derived: bool) -> String {
    let head = layout.replace('§', item);
    if uses_derived {
        format!("{}\nfn main() {{\n    let v = {};\n    string_println(v.to_string());\n    string_println(v.to_json());\n    string_println(\"done\")\n}}\n", head, value)
    } else {
        format!("{}\nfn main() {{\n    let v = {};\n    string_println(\"done\")\n}}\n", head, value)
    }
}

pub struct Attributes;

impl Family for Attributes {
    fn name(&self) -> &'static str {
        "attributes"
    }
    fn serves(&self) -> &'static [&'static str] {
        &["C18", "C04", "C12"]
    }
    fn rule(&self) -> &'static str {
        "38 layouts of '#[derive(ToString, ToJson)]' (20 that differ from the plain one only in trivia: trailing comments containing brackets / parentheses / an attribute, comment and blank lines around it, the item on the same line, indentation, CRLF, spaces inside, the list over several lines with and without comments; 14 with a trailing comma, the other order, two attributes, unknown attributes before / after whose string arguments contain brackets) x 3 items (struct, enum, unit enum): the program prints to_string and to_json of one value and must print exactly what the plainly laid-out twin prints (a trivia-only layout must also be accepted; the others may be rejected with a diagnostic); 12 odd attributes (empty / bare / unknown / repeated / nested / quoted derive lists, '#[]', a bracket closed only inside a comment, an attribute at the end of the file or before a fn) x 3 items: accepted or rejected, never a panic, and an accepted program is valid Go; every text also goes through the lossless-tree oracle. non-trivial = layouts other than the plain one; distinct = distinct source text"
    }
    fn cases(&self, _tier: Tier) -> Box<dyn Iterator<Item = Value> + '_> {
        let mut v = Vec::new();
        for (i, _, _) in ITEMS {
            for (l, _, _) in LAYOUTS {
                v.push(json!({"kind": "layout", "layout": l, "item": i}));
            }
            for (o, _) in ODD {
                v.push(json!({"kind": "odd", "layout": o, "item": i}));
            }
        }
        Box::new(v.into_iter())
    }
    fn run(&self, case: &Value, ctx: &mut Ctx) -> Report {
        let mut rep = Report::default();
        let (ln, it) = (case["layout"].as_str().unwrap(), case["item"].as_str().unwrap());
        let (_, item, value) = ITEMS.iter().find(|(n, _, _)| *n == it).unwrap();
        let odd = case["kind"] == "odd";
        let (tmpl, trivia_only) = if odd { (ODD.iter().find(|(n, _)| *n == ln).unwrap().1, false) } else { LAYOUTS.iter().find(|(n, _, _)| *n == ln).map(|(_, t, p)| (*t, *p)).unwrap() };
        let text = program(tmpl, item, value, !odd);
        let site = format!("layout={};item={}", ln, it);
        if ln != "plain" {
            rep.nontrivial_key = Some(text.clone());
        }
        for (c, dd) in crate::families::text::check_lossless(&text) {
            for property in ["C12", "C04"] {
                rep.findings.push(Finding { property, class: format!("parse.{}", c), site: format!("{};msg={}", site, normalise_msg(&dd)), detail: dd.clone(), replay: json!({"kind": "text", "text": text, "oracle": "lossless"}) });
            }
        }
        let plain = run_single(ctx, &program(LAYOUTS[0].1, item, value, !odd));
        let want = match &plain {
            Ok(o) if o.end == NEnd::Ok => lossy(&o.stdout),
            other => {
                if !odd {
                    rep.tag("machinery:plain-twin-broken");
                    rep.sample = Some(json!({"item": it, "twin": format!("{:?}", other.as_ref().map(|o| lossy(&o.stdout)))}));
                    return rep;
                }
                String::new()
            }
        };
        let replay = json!({"kind": "names", "source": text, "expected": want});
        match run_single(ctx, &text) {
            Ok(o) => {
                rep.tag("accepted");
                rep.outcome = Some(format!("{}|{}", ln, lossy(&o.stdout)));
                if odd {
                    if lossy(&o.stdout) != "done\n" || o.end != NEnd::Ok {
                        rep.findings.push(Finding { property: "C18", class: "attribute.behaviour-differs".into(), site, detail: format!("expected \"done\\n\" got {:?}/{}", lossy(&o.stdout), end_tag(&o.end)), replay });
                    }
                } else if lossy(&o.stdout) == want && o.end == NEnd::Ok {
                    rep.tag("agree");
                } else {
                    rep.tag("disagree");
                    rep.findings.push(Finding { property: "C18", class: "attribute.behaviour-differs".into(), site, detail: format!("expected {:?} got {:?}/{}", want, lossy(&o.stdout), end_tag(&o.end)), replay });
                }
            }
            Err((class, msg)) => {
                rep.tag(format!("fail:{}", class.split('.').next().unwrap_or("")));
                rep.outcome = Some(format!("{}|{}", ln, class));
                if class.starts_with("machinery") {
                    rep.tag("machinery:go-unsupported");
                    rep.sample = Some(json!({"site": site, "msg": msg}));
                } else if class.starts_with("rejected") {
                    // the same two derives written in another order or in two attributes are no less valid
                    let same_derives = ln == "other-order" || ln.starts_with("two-attributes") || ln == "three-attributes";
                    if trivia_only || same_derives {
                        rep.findings.push(Finding { property: "C18", class: "attribute.layout-changes-verdict".into(), site: format!("{};msg={}", site, normalise_msg(&msg)), detail: format!("the plainly laid-out twin is accepted; this one is rejected: {}", msg), replay });
                    }
                } else {
                    let props: &[&'static str] = if class == "compile.panic" || class == "gopp.panic" { &["C18", "C04"] } else { &["C18"] };
                    for p in props {
                        rep.findings.push(Finding { property: p, class: class.clone(), site: format!("{};msg={}", site, normalise_msg(&msg)), detail: msg.clone(), replay: replay.clone() });
                    }
                }
            }
        }
        rep
    }
}
