//! C09 / C02 / C01: an expression whose value nobody uses, in every position where a value can be
//! dropped. The value may be dropped; what evaluating it *does* (a line printed, a cell written, a
//! failing read or division) may not, and whatever the Go generator writes for the dropped
//! expression has to be a Go statement.

use crate::drive::*;
use crate::families::common::*;
use crate::oracle::*;
use serde_json::{Value, json};

/// (name, expression, its type, lines it prints, how it ends the program)
const EXPRS: [(&str, &str, &str, &str, &str); 40] = [
    ("variable", "k", "int32", "", "ok"),
    ("literal", "7", "int32", "", "ok"),
    ("unit-literal", "()", "unit", "", "ok"),
    ("arithmetic", "k + 1", "int32", "", "ok"),
    ("division-ok", "k / one", "int32", "", "ok"),
    ("division-by-zero", "k / zero", "int32", "", "trap-div0"),
    // the same with literal operands: a literal dividend does not make the division safe
    ("literal-dividend-by-zero", "10 / zero", "int32", "", "trap-div0"),
    ("zero-literal-dividend-by-zero", "0 / zero", "int32", "", "trap-div0"),
    ("literal-dividend-ok", "10 / one", "int32", "", "ok"),
    ("division-by-a-literal", "k / 2", "int32", "", "ok"),
    ("literal-dividend-by-zero-inside-a-sum", "(10 / zero) + 1", "int32", "", "trap-div0"),
    ("literal-dividend-by-zero-negated", "-(10 / zero)", "int32", "", "trap-div0"),
    ("comparison", "k < 2", "bool", "", "ok"),
    ("tuple", "(k, true)", "(int32, bool)", "", "ok"),
    ("projection", "pr.0", "int32", "", "ok"),
    ("field", "st.a", "int32", "", "ok"),
    ("struct-literal", "St { a: k }", "St", "", "ok"),
    ("constructor", "Som(k)", "Opt", "", "ok"),
    ("closure", "|q: int32| q + k", "(int32) -> int32", "", "ok"),
    ("call-printing", "say(k)", "int32", "say\n", "ok"),
    ("call-printing-unit", "tell(k)", "unit", "tell\n", "ok"),
    ("method-call-printing", "st.shout()", "int32", "shout\n", "ok"),
    ("closure-call-printing", "loud(k)", "int32", "loud\n", "ok"),
    ("runtime-builtin", "int32_to_string(k)", "string", "", "ok"),
    ("string-concat", "\"a\" + nm", "string", "", "ok"),
    ("vec-get", "vec_get(vi, 0)", "int32", "", "ok"),
    ("vec-get-out-of-range", "vec_get(vi, 5)", "int32", "", "trap-index"),
    ("vec-get-of-units", "vec_get(vu, 0)", "unit", "", "ok"),
    ("vec-get-of-units-out-of-range", "vec_get(vu, 5)", "unit", "", "trap-index"),
    ("vec-len", "vec_len(vi)", "int32", "", "ok"),
    ("vec-push", "vec_push(vi, 3)", "Vec[int32]", "", "ok"),
    ("array-get", "array_get(ar, 1)", "int32", "", "ok"),
    ("array-set", "array_set(ar, 1, 9)", "[int32; 2]", "", "ok"),
    ("ref-new", "ref(k)", "Ref[int32]", "", "ok"),
    ("ref-get", "ref_get(cell)", "int32", "", "ok"),
    ("ref-set", "ref_set(cell, 40)", "unit", "", "ok"),
    ("if-printing", "if k < 2 { say(1) } else { say(2) }", "int32", "say\n", "ok"),
    ("match-printing", "match k { 1 => say(1), _ => 0 }", "int32", "say\n", "ok"),
    ("and-printing", "k < 2 && yes(k)", "bool", "yes\n", "ok"),
    ("nested-vec-get", "vec_get(vec_get(vv, 0), 5)", "int32", "", "trap-index"),
];

/// where the value is dropped; § = the expression. `unit-only` positions need the expression to be
/// of type unit.
const POSITIONS: [(&str, &str, bool); 14] = [
    ("statement", "    §;\n", false),
    ("let-wildcard", "    let _ = §;\n", false),
    ("let-unused", "    let unused = §;\n", false),
    ("while-body-statement", "    let go_on = ref(true);\n    while ref_get(go_on) {\n        ref_set(go_on, false);\n        §;\n    };\n", false),
    ("while-body-tail", "    let go_on = ref(true);\n    while ref_get(go_on) {\n        ref_set(go_on, false);\n        §\n    };\n", true),
    ("if-branch-statement", "    if k < 2 {\n        §;\n        ()\n    } else {\n        ()\n    };\n", false),
    ("if-branch-tail", "    if k < 2 {\n        §\n    } else {\n        ()\n    };\n", true),
    ("match-arm-statement", "    match k {\n        1 => {\n            §;\n            ()\n        },\n        _ => (),\n    };\n", false),
    ("match-arm-tail", "    match k {\n        1 => §,\n        _ => (),\n    };\n", true),
    ("closure-body-statement", "    let thunk = || {\n        §;\n        ()\n    };\n    thunk();\n", false),
    ("closure-body-tail", "    let thunk = || §;\n    thunk();\n", false),
    ("function-body-tail-dropped", "    drop_it(k, one, zero, vi, vu, vv, ar, cell, pr, st, nm);\n", false),
    ("tuple-component-unused", "    let both = (§, 1);\n", false),
    ("argument-ignored", "    ignore(§);\n", false),
];

const DECLS: &str = "struct St { a: int32 }\nimpl St { fn shout(self: St) -> int32 { string_println(\"shout\"); self.a } }\nenum Opt { Non, Som(int32) }\nfn say(x: int32) -> int32 { string_println(\"say\"); x }\nfn tell(x: int32) -> unit { string_println(\"tell\") }\nfn yes(x: int32) -> bool { string_println(\"yes\"); true }\nfn ignore[T](x: T) -> unit { () }\n";

const SETUP: &str = "    let k = 1;\n    let one = 1;\n    let zero = 0;\n    let vi = vec_push(vec_push(vec_new(), 10), 11);\n    let vu = vec_push(vec_new(), ());\n    let vv = vec_push(vec_new(), vi);\n    let ar = [1, 2];\n    let cell = ref(4);\n    let pr = (5, 6);\n    let st = St { a: 3 };\n    let nm = \"n\";\n    let loud = |x: int32| { string_println(\"loud\"); x };\n";

fn program(expr: &str, ty: &str, pos: &str, tmpl: &str) -> String {
    let mut decls = String::from(DECLS);
    if pos == "function-body-tail-dropped" {
        decls.push_str(&format!(
            "fn drop_it(k: int32, one: int32, zero: int32, vi: Vec[int32], vu: Vec[unit], vv: Vec[Vec[int32]], ar: [int32; 2], cell: Ref[int32], pr: (int32, int32), st: St, nm: string) -> {} {{\n    {}\n}}\n",
            ty, expr
        ));
    }
    format!(
        "{}fn main() {{\n{}    string_println(\"before\");\n{}    string_println(\"after \" + int32_to_string(ref_get(cell)))\n}}\n",
        decls,
        SETUP,
        tmpl.replace('§', expr)
    )
}

/// calls whose effect is not in the called function itself: (name, functions in "natural" order, the
/// call, lines printed, how the program ends, value of the cell afterwards)
const INDIRECT: [(&str, &[&str], &str, &str, &str, i32); 14] = [
    ("through-one-callee", &["fn outer1(x: int32) -> int32 { inner1(x) }", "fn inner1(x: int32) -> int32 { string_println(\"inner\"); x }"], "outer1(k)", "inner\n", "ok", 4),
    ("through-two-callees", &["fn outer2(x: int32) -> int32 { mid2(x) + 1 }", "fn mid2(x: int32) -> int32 { inner2(x) }", "fn inner2(x: int32) -> int32 { string_println(\"inner\"); x }"], "outer2(k)", "inner\n", "ok", 4),
    ("cycle-of-two-entered-at-the-silent-one", &["fn ping(n: int32) -> int32 { if n <= 0 { 0 } else { string_println(\"ping\"); pong(n - 1) } }", "fn pong(n: int32) -> int32 { if n <= 0 { 0 } else { ping(n - 1) } }"], "pong(2)", "ping\n", "ok", 4),
    ("cycle-of-two-entered-at-the-printing-one", &["fn ping(n: int32) -> int32 { if n <= 0 { 0 } else { string_println(\"ping\"); pong(n - 1) } }", "fn pong(n: int32) -> int32 { if n <= 0 { 0 } else { ping(n - 1) } }"], "ping(3)", "ping\nping\n", "ok", 4),
    ("cycle-of-three", &["fn ca(n: int32) -> int32 { if n <= 0 { 0 } else { cb(n - 1) } }", "fn cb(n: int32) -> int32 { if n <= 0 { 0 } else { cc(n - 1) } }", "fn cc(n: int32) -> int32 { if n <= 0 { 0 } else { string_println(\"cc\"); ca(n - 1) } }"], "ca(3)", "cc\n", "ok", 4),
    ("self-recursion", &["fn count(n: int32) -> int32 { if n <= 0 { 0 } else { string_println(\"count\"); count(n - 1) } }"], "count(2)", "count\ncount\n", "ok", 4),
    ("cell-write-in-a-callee", &["fn via(c: Ref[int32]) -> int32 { bump(c) }", "fn bump(c: Ref[int32]) -> int32 { ref_set(c, 40); 1 }"], "via(cell)", "", "ok", 40),
    ("cell-write-in-a-cycle", &["fn wa(c: Ref[int32], n: int32) -> int32 { if n <= 0 { 0 } else { ref_set(c, ref_get(c) + 18); wb(c, n - 1) } }", "fn wb(c: Ref[int32], n: int32) -> int32 { if n <= 0 { 0 } else { wa(c, n - 1) } }"], "wb(cell, 4)", "", "ok", 40),
    ("failing-read-in-a-callee", &["fn viabad(v: Vec[int32]) -> int32 { bad(v) }", "fn bad(v: Vec[int32]) -> int32 { vec_get(v, 5) }"], "viabad(vi)", "", "trap-index", 4),
    ("failing-division-in-a-callee", &["fn viaquot(a: int32, b: int32) -> int32 { quot(a, b) }", "fn quot(a: int32, b: int32) -> int32 { a / b }"], "viaquot(k, zero)", "", "trap-div0", 4),
    ("through-a-function-value", &["fn runit(f: (int32) -> int32, x: int32) -> int32 { f(x) }"], "runit(say, k)", "say\n", "ok", 4),
    ("through-a-method", &["impl St { fn relay(self: St) -> int32 { self.shout() } }"], "st.relay()", "shout\n", "ok", 4),
    ("through-a-trait-bound", &["fn gen[T: Speak](x: T) -> int32 { Speak::speak(x) }", "trait Speak { fn speak(Self) -> int32; }", "impl Speak for St { fn speak(self: St) -> int32 { string_println(\"speak\"); self.a } }"], "gen(st)", "speak\n", "ok", 4),
    ("through-a-dyn-call", &["fn dy(d: dyn Speak) -> int32 { Speak::speak(d) }", "trait Speak { fn speak(Self) -> int32; }", "impl Speak for St { fn speak(self: St) -> int32 { string_println(\"speak\"); self.a } }"], "dy(st)", "speak\n", "ok", 4),
];

const ORDERS: [&str; 3] = ["as-listed-before-main", "reversed-before-main", "after-main"];

fn indirect_program(fns: &[&str], order: &str, expr: &str, tmpl: &str) -> String {
    let mut listed: Vec<&str> = fns.to_vec();
    if order == "reversed-before-main" {
        listed.reverse();
    }
    let helpers = listed.join("\n") + "\n";
    let main = format!("fn main() {{\n{}    string_println(\"before\");\n{}    string_println(\"after \" + int32_to_string(ref_get(cell)))\n}}\n", SETUP, tmpl.replace('§', expr));
    if order == "after-main" { format!("{}{}{}", DECLS, main, helpers) } else { format!("{}{}{}", DECLS, helpers, main) }
}

pub struct Discard;

impl Family for Discard {
    fn name(&self) -> &'static str {
        "discard"
    }
    fn serves(&self) -> &'static [&'static str] {
        &["C09", "C02", "C01"]
    }
    fn rule(&self) -> &'static str {
        "40 expressions (variables, literals, arithmetic, a division that fails - also with a literal dividend, inside a sum, negated -, tuples, projections, fields, constructors, closures, calls / method calls / closure calls that print, the builtins that are expanded in place: vec_get in and out of range, on a vector of units, nested; vec_len, vec_push, array_get, array_set, ref, ref_get, ref_set; if / match / && with a printing operand) x 14 positions in which the value is dropped (statement, let _, unused let, statement and tail of a while body, of an if branch, of a match arm, of a closure body, tail of a function whose result is dropped, unused tuple component, argument of a function that ignores it); plus 14 calls whose effect lies behind the called function (one and two callees down, in a cycle of two entered at either member, in a cycle of three, in a self-recursive function, a cell written in a callee and in a cycle, a failing read and a failing division in a callee, behind a function value, a method, a trait bound, a dyn call) x 3 orders of the functions (as listed, reversed, after main) x the 9 positions that take a value of any type; oracle: if accepted, the Go is valid, the stage IRs are consistent, and the program prints 'before', then what the expression prints, then fails as the expression fails or prints 'after' with the cell's value (a rejection with a diagnostic is a verdict, not a finding: the tail positions need a unit). non-trivial = expressions that print, write or fail; distinct = distinct source text"
    }
    fn cases(&self, _tier: Tier) -> Box<dyn Iterator<Item = Value> + '_> {
        let mut v = Vec::new();
        for (p, _, _) in POSITIONS {
            for (e, _, _, _, _) in EXPRS {
                // the closure is a local of main
                if p == "function-body-tail-dropped" && e == "closure-call-printing" {
                    continue;
                }
                v.push(json!({"position": p, "expr": e}));
            }
        }
        for (p, _, unit_only) in POSITIONS {
            if unit_only || p == "function-body-tail-dropped" || p == "closure-body-tail" {
                continue;
            }
            for (e, ..) in INDIRECT {
                for o in ORDERS {
                    v.push(json!({"position": p, "indirect": e, "order": o}));
                }
            }
        }
        Box::new(v.into_iter())
    }
    fn run(&self, case: &Value, ctx: &mut Ctx) -> Report {
        let mut rep = Report::default();
        let pn = case["position"].as_str().unwrap();
        let (_, tmpl, unit_only) = POSITIONS.iter().find(|(n, _, _)| *n == pn).unwrap();
        let indirect = case["indirect"].as_str().map(|n| INDIRECT.iter().find(|(x, ..)| *x == n).unwrap());
        let en = case["expr"].as_str().or(case["indirect"].as_str()).unwrap();
        let (expr, ty, prints, end, cell_after) = match indirect {
            Some((_, _, expr, prints, end, cell)) => (expr, &"int32", prints, end, *cell),
            None => {
                let (_, expr, ty, prints, end) = EXPRS.iter().find(|(n, _, _, _, _)| *n == en).unwrap();
                (expr, ty, prints, end, if en == "ref-set" { 40 } else { 4 })
            }
        };
        let (text, site) = match indirect {
            Some((_, fns, ..)) => {
                let order = case["order"].as_str().unwrap();
                (indirect_program(fns, order, expr, tmpl), format!("position={};indirect-effect={};functions={}", pn, en, order))
            }
            None => (program(expr, ty, pn, tmpl), format!("position={};expr={}", pn, en)),
        };
        let cell = cell_after;
        let want_out = if *end == "ok" { format!("before\n{}after {}\n", prints, cell) } else { format!("before\n{}", prints) };
        let replay = json!({"kind": "differential", "family": "discard", "case": case, "source": text, "expected": {"stdout": want_out, "end": end}});
        if !prints.is_empty() || *end != "ok" || cell != 4 {
            rep.nontrivial_key = Some(text.clone());
        }
        let path = ctx.scratch.single_path();
        let comp = match compile_at(&path, &text) {
            CompileOutcome::Ok(c) => c,
            CompileOutcome::Panic(m) => {
                let m = normalise_msg(&m);
                rep.tag("compile:panic");
                rep.findings.push(Finding { property: "C02", class: "compile.panic".into(), site: format!("{};msg={}", site, m), detail: m, replay });
                return rep;
            }
            CompileOutcome::Err(err) => {
                let (stage, msg) = describe_err(&err);
                rep.tag(format!("compile:rejected:{}", stage));
                rep.outcome = Some(format!("{}:rejected:{}", site, stage));
                // a statement, a let and an argument take a value of any type
                if (!*unit_only || *ty == "unit") && !matches!(pn, "closure-body-tail") || stage == "compile" {
                    rep.findings.push(Finding { property: "C02", class: format!("compile.rejected.{}", stage), site: format!("{};msg={}", site, normalise_msg(&msg)), detail: msg, replay });
                }
                return rep;
            }
        };
        rep.tag("compile:ok");
        for (stage, msg) in crate::irck::check_all(&comp) {
            rep.tag(format!("irck:{}", stage));
            rep.findings.push(Finding { property: "C02", class: format!("irck.{}", stage), site: format!("{};msg={}", site, normalise_msg(&msg)), detail: msg, replay: replay.clone() });
        }
        let go = go_text(&comp).unwrap_or_default();
        drop(comp);
        match crate::projects::run_go(&go, FUEL) {
            Ok(o) => {
                rep.outcome = Some(format!("{}|{}|{}", site, lossy(&o.stdout), end_tag(&o.end)));
                if lossy(&o.stdout) == want_out && end_tag(&o.end) == *end {
                    rep.tag("agree");
                } else {
                    rep.tag("disagree");
                    for property in ["C09", "C01"] {
                        rep.findings.push(Finding {
                            property,
                            class: if end_tag(&o.end) != *end { "sem.end".into() } else { "sem.stdout".into() },
                            site: site.clone(),
                            detail: format!("expected {:?}/{} got {:?}/{}", want_out, end, lossy(&o.stdout), end_tag(&o.end)),
                            replay: json!({"kind": "differential", "family": "discard", "case": case, "source": text, "expected": {"stdout": want_out, "end": end}, "observed": {"stdout": lossy(&o.stdout), "end": end_tag(&o.end), "go_text": go}}),
                        });
                    }
                }
            }
            Err(m) if m.starts_with("machinery") => rep.tag("machinery:go-unsupported"),
            Err(m) => {
                rep.tag("go:rejected");
                rep.findings.push(Finding { property: "C02", class: m.split(':').next().unwrap_or("go.invalid").to_string(), site: format!("{};goerr={}", site, normalise_msg(&m)), detail: m, replay })
            }
        }
        rep
    }
}
