//! C09 / C02 / C01: an expression whose value nobody uses, in every position where a value can be
//! dropped. The value may be dropped; what evaluating it *does* (a line printed, a cell written, a
//! failing read or division) may not, and whatever the Go generator writes for the dropped
//! expression has to be a Go statement.

use crate::drive::*;
use crate::families::common::*;
use crate::oracle::*;
use serde_json::{Value, json};

/// (name, expression, its type, lines it prints, how it ends the program)
const EXPRS: [(&str, &str, &str, &str, &str); 34] = [
    ("variable", "k", "int32", "", "ok"),
    ("literal", "7", "int32", "", "ok"),
    ("unit-literal", "()", "unit", "", "ok"),
    ("arithmetic", "k + 1", "int32", "", "ok"),
    ("division-ok", "k / one", "int32", "", "ok"),
    ("division-by-zero", "k / zero", "int32", "", "trap-div0"),
    ("comparison", "k < 2", "bool", "", "ok"),
    ("tuple", "(k, true)", "(int32, bool)", "", "ok"),
    ("projection", "pr.0", "int32", "", "ok"),
    ("field", "st.a", "int32", "", "ok"),
    ("struct-literal", "St { a: k }", "St", "", "ok"),
    ("constructor", "Som(k)", "Opt", "", "ok"),
    ("closure", "|q: int32| q + k", "(int32) -> int32", "", "ok"),
    ("call-printing", "say(k)", "int32", "say\n", "ok"),
    ("call-printing-unit", "tell(k)", "unit", "tell\n", "ok"),
    ("method-call-printing", "st.shout()", "int32", "shout\n", "ok"),
    ("closure-call-printing", "loud(k)", "int32", "loud\n", "ok"),
    ("runtime-builtin", "int32_to_string(k)", "string", "", "ok"),
    ("string-concat", "\"a\" + nm", "string", "", "ok"),
    ("vec-get", "vec_get(vi, 0)", "int32", "", "ok"),
    ("vec-get-out-of-range", "vec_get(vi, 5)", "int32", "", "trap-index"),
    ("vec-get-of-units", "vec_get(vu, 0)", "unit", "", "ok"),
    ("vec-get-of-units-out-of-range", "vec_get(vu, 5)", "unit", "", "trap-index"),
    ("vec-len", "vec_len(vi)", "int32", "", "ok"),
    ("vec-push", "vec_push(vi, 3)", "Vec[int32]", "", "ok"),
    ("array-get", "array_get(ar, 1)", "int32", "", "ok"),
    ("array-set", "array_set(ar, 1, 9)", "[int32; 2]", "", "ok"),
    ("ref-new", "ref(k)", "Ref[int32]", "", "ok"),
    ("ref-get", "ref_get(cell)", "int32", "", "ok"),
    ("ref-set", "ref_set(cell, 40)", "unit", "", "ok"),
    ("if-printing", "if k < 2 { say(1) } else { say(2) }", "int32", "say\n", "ok"),
    ("match-printing", "match k { 1 => say(1), _ => 0 }", "int32", "say\n", "ok"),
    ("and-printing", "k < 2 && yes(k)", "bool", "yes\n", "ok"),
    ("nested-vec-get", "vec_get(vec_get(vv, 0), 5)", "int32", "", "trap-index"),
];

/// where the value is dropped; § = the expression. `unit-only` positions need the expression to be
/// of type unit.
const POSITIONS: [(&str, &str, bool); 14] = [
    ("statement", "    §;\n", false),
    ("let-wildcard", "    let _ = §;\n", false),
    ("let-unused", "    let unused = §;\n", false),
    ("while-body-statement", "    let go_on = ref(true);\n    while ref_get(go_on) {\n        ref_set(go_on, false);\n        §;\n    };\n", false),
    ("while-body-tail", "    let go_on = ref(true);\n    while ref_get(go_on) {\n        ref_set(go_on, false);\n        §\n    };\n", true),
    ("if-branch-statement", "    if k < 2 {\n        §;\n        ()\n    } else {\n        ()\n    };\n", false),
    ("if-branch-tail", "    if k < 2 {\n        §\n    } else {\n        ()\n    };\n", true),
    ("match-arm-statement", "    match k {\n        1 => {\n            §;\n            ()\n        },\n        _ => (),\n    };\n", false),
    ("match-arm-tail", "    match k {\n        1 => §,\n        _ => (),\n    };\n", true),
    ("closure-body-statement", "    let thunk = || {\n        §;\n        ()\n    };\n    thunk();\n", false),
    ("closure-body-tail", "    let thunk = || §;\n    thunk();\n", false),
    ("function-body-tail-dropped", "    drop_it(k, one, zero, vi, vu, vv, ar, cell, pr, st, nm);\n", false),
    ("tuple-component-unused", "    let both = (§, 1);\n", false),
    ("argument-ignored", "    ignore(§);\n", false),
];

const DECLS: &str = "struct St { a: int32 }\nimpl St { fn shout(self: St) -> int32 { string_println(\"shout\"); self.a } }\nenum Opt { Non, Som(int32) }\nfn say(x: int32) -> int32 { string_println(\"say\"); x }\nfn tell(x: int32) -> unit { string_println(\"tell\") }\nfn yes(x: int32) -> bool { string_println(\"yes\"); true }\nfn ignore[T](x: T) -> unit { () }\n";

const SETUP: &str = "    let k = 1;\n    let one = 1;\n    let zero = 0;\n    let vi = vec_push(vec_push(vec_new(), 10), 11);\n    let vu = vec_push(vec_new(), ());\n    let vv = vec_push(vec_new(), vi);\n    let ar = [1, 2];\n    let cell = ref(4);\n    let pr = (5, 6);\n    let st = St { a: 3 };\n    let nm = \"n\";\n    let loud = |x: int32| { string_println(\"loud\"); x };\n";

fn program(expr: &str, ty: &str, pos: &str, tmpl: &str) -> String {
    let mut decls = String::from(DECLS);
    if pos == "function-body-tail-dropped" {
        decls.push_str(&format!(
            "fn drop_it(k: int32, one: int32, zero: int32, vi: Vec[int32], vu: Vec[unit], vv: Vec[Vec[int32]], ar: [int32; 2], cell: Ref[int32], pr: (int32, int32), st: St, nm: string) -> {} {{\n    {}\n}}\n",
            ty, expr
        ));
    }
    format!(
        "{}fn main() {{\n{}    string_println(\"before\");\n{}    string_println(\"after \" + int32_to_string(ref_get(cell)))\n}}\n",
        decls,
        SETUP,
        tmpl.replace('§', expr)
    )
}

pub struct Discard;

impl Family for Discard {
    fn name(&self) -> &'static str {
        "discard"
    }
    fn serves(&self) -> &'static [&'static str] {
        &["C09", "C02", "C01"]
    }
    fn rule(&self) -> &'static str {
        "34 expressions (variables, literals, arithmetic, a division that fails, tuples, projections, fields, constructors, closures, calls / method calls / closure calls that print, the builtins that are expanded in place: vec_get in and out of range, on a vector of units, nested; vec_len, vec_push, array_get, array_set, ref, ref_get, ref_set; if / match / && with a printing operand) x 14 positions in which the value is dropped (statement, let _, unused let, statement and tail of a while body, of an if branch, of a match arm, of a closure body, tail of a function whose result is dropped, unused tuple component, argument of a function that ignores it); oracle: if accepted, the Go is valid, the stage IRs are consistent, and the program prints 'before', then what the expression prints, then fails as the expression fails or prints 'after' with the cell's value (a rejection with a diagnostic is a verdict, not a finding: the tail positions need a unit). non-trivial = expressions that print, write or fail; distinct = distinct source text"
    }
    fn cases(&self, _tier: Tier) -> Box<dyn Iterator<Item = Value> + '_> {
        let mut v = Vec::new();
        for (p, _, _) in POSITIONS {
            for (e, _, _, _, _) in EXPRS {
                // the closure is a local of main
                if p == "function-body-tail-dropped" && e == "closure-call-printing" {
                    continue;
                }
                v.push(json!({"position": p, "expr": e}));
            }
        }
        Box::new(v.into_iter())
    }
    fn run(&self, case: &Value, ctx: &mut Ctx) -> Report {
        let mut rep = Report::default();
        let (pn, en) = (case["position"].as_str().unwrap(), case["expr"].as_str().unwrap());
        let (_, tmpl, unit_only) = POSITIONS.iter().find(|(n, _, _)| *n == pn).unwrap();
        let (_, expr, ty, prints, end) = EXPRS.iter().find(|(n, _, _, _, _)| *n == en).unwrap();
        let text = program(expr, ty, pn, tmpl);
        let site = format!("position={};expr={}", pn, en);
        let cell = if en == "ref-set" { 40 } else { 4 };
        let want_out = if *end == "ok" { format!("before\n{}after {}\n", prints, cell) } else { format!("before\n{}", prints) };
        let replay = json!({"kind": "differential", "family": "discard", "case": case, "source": text, "expected": {"stdout": want_out, "end": end}});
        if !prints.is_empty() || *end != "ok" || en == "ref-set" {
            rep.nontrivial_key = Some(text.clone());
        }
        let path = ctx.scratch.single_path();
        let comp = match compile_at(&path, &text) {
            CompileOutcome::Ok(c) => c,
            CompileOutcome::Panic(m) => {
                let m = normalise_msg(&m);
                rep.tag("compile:panic");
                rep.findings.push(Finding { property: "C02", class: "compile.panic".into(), site: format!("{};msg={}", site, m), detail: m, replay });
                return rep;
            }
            CompileOutcome::Err(err) => {
                let (stage, msg) = describe_err(&err);
                rep.tag(format!("compile:rejected:{}", stage));
                rep.outcome = Some(format!("{}:rejected:{}", site, stage));
                // a statement, a let and an argument take a value of any type
                if (!*unit_only || *ty == "unit") && !matches!(pn, "closure-body-tail") || stage == "compile" {
                    rep.findings.push(Finding { property: "C02", class: format!("compile.rejected.{}", stage), site: format!("{};msg={}", site, normalise_msg(&msg)), detail: msg, replay });
                }
                return rep;
            }
        };
        rep.tag("compile:ok");
        for (stage, msg) in crate::irck::check_all(&comp) {
            rep.tag(format!("irck:{}", stage));
            rep.findings.push(Finding { property: "C02", class: format!("irck.{}", stage), site: format!("{};msg={}", site, normalise_msg(&msg)), detail: msg, replay: replay.clone() });
        }
        let go = go_text(&comp).unwrap_or_default();
        drop(comp);
        match crate::projects::run_go(&go, FUEL) {
            Ok(o) => {
                rep.outcome = Some(format!("{}|{}|{}", site, lossy(&o.stdout), end_tag(&o.end)));
                if lossy(&o.stdout) == want_out && end_tag(&o.end) == *end {
                    rep.tag("agree");
                } else {
                    rep.tag("disagree");
                    for property in ["C09", "C01"] {
                        rep.findings.push(Finding {
                            property,
                            class: if end_tag(&o.end) != *end { "sem.end".into() } else { "sem.stdout".into() },
                            site: site.clone(),
                            detail: format!("expected {:?}/{} got {:?}/{}", want_out, end, lossy(&o.stdout), end_tag(&o.end)),
                            replay: json!({"kind": "differential", "family": "discard", "case": case, "source": text, "expected": {"stdout": want_out, "end": end}, "observed": {"stdout": lossy(&o.stdout), "end": end_tag(&o.end), "go_text": go}}),
                        });
                    }
                }
            }
            Err(m) if m.starts_with("machinery") => rep.tag("machinery:go-unsupported"),
            Err(m) => {
                rep.tag("go:rejected");
                rep.findings.push(Finding { property: "C02", class: m.split(':').next().unwrap_or("go.invalid").to_string(), site: format!("{};goerr={}", site, normalise_msg(&m)), detail: m, replay })
            }
        }
        rep
    }
}
