//! C19: generated names are unique, legal, and never capture Go or runtime names.
//! (a) hostile identifiers × roles: a program using the identifier in that role must compile to
//!     valid Go and behave exactly like its twin with a benign identifier (and the hard-wired
//!     expected output); (b) collision witnesses for the name-encoding scheme; (c) encoder
//!     injectivity over a small type/name alphabet (reported, and a violation with a witness).

use crate::drive::*;
use crate::families::common::*;
use crate::gosem::GoVerdict;
use crate::oracle::*;
use serde_json::{Value, json};

pub const HOSTILE: [&str; 95] = [
    // Go keywords that are not goml keywords
    "break", "case", "chan", "const", "continue", "default", "defer", "fallthrough", "func", "goto", "interface", "map", "range", "select", "switch", "var",
    // predeclared identifiers and package names the output relies on
    "len", "append", "panic", "println", "print", "nil", "any", "fmt", "main0", "int", "uint", "byte", "rune", "error", "make", "new", "cap", "copy", "iota", "float",
    // runtime helpers
    "string_println", "string_print", "int32_to_string", "missing", "unit_to_string", "bool_to_string", "json_escape_string", "string_len", "string_get",
    // builtins that the compiler expands where they are called (it recognises them by name)
    "vec_new", "vec_push", "vec_get", "vec_len", "ref", "ref_get", "ref_set", "array_get", "array_set",
    // compiler temporaries and generated names
    "x0", "t1", "t2", "mtmp0", "ret2", "ret5", "cond3", "env4", "wild6", "Tuple2_int32_int32", "Tuple2_int32_bool", "closure_env_main_0", "ref_int32_x", "dyn__Tr", "dyn__Tr_vtable",
    // spellings of the compiler's own type representation (it must not recognise them inside user names)
    "TParam", "XTParamY", "TVar0", "TApp",
    // the entry point's names (only Main's `main` is the entry point)
    "main", "init",
    "apply", "isE", "data", "vtable", "value", "reference", "arr", "index", "self", "a__0", "a__1", "x__0", "f__2", "S", "E",
    // how a local `f` is spelled in the Go text, for every index it can get in the small templates
    "f__0", "f__1", "f__3", "f__4", "f__5",
];

pub const ROLES: [&str; 20] =
    ["lib-fn", "lib-struct", "lib-variant", "fn", "param", "local", "patvar", "closure-param", "struct", "field", "enum", "variant", "trait", "method", "tparam", "fn-and-local", "fn-called-in-closure", "fn-next-to-captured-function-local", "trait-method", "lib-generic-variant"];

const BENIGN: &str = "zzq";

/// (source with {N}, expected stdout)
fn template(role: &str) -> (&'static str, &'static str) {
    match role {
        // the entity lives in an imported package (a second file: see run_text)
        "lib-fn" => ("package Main\nimport Lib\n\nfn main() { string_println(int32_to_string(Lib::{N}(1) + Lib::helper())) }\n//// FILE Lib/lib.gom\npackage Lib\n\nfn helper() -> int32 { 10 }\nfn {N}(a: int32) -> int32 { a + helper() }\n", "21\n"),
        "lib-struct" => ("package Main\nimport Lib\n\nfn main() { let s = Lib::mk(4); string_println(int32_to_string(s.a)) }\n//// FILE Lib/lib.gom\npackage Lib\n\nstruct {N} { a: int32 }\nfn mk(v: int32) -> {N} { {N} { a: v } }\n", "4\n"),
        "lib-variant" => (
            "package Main\nimport Lib\n\nfn main() { let k = match Lib::g(Lib::Choice::Other(5)) { 5 => 1, _ => 0 }; let m = match Lib::Choice::Other(7) { Lib::Choice::Other(w) => w, _ => 0 }; string_println(int32_to_string(k + m + Lib::g(Lib::Choice::{N}) + Lib::g(Lib::Choice::Other(2)))) }\n//// FILE Lib/lib.gom\npackage Lib\n\nenum Choice { {N}, Other(int32) }\nfn g(e: Choice) -> int32 { match e { Choice::{N} => 1, Choice::Other(v) => v } }\n",
            "11\n",
        ),
        // a variant of a generic enum of an imported package, with one instance in the program
        "lib-generic-variant" => (
            "package Main\nimport Lib\n\nfn main() { let r = match Lib::make(7) { Lib::Res::{N}(v) => v, Lib::Res::Nothing => 0 }; let k = match Lib::size(Lib::make(1)) { 1 => 10, _ => 0 }; string_println(int32_to_string(r + k)) }\n//// FILE Lib/lib.gom\npackage Lib\n\nenum Res[T] { {N}(T), Nothing }\nfn make(n: int32) -> Res[int32] { Res::{N}(n) }\nfn size(r: Res[int32]) -> int32 { match r { Res::{N}(v) => v, Res::Nothing => 0 } }\n",
            "17\n",
        ),
        "fn" => ("fn {N}(a: int32) -> int32 { a + 1 }\nfn main() { let r = {N}(1); string_println(int32_to_string(r)) }\n", "2\n"),
        "param" => ("fn f({N}: int32) -> int32 { {N} + 1 }\nfn main() { string_println(int32_to_string(f(1))) }\n", "2\n"),
        "local" => ("fn main() { let {N} = 5; let other = {N} + 1; string_println(int32_to_string(other + {N})) }\n", "11\n"),
        "patvar" => (
            "enum Opt { Non, Som(int32) }\nfn g(o: Opt) -> int32 { match o { Som({N}) => {N} + 1, Non => 0 } }\nfn main() { string_println(int32_to_string(g(Som(3)))) }\n",
            "4\n",
        ),
        "closure-param" => ("fn main() { let k = 2; let f = |{N}: int32| {N} + k; string_println(int32_to_string(f(3))) }\n", "5\n"),
        "struct" => ("struct {N} { a: int32 }\nfn mk(v: int32) -> {N} { {N} { a: v } }\nfn main() { let s = mk(4); string_println(int32_to_string(s.a)) }\n", "4\n"),
        "field" => ("struct Rec { {N}: int32, other: int32 }\nfn main() { let s = Rec { {N}: 6, other: 1 }; string_println(int32_to_string(s.{N} + s.other)) }\n", "7\n"),
        "enum" => (
            "enum {N} { First, Second(int32) }\nfn g(e: {N}) -> int32 { match e { First => 1, Second(v) => v } }\nfn main() { string_println(int32_to_string(g(Second(8)) + g(First))) }\n",
            "9\n",
        ),
        "variant" => (
            "enum Choice { {N}, Other(int32) }\nfn g(e: Choice) -> int32 { match e { Choice::{N} => 1, Choice::Other(v) => v } }\nfn main() { string_println(int32_to_string(g(Choice::{N}) + g(Choice::Other(2)))) }\n",
            "3\n",
        ),
        "trait" => (
            "trait {N} { fn m(Self) -> int32; }\nimpl {N} for int32 { fn m(self: int32) -> int32 { self + 1 } }\nfn via[U: {N}](u: U) -> int32 { {N}::m(u) }\nfn main() { let d: dyn {N} = 5; string_println(int32_to_string({N}::m(1) + via(2) + {N}::m(d))) }\n",
            "11\n",
        ),
        "method" => (
            "struct Rec { a: int32 }\nimpl Rec { fn {N}(self: Rec, k: int32) -> int32 { self.a + k } }\nfn main() { let s = Rec { a: 1 }; string_println(int32_to_string(s.{N}(2) + Rec::{N}(s, 3))) }\n",
            "7\n",
        ),
        // a method of a trait, reached by path, by dot, through a bound and through a dyn value
        "trait-method" => (
            "trait Tr { fn {N}(Self, int32) -> int32; }\nstruct Rec { a: int32 }\nimpl Tr for Rec { fn {N}(self: Rec, k: int32) -> int32 { self.a + k } }\nfn via[U: Tr](u: U) -> int32 { Tr::{N}(u, 10) }\nfn dot[U: Tr](u: U) -> int32 { u.{N}(3) }\nfn main() { let s: Rec = Rec { a: 1 }; let d: dyn Tr = s; string_println(int32_to_string(Tr::{N}(s, 2) + dot(s) + via(s) + Tr::{N}(d, 100))) }\n",
            "119\n",
        ),
        "tparam" => ("fn id[{N}](x: {N}) -> {N} { x }\nfn main() { string_println(int32_to_string(id(3)) + id(\"s\")) }\n", "3s\n"),
        "fn-and-local" => (
            "fn {N}(a: int32) -> int32 { a * 2 }\nfn main() { let a = 1; let x = 2; let f = 3; let t = 4; let ret = 5; let r = {N}(a + x + f + t + ret); string_println(int32_to_string(r)) }\n",
            "30\n",
        ),
        // a closure captures a function-typed local `f` and calls the top-level function {N}: if {N} is
        // spelled like the local's Go name, the call silently goes to the local
        "fn-next-to-captured-function-local" => (
            "fn small(a: int32) -> int32 { a + 6 }\nfn {N}(a: int32) -> int32 { a + 300 }\nfn main() { let f = small; let c = |q: int32| {N}(q) + f(0); string_println(int32_to_string(c(1))) }\n",
            "307\n",
        ),
        _ => (
            "fn {N}(a: int32) -> int32 { a * 2 }\nfn main() { let k = 1; let c = |q: int32| {N}(q + k); string_println(int32_to_string(c(2))) }\n",
            "6\n",
        ),
    }
}

/// programs whose *generated* names could collide with each other
fn witnesses() -> Vec<(&'static str, &'static str, &'static str)> {
    vec![
        // a type of the program spelled like the Go name a local gets (`a` with index 0 -> `a__0`)
        ("renamed-local-vs-user-struct", "struct a__0 { k: int32 }\nfn main() { let a = 1; let s = a__0 { k: a }; string_println(int32_to_string(s.k + a)) }\n", "2\n"),
        ("renamed-local-vs-user-enum", "enum a__0 { Pa(int32), Pb }\nfn pick(e: a__0) -> int32 { match e { a__0::Pa(k) => k, a__0::Pb => 0 } }\nfn main() { let a = 1; let e: a__0 = a__0::Pa(a); string_println(int32_to_string(pick(e) + a)) }\n", "2\n"),
        ("renamed-local-vs-user-variant", "enum Ee { a__0(int32), Pb }\nfn pick(e: Ee) -> int32 { match e { Ee::a__0(k) => k, Ee::Pb => 0 } }\nfn main() { let a = 1; let e = Ee::a__0(a); string_println(int32_to_string(pick(e) + a)) }\n", "2\n"),
        // a function or type of the program spelled like the name an instance of a generic one gets
        ("fn-instance-vs-user-fn", "fn id[T](x: T) -> T { x }\nfn id__T_int32(x: int32) -> int32 { x + 100 }\nfn main() { string_println(int32_to_string(id(1) + id__T_int32(3))) }\n", "104\n"),
        ("struct-instance-vs-user-struct", "struct Box[T] { v: T }\nstruct Box__int32 { w: string }\nfn main() { let p = Box { v: 1 }; let q = Box__int32 { w: \"w\" }; string_println(int32_to_string(p.v) + q.w) }\n", "1w\n"),
        ("enum-instance-vs-user-enum", "enum Opt[T] { None, Some(T) }\nenum Opt__int32 { Some(string), None }\nfn main() { let a: Opt[int32] = Opt::Some(1); let b = Opt__int32::Some(\"s\"); let x = match a { Opt::Some(n) => n, Opt::None => 0 }; let y = match b { Opt__int32::Some(t) => t, Opt__int32::None => \"none\" }; string_println(int32_to_string(x) + y) }\n", "1s\n"),
        ("enum-instance-vs-user-enum-variants-in-the-same-order", "enum Opt[T] { None, Some(T) }\nenum Opt__int32 { None, Some(string) }\nfn main() { let a: Opt[int32] = Opt::Some(1); let b = Opt__int32::Some(\"s\"); let x = match a { Opt::Some(n) => n, Opt::None => 0 }; let y = match b { Opt__int32::Some(t) => t, Opt__int32::None => \"none\" }; string_println(int32_to_string(x) + y) }\n", "1s\n"),
        // two instances of one generic *type* whose names are spelled alike: requested one after the other, and the second
        // requested while the first is still being built (it occurs in the first's own fields)
        ("two-type-instances-of-one-spelling", "struct X { a: int32 }\nstruct X__X { a: int32 }\nstruct P[A, B] { a: A, b: B }\nfn main() { let p: P[X, X__X] = P { a: X { a: 1 }, b: X__X { a: 2 } }; let q: P[X__X, X] = P { a: X__X { a: 3 }, b: X { a: 4 } }; string_println(int32_to_string(p.a.a * 1000 + p.b.a * 100 + q.a.a * 10 + q.b.a)) }\n", "1234\n"),
        ("two-type-instances-of-one-spelling-one-inside-the-other", "struct X { a: int32 }\nstruct X__X { a: int32 }\nenum Flip[A, B] { End(A, B), More(A, Flip[B, A]) }\nfn depth[A, B](f: Flip[A, B]) -> int32 { match f { Flip::End(a, b) => 0, Flip::More(a, r) => 1 + depth(r) } }\nfn main() { let e: Flip[X__X, X] = Flip::End(X__X { a: 1 }, X { a: 2 }); let m: Flip[X, X__X] = Flip::More(X { a: 3 }, e); string_println(int32_to_string(depth(m))) }\n", "1\n"),
        ("two-type-instances-of-one-spelling-one-inside-the-other-struct", "struct X { a: int32 }\nstruct X__X { a: int32 }\nenum Opt[T] { Non, Som(T) }\nstruct Flip[A, B] { a: A, next: Opt[Flip[B, A]] }\nfn main() { let e: Flip[X__X, X] = Flip { a: X__X { a: 1 }, next: Opt::Non }; let m: Flip[X, X__X] = Flip { a: X { a: 3 }, next: Opt::Som(e) }; string_println(int32_to_string(m.a.a)) }\n", "3\n"),
        ("instance-of-a-type-named-like-an-instance-inside-it", "struct X { a: int32 }\nstruct Y { a: int32 }\nstruct Pair__X[T] { t: T }\nstruct Pair[A, B] { a: A, p: Pair__X[B] }\nfn main() { let v: Pair[X, Y] = Pair { a: X { a: 1 }, p: Pair__X { t: Y { a: 2 } } }; string_println(int32_to_string(v.a.a * 10 + v.p.t.a)) }\n", "12\n"),
        // a variant spelled like a struct the compiler makes up, in a program that has that struct
        ("variant-vs-struct-instance", "struct Box[T] { v: T }\nenum Tag { Box__int32, Other(int32) }\nfn g(t: Tag) -> int32 { match t { Tag::Box__int32 => 1, Tag::Other(v) => v } }\nfn main() { let b = Box { v: 5 }; string_println(int32_to_string(g(Tag::Box__int32) + g(Tag::Other(2)) + b.v)) }\n", "8\n"),
        ("variant-vs-closure-environment", "enum Tag { closure_env_f_0(int32), Other(int32) }\nfn g(t: Tag) -> int32 { match t { Tag::closure_env_f_0(k) => k, Tag::Other(v) => v } }\nfn main() { let z = 1; let f = |q: int32| q + z; string_println(int32_to_string(g(Tag::closure_env_f_0(1)) + g(Tag::Other(2)) + f(5))) }\n", "9\n"),
        ("variant-vs-tuple-struct", "enum Tag { Tuple2_int32_bool, Other(int32) }\nfn g(t: Tag) -> int32 { match t { Tag::Tuple2_int32_bool => 1, Tag::Other(v) => v } }\nfn main() { let p = (5, true); string_println(int32_to_string(g(Tag::Tuple2_int32_bool) + g(Tag::Other(2)) + p.0)) }\n", "8\n"),
        ("variant-vs-reference-cell-struct", "enum Tag { ref_int32_x(int32), Other(int32) }\nfn g(t: Tag) -> int32 { match t { Tag::ref_int32_x(k) => k, Tag::Other(v) => v } }\nfn main() { let r = ref(5); string_println(int32_to_string(g(Tag::ref_int32_x(1)) + g(Tag::Other(2)) + ref_get(r))) }\n", "8\n"),
        ("variant-vs-trait-object-struct", "trait Tr { fn m(Self) -> int32; }\nimpl Tr for int32 { fn m(self: int32) -> int32 { self } }\nenum Tag { dyn__Tr, Other(int32) }\nfn g(t: Tag) -> int32 { match t { Tag::dyn__Tr => 1, Tag::Other(v) => v } }\nfn main() { let d: dyn Tr = 5; string_println(int32_to_string(g(Tag::dyn__Tr) + g(Tag::Other(2)) + Tr::m(d))) }\n", "8\n"),
        ("variant-vs-enum-instance", "enum Opt[T] { Non, Som(T) }\nenum Tag { Opt__int32, Other(int32) }\nfn g(t: Tag) -> int32 { match t { Tag::Opt__int32 => 1, Tag::Other(v) => v } }\nfn main() { let o: Opt[int32] = Opt::Som(5); let k = match o { Opt::Som(v) => v, Opt::Non => 0 }; string_println(int32_to_string(g(Tag::Opt__int32) + g(Tag::Other(2)) + k)) }\n", "8\n"),
        // a function-typed local of a library named like a generic function of Main (the library's temporaries are numbered
        // when the library is built, before Main's items are known)
        ("library-temporary-vs-generic-fn-of-main", "package Main\nimport Lib\n\nfn x0[T](a: T) -> T { a }\nfn main() {\n    string_println(int32_to_string(x0(5)));\n    string_println(int32_to_string(Lib::sel((|v: int32| v * 2, 21))))\n}\n//// FILE Lib/lib.gom\npackage Lib\n\nfn sel(p: ((int32) -> int32, int32)) -> int32 { match p { (f, n) => f(n) } }\n", "5\n42\n"),
        ("two-instances-of-one-spelling", "struct X__B_Y { a: int32 }\nstruct Z { a: int32 }\nstruct X { a: int32 }\nstruct Y__B_Z { a: int32 }\nfn first[A, B](a: A, b: B) -> A { a }\nfn main() { let p = first(X__B_Y { a: 1 }, Z { a: 2 }); let q = first(X { a: 3 }, Y__B_Z { a: 4 }); string_println(int32_to_string(p.a) + int32_to_string(q.a)) }\n", "13\n"),
        ("tuple-struct-vs-user-struct", "struct Tuple2_int32_bool { k: int32 }\nfn main() { let t = (1, true); let u = Tuple2_int32_bool { k: 2 }; string_println(int32_to_string(t.0 + u.k)) }\n", "3\n"),
        ("closure-env-vs-user-struct", "struct closure_env_f_0 { k: int32 }\nfn main() { let z = 1; let f = |q: int32| q + z; let u = closure_env_f_0 { k: 2 }; string_println(int32_to_string(f(3) + u.k)) }\n", "6\n"),
        ("anonymous-closure-env-vs-user-struct", "struct closure_env_main_0 { k: int32 }\nfn ap(g: (int32) -> int32, x: int32) -> int32 { g(x) }\nfn main() { let z = 1; let u = closure_env_main_0 { k: 2 }; string_println(int32_to_string(ap(|q: int32| q + z, 3) + u.k)) }\n", "6\n"),
        ("closure-env-vs-user-fn", "fn closure_env_f_0(a: int32) -> int32 { a + 1 }\nfn main() { let z = 1; let f = |q: int32| q + z; string_println(int32_to_string(f(3) + closure_env_f_0(1))) }\n", "6\n"),
        ("ref-struct-vs-user-struct", "struct ref_int32_x { k: int32 }\nfn main() { let r = ref(1); let u = ref_int32_x { k: 2 }; string_println(int32_to_string(ref_get(r) + u.k)) }\n", "3\n"),
        ("variant-vs-struct", "enum E { A, B(int32) }\nstruct A { k: int32 }\nfn g(e: E) -> int32 { match e { E::A => 1, E::B(v) => v } }\nfn main() { let u = A { k: 2 }; string_println(int32_to_string(g(E::A) + u.k)) }\n", "3\n"),
        ("same-variant-two-enums", "enum E { A, B(int32) }\nenum F { A, C(int32) }\nfn g(e: E) -> int32 { match e { E::A => 1, E::B(v) => v } }\nfn h(e: F) -> int32 { match e { F::A => 10, F::C(v) => v } }\nfn main() { string_println(int32_to_string(g(E::A) + h(F::A))) }\n", "11\n"),
        ("mono-name-vs-user-fn", "fn id[T](x: T) -> T { x }\nfn id__T_int32(x: int32) -> int32 { x + 100 }\nfn main() { string_println(int32_to_string(id(1) + id__T_int32(1))) }\n", "102\n"),
        ("local-suffix-vs-fn", "fn a__0() -> int32 { 7 }\nfn a__1() -> int32 { 8 }\nfn main() { let a = 1; string_println(int32_to_string(a__0() + a__1() + a)) }\n", "16\n"),
        ("underscore-types", "struct A_B { k: int32 }\nstruct A { k: int32 }\nfn f(p: (A_B, int32)) -> int32 { p.1 }\nfn g(p: (A, (int32, int32))) -> int32 { p.0.k }\nfn main() { string_println(int32_to_string(f((A_B { k: 1 }, 2)) + g((A { k: 3 }, (4, 5))))) }\n", "5\n"),
        ("tuple-name-ambiguity", "struct B_int32 { k: int32 }\nstruct B { k: int32 }\nfn f(p: (B_int32, bool)) -> int32 { p.0.k }\nfn g(p: (B, int32, bool)) -> int32 { p.1 }\nfn main() { string_println(int32_to_string(f((B_int32 { k: 1 }, true)) + g((B { k: 2 }, 3, false)))) }\n", "4\n"),
        ("inherent-vs-trait-method", "struct S { a: int32 }\ntrait T { fn m(Self) -> int32; }\nimpl T for S { fn m(self: S) -> int32 { 1 } }\nimpl S { fn m2(self: S) -> int32 { 2 } }\nfn main() { let s = S { a: 0 }; string_println(int32_to_string(T::m(s) + s.m2())) }\n", "3\n"),
        ("dyn-struct-vs-user", "trait Tr { fn m(Self) -> int32; }\nimpl Tr for int32 { fn m(self: int32) -> int32 { self } }\nstruct dyn__Tr { k: int32 }\nfn main() { let d: dyn Tr = 4; let u = dyn__Tr { k: 1 }; string_println(int32_to_string(Tr::m(d) + u.k)) }\n", "5\n"),
        ("main0-vs-user", "fn main0() -> int32 { 9 }\nfn main() { string_println(int32_to_string(main0())) }\n", "9\n"),
        ("array-helper-vs-user", "fn array_get__Array_2_int32(a: int32) -> int32 { a }\nfn main() { let xs = [1, 2]; string_println(int32_to_string(array_get(xs, 1) + array_get__Array_2_int32(5))) }\n", "7\n"),
        // the entry point named by the program itself (its Go function is `main0`; Go's `main` has no result)
        ("entry-point-called-as-a-branch-result", "fn again(n: int32) -> unit { if n > 0 { main() } else { () } }\nfn main() { string_println(\"m\"); again(0) }\n", "m\n"),
        ("entry-point-called-in-a-let", "fn again(n: int32) -> unit { if n > 0 { let u = main(); u } else { () } }\nfn main() { string_println(\"m\"); again(0) }\n", "m\n"),
        ("entry-point-called-as-a-statement", "fn again(n: int32) -> unit { if n > 0 { main(); () } else { () } }\nfn main() { string_println(\"m\"); again(0) }\n", "m\n"),
        ("entry-point-called-as-a-function-result", "fn again() -> unit { main() }\nfn guard(n: int32) -> unit { if n > 0 { again() } else { () } }\nfn main() { string_println(\"m\"); guard(0) }\n", "m\n"),
        ("entry-point-passed-as-a-value", "fn run(f: () -> unit, n: int32) -> unit { if n > 0 { f() } else { () } }\nfn main() { string_println(\"m\"); run(main, 0) }\n", "m\n"),
        ("entry-point-bound-to-a-local", "fn main() { string_println(\"m\"); let f = main; let n = 0; if n > 0 { f() } else { () } }\n", "m\n"),
        ("entry-point-called-in-a-closure", "fn main() { string_println(\"m\"); let n = 0; let c = |k: int32| if k > 0 { main() } else { () }; c(n) }\n", "m\n"),
        ("entry-point-called-in-a-match-arm", "fn again(n: int32) -> unit { match n { 0 => (), _ => main() } }\nfn main() { string_println(\"m\"); again(0) }\n", "m\n"),
        ("entry-point-spawned", "fn again(n: int32) -> unit { if n > 0 { go main } else { () } }\nfn main() { string_println(\"m\"); again(0) }\n", "m\n"),
        ("entry-point-in-a-tuple", "fn again(n: int32) -> unit { if n > 0 { let t = (main(), 1); () } else { () } }\nfn main() { string_println(\"m\"); again(0) }\n", "m\n"),
        // `#` (the separator of composed names) and `_` are both written `_`: two methods whose type and method names split differently
        ("method-names-split-differently", "struct A { k: int32 }\nstruct A_A { k: int32 }\nimpl A { fn A_A_b(self: A) -> int32 { self.k } }\nimpl A_A { fn b(self: A_A) -> int32 { self.k + 10 } }\nfn main() { let x = A { k: 1 }; let y = A_A { k: 2 }; string_println(int32_to_string(x.A_A_b() + y.b())) }\n", "13\n"),
        ("shadow-builtin-fn", "fn string_len(s: string) -> int32 { 99 }\nfn main() { string_println(int32_to_string(string_len(\"ab\"))) }\n", "99\n"),
    ]
}

/// two source entities of one name in one namespace: no Go identifier can serve both, so the
/// only consistent answer is a diagnostic (accepting means one entity is dropped or redeclared)
fn duplicates() -> Vec<(&'static str, &'static str)> {
    vec![
        // one binder spelled twice in one pattern or one closure parameter list: which one a use means is anybody's guess
        ("tuple-pattern-binders", "fn main() { let (b, b) = (1, 2); string_println(int32_to_string(b)) }\n"),
        ("nested-tuple-pattern-binders", "fn main() { let ((a, b), a) = ((1, 2), 3); string_println(int32_to_string(a + b)) }\n"),
        ("match-arm-tuple-binders", "fn main() { let r = match (1, 2) { (a, a) => a }; string_println(int32_to_string(r)) }\n"),
        ("constructor-pattern-binders", "enum Ep { Ap(int32, int32), Bp }\nfn main() { let r = match Ap(1, 2) { Ap(a, a) => a, Bp => 0 }; string_println(int32_to_string(r)) }\n"),
        ("struct-pattern-binders", "struct Sp { p: int32, q: int32 }\nfn main() { let Sp { p: k, q: k } = Sp { p: 1, q: 2 }; string_println(int32_to_string(k)) }\n"),
        ("closure-parameters", "fn main() { let f = |q: int32, q: int32| q; string_println(int32_to_string(f(1, 2))) }\n"),
        ("closure-parameters-unannotated", "fn main() { let f = |q, q| q + 1; string_println(int32_to_string(f(1, 2))) }\n"),
        ("fn-fn", "fn zzq() -> int32 { 1 }\nfn zzq() -> int32 { 2 }\nfn main() { string_println(int32_to_string(zzq())) }\n"),
        ("fn-fn-other-signature", "fn zzq() -> int32 { 1 }\nfn zzq(a: int32) -> int32 { a }\nfn main() { string_println(int32_to_string(zzq())) }\n"),
        ("struct-struct", "struct Zq { a: int32 }\nstruct Zq { b: bool }\nfn main() { let s = Zq { b: true }; string_println(bool_to_string(s.b)) }\n"),
        ("enum-enum", "enum Zq { A, B }\nenum Zq { C }\nfn main() { let e = C; string_println(\"x\") }\n"),
        ("struct-enum", "struct Zq { a: int32 }\nenum Zq { A }\nfn main() { string_println(\"x\") }\n"),
        ("enum-struct", "enum Zq { A }\nstruct Zq { a: int32 }\nfn main() { string_println(\"x\") }\n"),
        ("trait-trait", "trait Tq { fn m(Self) -> int32; }\ntrait Tq { fn n(Self) -> int32; }\nimpl Tq for int32 { fn n(self: int32) -> int32 { self } }\nfn main() { string_println(int32_to_string(Tq::n(1))) }\n"),
        ("fn-params", "fn dup(x: int32, x: int32) -> int32 { x }\nfn main() { string_println(int32_to_string(dup(1, 2))) }\n"),
        ("fn-params-apart", "fn dup(x: int32, y: bool, x: int32) -> int32 { x }\nfn main() { string_println(int32_to_string(dup(1, true, 2))) }\n"),
        ("method-params", "struct S { a: int32 }\nimpl S { fn m(self: S, k: int32, k: int32) -> int32 { k } }\nfn main() { let s = S { a: 1 }; string_println(int32_to_string(s.m(1, 2))) }\n"),
        ("method-param-self", "struct S { a: int32 }\nimpl S { fn m(self: S, self: int32) -> int32 { self } }\nfn main() { let s = S { a: 1 }; string_println(int32_to_string(s.m(2))) }\n"),
        ("trait-impl-method-params", "trait Tq { fn m(Self, int32, int32) -> int32; }\nimpl Tq for int32 { fn m(self: int32, k: int32, k: int32) -> int32 { k } }\nfn main() { string_println(int32_to_string(Tq::m(1, 2, 3))) }\n"),
        ("variant-variant", "enum E { A, A }\nfn main() { let e = A; string_println(\"x\") }\n"),
        ("variant-variant-payload", "enum E { A, A(int32) }\nfn main() { let e = A; string_println(\"x\") }\n"),
        ("variant-variant-apart", "enum E { A(int32), B, A(bool) }\nfn main() { let e = B; string_println(\"x\") }\n"),
        ("field-field", "struct S { a: int32, a: bool }\nfn main() { let s = S { a: 1 }; string_println(\"x\") }\n"),
        ("field-field-same-type", "struct S { a: int32, b: int32, a: int32 }\nfn main() { let s = S { a: 1, b: 2 }; string_println(\"x\") }\n"),
        ("extern-fn", "extern \"go\" \"strings\" \"ToUpper\" zzq(s: string) -> string\nfn zzq(s: string) -> string { s }\nfn main() { string_println(zzq(\"a\")) }\n"),
        ("fn-extern", "fn zzq(s: string) -> string { s }\nextern \"go\" \"strings\" \"ToUpper\" zzq(s: string) -> string\nfn main() { string_println(zzq(\"a\")) }\n"),
        // a foreign function under the name of a builtin: calls of builtins are recognised by name (also the calls the derives generate)
        ("extern-named-like-a-builtin-helper", "extern \"go\" \"strings\" \"ToUpper\" int32_to_string(s: int32) -> string\nfn main() { string_println(int32_to_string(1)) }\n"),
        ("extern-named-like-the-json-helper", "extern \"go\" \"strings\" \"ToUpper\" json_escape_string(s: string) -> string\n#[derive(ToJson)]\nstruct Pj { name: string }\nfn main() { string_println(Pj { name: \"a\" }.to_json()) }\n"),
        ("extern-named-like-a-builtin-expanded-in-place", "extern \"go\" \"strings\" \"Count\" vec_len(v: Vec[int32]) -> int32\nfn main() { let v: Vec[int32] = vec_new(); string_println(int32_to_string(vec_len(v))) }\n"),
        ("extern-named-like-the-printing-builtin", "extern \"go\" \"strings\" \"ToUpper\" string_println(s: string) -> unit\nfn main() { string_println(\"a\") }\n"),
        ("extern-named-like-a-builtin-never-called", "extern \"go\" \"strings\" \"ToLower\" bool_to_string(b: bool) -> string\nfn main() { string_println(\"a\") }\n"),
        ("method-method", "struct S { a: int32 }\nimpl S { fn m(self: S) -> int32 { 1 } fn m(self: S) -> int32 { 2 } }\nfn main() { let s = S { a: 1 }; string_println(int32_to_string(s.m())) }\n"),
        ("trait-impl-method-method", "trait Tq { fn m(Self) -> int32; }\nimpl Tq for int32 { fn m(self: int32) -> int32 { 1 } fn m(self: int32) -> int32 { 2 } }\nfn main() { string_println(int32_to_string(Tq::m(1))) }\n"),
    ]
}

/// nested matches on two enum-typed variables: the word gives the scrutinee of each level (each level
/// sits in the first arm of the one above). The Go type switch of a level rebinds its variable's
/// identifier inside its cases; a deeper match on the same variable needs the enum-typed one.
fn rebinding_words() -> Vec<String> {
    let mut out = vec!["x".to_string()];
    let mut frontier = vec!["x".to_string()];
    for _ in 0..3 {
        let mut next = Vec::new();
        for w in &frontier {
            for c in ["x", "y"] {
                next.push(format!("{}{}", w, c));
            }
        }
        out.extend(next.iter().cloned());
        frontier = next;
    }
    out
}

/// (source, expected output) for one word; `in_closure`: the innermost level sits in a closure that is
/// called at once
fn rebinding_program(word: &str, in_closure: bool) -> (String, String) {
    let levels: Vec<char> = word.chars().collect();
    let n = levels.len();
    // innermost value
    let mut body = "1".to_string();
    for (i, c) in levels.iter().enumerate().rev() {
        let level = i + 1;
        let inner = if in_closure && i == n - 1 && n > 1 { format!("{{ let thunk = || {}; thunk() }}", body) } else { body.clone() };
        body = if *c == 'x' {
            format!("match x {{ Color::Red => {}, Color::Green(n{l}) => n{l} + {k} }}", inner, l = level, k = level * 100)
        } else {
            format!("match y {{ Mode::Fast => {}, Mode::Slow(m{l}) => m{l} + {k} }}", inner, l = level, k = level * 100)
        };
    }
    let src = format!(
        "enum Color {{ Red, Green(int32) }}\nenum Mode {{ Fast, Slow(int32) }}\nfn pick(x: Color, y: Mode) -> int32 {{\n    {}\n}}\nfn main() {{\n    string_println(int32_to_string(pick(Color::Red, Mode::Fast)));\n    string_println(int32_to_string(pick(Color::Green(5), Mode::Fast)));\n    string_println(int32_to_string(pick(Color::Red, Mode::Slow(7))));\n    string_println(int32_to_string(pick(Color::Green(5), Mode::Slow(7))))\n}}\n",
        body
    );
    let first_y = levels.iter().position(|c| *c == 'y');
    let red_slow = match first_y {
        Some(j) => 7 + (j as i64 + 1) * 100,
        None => 1,
    };
    (src, format!("1\n105\n{}\n105\n", red_slow))
}

/// re-matches of one enum variable that stand next to each other inside an arm of a match on it
/// (name, source, expected output)
fn rebinding_sequences() -> Vec<(&'static str, String, &'static str)> {
    let mx = |k: i32| format!("match x {{ Color::Red => {k}, Color::Green(n{k}) => n{k} + {k} }}", k = k);
    let my = |k: i32, inner: &str| format!("match y {{ Mode::Fast => {}, Mode::Slow(m{k}) => m{k} + {k} }}", inner, k = k);
    let wrap = |red_arm: String| {
        format!(
            "enum Color {{ Red, Green(int32) }}\nenum Mode {{ Fast, Slow(int32) }}\nfn pick(x: Color, y: Mode) -> int32 {{\n    match x {{\n        Color::Red => {{\n{}        }},\n        Color::Green(n0) => n0 + 1000,\n    }}\n}}\nfn main() {{\n    string_println(int32_to_string(pick(Color::Red, Mode::Fast)));\n    string_println(int32_to_string(pick(Color::Green(5), Mode::Fast)));\n    string_println(int32_to_string(pick(Color::Red, Mode::Slow(7))));\n    string_println(int32_to_string(pick(Color::Green(5), Mode::Slow(7))))\n}}\n",
            red_arm
        )
    };
    vec![
        ("x[x;x]", wrap(format!("            let a = {};\n            let b = {};\n            a + b\n", mx(1), mx(2))), "3\n1005\n3\n1005\n"),
        ("x[x;y;x]", wrap(format!("            let a = {};\n            let c = {};\n            let b = {};\n            a + c + b\n", mx(1), my(10, "20"), mx(2))), "23\n1005\n20\n1005\n"),
        ("x[y[x];x]", wrap(format!("            let a = {};\n            let b = {};\n            a + b\n", my(10, &mx(1)), mx(2))), "3\n1005\n19\n1005\n"),
        ("x[x[x];x]", wrap(format!("            let a = match x {{ Color::Red => {}, Color::Green(q) => q }};\n            let b = {};\n            a + b\n", mx(1), mx(2))), "3\n1005\n3\n1005\n"),
        ("x[x;x;x]", wrap(format!("            let a = {};\n            let b = {};\n            let c = {};\n            a + b + c\n", mx(1), mx(2), mx(3))), "6\n1005\n6\n1005\n"),
        ("x[if[x];x]", wrap(format!("            let a = if true {{ {} }} else {{ 0 }};\n            let b = {};\n            a + b\n", mx(1), mx(2))), "3\n1005\n3\n1005\n"),
        ("x[closure[x];x]", wrap(format!("            let f = || {};\n            let b = {};\n            f() + b\n", mx(1), mx(2))), "3\n1005\n3\n1005\n"),
    ]
}

pub struct NamesFamily;

fn run_text(ctx: &mut Ctx, text: &str) -> Result<Obs, (String, String)> {
    // `//// FILE <relative path>` starts another file of the project (the first part is main.gom)
    let (path, main_text): (std::path::PathBuf, String) = if text.contains("//// FILE ") {
        let root = ctx.scratch.fresh_dir("names");
        let mut parts = text.split("//// FILE ");
        let main_text = parts.next().unwrap_or("").to_string();
        for part in parts {
            let (rel, body) = part.split_once('\n').unwrap_or((part, ""));
            let p = root.join(rel.trim());
            std::fs::create_dir_all(p.parent().unwrap()).ok();
            std::fs::write(&p, body).ok();
        }
        let mp = root.join("main.gom");
        std::fs::write(&mp, &main_text).ok();
        (mp, main_text)
    } else {
        (ctx.scratch.single_path(), text.to_string())
    };
    let text = main_text.as_str();
    match compile_at(&path, text) {
        CompileOutcome::Ok(c) => {
            let go = go_text(&c).map_err(|m| ("gopp.panic".to_string(), m))?;
            let gr = analyse_and_run(go, FUEL);
            match (&gr.verdict, &gr.run) {
                (GoVerdict::Ok(_), Some(r)) => Ok(obs_of_go(r)),
                (GoVerdict::Rejected(errs), _) => Err((format!("go.{}", errs[0].rule), format!("line {}: {}", errs[0].line, errs[0].msg))),
                (GoVerdict::Unsupported(m), _) => Err(("machinery.go-unsupported".into(), m.clone())),
                _ => Err(("machinery".into(), "no run".into())),
            }
        }
        CompileOutcome::Err(e) => {
            let (stage, msg) = describe_err(&e);
            Err((format!("rejected.{}", stage), msg))
        }
        CompileOutcome::Panic(m) => Err(("compile.panic".into(), normalise_msg(&m))),
    }
}


impl Family for NamesFamily {
    fn name(&self) -> &'static str {
        "names"
    }
    fn serves(&self) -> &'static [&'static str] {
        &["C19", "C02", "C04", "C14", "C07"]
    }
    fn rule(&self) -> &'static str {
        "95 hostile identifiers (Go keywords that goml allows, predeclared identifiers, runtime helper names, the builtins expanded at their call sites, compiler temporaries, generated type/helper names, spellings of the compiler's own type representation, the entry point's names, mangling look-alikes such as a__0) x 20 roles (a variant of a generic enum of an imported package with one instance; a trait method reached by path, by dot, through a bound and through a dyn value; a fn called from a closure that captures a function-typed local, fn / struct / variant of an imported package (these through whole-program compilation and through build + link), fn, param, local, pattern variable, closure parameter, struct, field, enum, variant, trait, method, type parameter, fn next to temporaries, fn called from a closure) plus 34 collision witnesses for generated names (10 of them programs that name their own entry point: called as a branch / function / arm result, in a let, as a statement, in a closure, in a tuple, passed or bound as a value, spawned) (5 for the names of generic instances, 3 for types spelled like a renamed local), plus 33 programs declaring two entities of one name in one namespace (5 of them foreign functions under the name of a builtin) (functions, types, traits, parameters of functions/methods/impl methods, variants, fields, extern vs fn, methods of one impl, one binder twice in a tuple / nested / constructor / struct pattern or in a closure's parameter list) that must be rejected, plus 29 programs of nested matches on two enum-typed variables (every word of length <= 4 over {x, y} beginning with x as the scrutinees from the outside in; the innermost level also inside a closure called at once) and 7 programs in which re-matches of the variable stand next to each other inside an arm of a match on it (with a match on the other variable, an if or a closure between or around them), and 364 programs with a local spelled field0..field27, as the last of 1..13 parameters of a function whose body is a struct literal written in another order than declared (whose field values the compiler names); whose Go type switches rebind the scrutinee's identifier inside their cases; oracle: emitted Go passes the Go checker and prints exactly what the twin with a benign identifier prints (= the hard-wired expected output). non-trivial = cases whose hostile name survives into the Go text unescaped or mangled; distinct = distinct source text"
    }
    fn cases(&self, _tier: Tier) -> Box<dyn Iterator<Item = Value> + '_> {
        let mut v = Vec::new();
        for h in HOSTILE {
            for r in ROLES {
                v.push(json!({"kind": "hostile", "name": h, "role": r}));
            }
        }
        for (w, _, _) in witnesses() {
            v.push(json!({"kind": "witness", "name": w}));
        }
        // items spelled like a temporary with any number a busy function reaches (one counter serves all
        // prefixes), alone and next to an item whose trailing number is smaller but sorts after it as text
        for prefix in ["x", "t", "mtmp", "ret", "cond", "env", "wild"] {
            for n in 0..=80u64 {
                for decoy in ["", "log2", "md9"] {
                    for place in ["main", "lib"] {
                        if _tier == Tier::Quick && place == "lib" && decoy == "md9" {
                            continue;
                        }
                        v.push(json!({"kind": "temp-number", "prefix": prefix, "n": n, "decoy": decoy, "place": place}));
                    }
                }
                // a generic function of Main spelled like a temporary of a library whose temporaries hold functions
                if n <= 45 {
                    v.push(json!({"kind": "temp-number-generic", "prefix": prefix, "n": n}));
                }
            }
        }
        for (d, _) in duplicates() {
            v.push(json!({"kind": "duplicate", "name": d}));
        }
        for (nm, _, _) in rebinding_sequences() {
            v.push(json!({"kind": "rebinding-sequence", "name": nm}));
        }
        // a local spelled like the names the compiler gives to the values of a struct literal whose fields
        // are written in another order than declared (`field<i>`), declared after 0..12 other locals
        for k in 0..28 {
            for pads in 0..13 {
                v.push(json!({"kind": "struct-literal-temporaries", "k": k, "pads": pads}));
            }
        }
        for w in rebinding_words() {
            v.push(json!({"kind": "rebinding", "name": w, "closure": false}));
            if w.len() > 1 {
                v.push(json!({"kind": "rebinding", "name": w, "closure": true}));
            }
        }
        Box::new(v.into_iter())
    }
    fn run(&self, case: &Value, ctx: &mut Ctx) -> Report {
        let mut rep = Report::default();
        if case["kind"] == "duplicate" {
            let name = case["name"].as_str().unwrap();
            let text = duplicates().into_iter().find(|(n, _)| *n == name).unwrap().1.to_string();
            let replay = json!({"kind": "text", "text": text, "oracle": "must-reject"});
            rep.nontrivial_key = Some(text.clone());
            let path = ctx.scratch.single_path();
            match compile_at(&path, &text) {
                CompileOutcome::Err(e) => {
                    let (stage, msg) = describe_err(&e);
                    rep.tag(format!("duplicate:rejected:{}", stage));
                    rep.outcome = Some(format!("rejected:{}", normalise_msg(&msg)));
                }
                CompileOutcome::Ok(c) => {
                    rep.tag("duplicate:accepted");
                    rep.outcome = Some("accepted".into());
                    rep.findings.push(Finding {
                        property: "C19",
                        class: "names.duplicate-accepted".into(),
                        site: format!("duplicate={}", name),
                        detail: "two source entities share one name in one namespace and the program was accepted".into(),
                        replay: replay.clone(),
                    });
                    if let Ok(go) = go_text(&c) {
                        if let GoVerdict::Rejected(errs) = &analyse_and_run(go, FUEL).verdict {
                            rep.findings.push(Finding {
                                property: "C02",
                                class: format!("go.{}", errs[0].rule),
                                site: format!("duplicate={}", name),
                                detail: format!("line {}: {}", errs[0].line, errs[0].msg),
                                replay,
                            });
                        }
                    }
                }
                CompileOutcome::Panic(m) => {
                    let m = normalise_msg(&m);
                    for p in ["C19", "C04"] {
                        rep.findings.push(Finding { property: p, class: "compile.panic".into(), site: format!("duplicate={};msg={}", name, m), detail: m.clone(), replay: replay.clone() });
                    }
                }
            }
            return rep;
        }
        let (text, expected, site) = if case["kind"] == "struct-literal-temporaries" {
            let (k, pads) = (case["k"].as_u64().unwrap(), case["pads"].as_u64().unwrap());
            // the literal stands in the first function of the file (expression indices start there); its
            // parameters give the local the index wanted without adding expressions
            let mut params: Vec<String> = (0..pads).map(|i| format!("pad{}: int32", i)).collect();
            params.push(format!("field{}: int32", k));
            let mut args: Vec<String> = (0..pads).map(|i| i.to_string()).collect();
            args.push("200".to_string());
            let t = format!(
                "struct P3 {{ fa: int32, fb: int32, fc: int32 }}\nfn mk({}) -> P3 {{\n    P3 {{ fc: field{k} + 1, fb: 2, fa: field{k} + 3 }}\n}}\nfn main() {{\n    let t = mk({});\n    string_println(int32_to_string(t.fa) + \",\" + int32_to_string(t.fb) + \",\" + int32_to_string(t.fc) + \",\" + int32_to_string(200))\n}}\n",
                params.join(", "),
                args.join(", "),
                k = k
            );
            (t, "203,2,201,200\n".to_string(), format!("struct-literal-temporaries;local=field{};locals-before={}", k, pads))
        } else if case["kind"] == "rebinding-sequence" {
            let nm = case["name"].as_str().unwrap();
            let (_, t, e) = rebinding_sequences().into_iter().find(|(n, _, _)| *n == nm).unwrap();
            (t, e.to_string(), format!("rebinding-sequence={}", nm))
        } else if case["kind"] == "rebinding" {
            let (w, c) = (case["name"].as_str().unwrap(), case["closure"].as_bool().unwrap_or(false));
            let (t, e) = rebinding_program(w, c);
            (t, e, format!("rebinding={}{}", w, if c { ";innermost-in-closure" } else { "" }))
        } else if case["kind"] == "temp-number-generic" {
            let (prefix, n) = (case["prefix"].as_str().unwrap(), case["n"].as_u64().unwrap());
            let item = format!("{}{}", prefix, n);
            let mut body = String::new();
            for i in 0..6 {
                body.push_str(&format!("    let f{i} = |q: int32| q + {k};\n    let p{i} = match (f{i}, g({i})) {{ (h, m) => h(m) }};\n", i = i, k = i + 1));
            }
            let text = format!(
                "package Main\nimport Lib\n\nfn {item}[T](a: T) -> T {{ a }}\nfn main() {{\n    string_println(int32_to_string(Lib::busy(1) + {item}(7)))\n}}\n//// FILE Lib/lib.gom\npackage Lib\n\nfn g(a: int32) -> int32 {{ a }}\nfn busy(x: int32) -> int32 {{\n{body}    p0 + p1 + p2 + p3 + p4 + p5 + x\n}}\n",
                item = item,
                body = body
            );
            (text, "44\n".to_string(), format!("temp-number-generic;prefix={};n={}", prefix, n))
        } else if case["kind"] == "temp-number" {
            let (prefix, n, decoy, place) = (case["prefix"].as_str().unwrap(), case["n"].as_u64().unwrap(), case["decoy"].as_str().unwrap(), case["place"].as_str().unwrap());
            let item = format!("{}{}", prefix, n);
            let mut body = String::new();
            for i in 0..6 {
                body.push_str(&format!("    let k{i} = if g({i}) > 0 {{ h(g({i}) + 1) }} else {{ match g({i}) {{ 1 => 4, _ => 5 }} }};\n    let f{i} = |q: int32| q + k{i};\n    let p{i} = match (k{i}, f{i}(1)) {{ (1, b) => b, (a, _) => a }};\n", i = i));
            }
            let items = format!("fn {}() -> int32 {{ 7 }}\n{}", item, if decoy.is_empty() { String::new() } else { format!("fn {}() -> int32 {{ 1 }}\n", decoy) });
            let q = if place == "lib" { "Lib::" } else { "" };
            let sum = format!("p0 + p1 + p2 + p3 + p4 + p5 + {}{}(){}", q, item, if decoy.is_empty() { String::new() } else { format!(" + {}{}()", q, decoy) });
            let text = format!(
                "package Main\nimport Lib\n\nfn g(a: int32) -> int32 {{ a }}\nfn h(a: int32) -> int32 {{ a + Lib::one() }}\n{}fn main() {{\n{}    string_println(int32_to_string({}))\n}}\n//// FILE Lib/lib.gom\npackage Lib\n\nfn one() -> int32 {{ 1 }}\n{}",
                if place == "main" { items.as_str() } else { "" },
                body,
                sum,
                if place == "lib" { items.as_str() } else { "" }
            );
            (text, format!("{}\n", 37 + if decoy.is_empty() { 0 } else { 1 }), format!("temp-number;prefix={};n={};decoy={};place={}", prefix, n, if decoy.is_empty() { "none" } else { decoy }, place))
        } else if case["kind"] == "witness" {
            let name = case["name"].as_str().unwrap();
            let (_, t, e) = witnesses().into_iter().find(|(n, _, _)| *n == name).unwrap();
            (t.to_string(), e.to_string(), format!("witness={}", name))
        } else {
            let (name, role) = (case["name"].as_str().unwrap(), case["role"].as_str().unwrap());
            let (t, e) = template(role);
            // upper-case initial where the role needs a type-like name? goml accepts lower-case type names.
            (t.replace("{N}", name), e.to_string(), format!("role={};name={}", role, name))
        };
        let replay = json!({"kind": "names", "source": text, "expected": expected});
        // the twin must itself behave as hard-wired (guards the template)
        if case["kind"] == "hostile" {
            let (t, _) = template(case["role"].as_str().unwrap());
            match run_text(ctx, &t.replace("{N}", BENIGN)) {
                Ok(o) if lossy(&o.stdout) == expected && o.end == NEnd::Ok => {}
                other => {
                    rep.tag("machinery:twin-template-broken");
                    rep.sample = Some(json!({"role": case["role"], "twin": format!("{:?}", other.map(|o| lossy(&o.stdout)))}));
                    return rep;
                }
            }
        }
        rep.nontrivial_key = Some(text.clone());
        let about_instances = case["kind"] == "witness" && case["name"].as_str().is_some_and(|n| n.contains("instance"));
        // a project of several packages is also built package by package and linked
        let pipelines: Vec<&str> = if text.contains("//// FILE ") { vec!["whole-program", "build+link"] } else { vec!["whole-program"] };
        let mut whole_ok = false;
        for pipeline in pipelines {
        let site = if pipeline == "build+link" { format!("{};pipeline=build+link", site) } else { site.clone() };
        let replay = replay.clone();
        let ran = if pipeline == "build+link" { crate::families::common::run_text_separate(ctx, &text) } else { run_text(ctx, &text) };
        match ran {
            Ok(o) => {
                if pipeline == "whole-program" {
                    whole_ok = true;
                }
                rep.outcome = Some(lossy(&o.stdout));
                if lossy(&o.stdout) == expected && o.end == NEnd::Ok {
                    rep.tag("agree");
                } else {
                    rep.tag("disagree");
                    if about_instances {
                        // two instances of a generic that share a definition: also what C07 rules out
                        rep.findings.push(Finding { property: "C07", class: "names.behaviour-differs".into(), site: site.clone(), detail: format!("expected {:?} got {:?}/{}", expected, lossy(&o.stdout), end_tag(&o.end)), replay: replay.clone() });
                    }
                    rep.findings.push(Finding {
                        property: "C19",
                        class: "names.behaviour-differs".into(),
                        site,
                        detail: format!("expected {:?} got {:?}/{}", expected, lossy(&o.stdout), end_tag(&o.end)),
                        replay,
                    });
                }
            }
            Err((class, msg)) => {
                rep.tag(format!("fail:{}", class.split('.').next().unwrap_or("")));
                if class.starts_with("machinery") {
                    rep.tag("machinery:go-unsupported");
                    rep.sample = Some(json!({"site": site, "msg": msg}));
                } else if class.starts_with("rejected") {
                    // a rejection with a diagnostic is allowed (the name may be reserved); record it
                    rep.tag(format!("rejected:{}", site.split(';').next().unwrap_or("")));
                    rep.outcome = Some(format!("rejected:{}", msg));
                } else {
                    let props: &[&'static str] = if class == "compile.panic" || class == "gopp.panic" { &["C19", "C04"] } else { &["C19", "C02"] };
                    for p in props.iter().chain(if about_instances { ["C07"].iter() } else { [].iter() }) {
                        rep.findings.push(Finding { property: p, class: class.clone(), site: site.clone(), detail: msg.clone(), replay: replay.clone() });
                    }
                    // whole-program compilation gave a valid program: the two ways to compile the project differ
                    if pipeline == "build+link" && whole_ok {
                        rep.findings.push(Finding { property: "C14", class: "valid-whole-invalid-link".into(), site: site.clone(), detail: msg.clone(), replay: replay.clone() });
                    }
                }
            }
        }
        }
        rep
    }
}

// ------------------------------------------------------------------ encoder injectivity

pub struct Encoders;

impl Family for Encoders {
    fn name(&self) -> &'static str {
        "encoders"
    }
    fn serves(&self) -> &'static [&'static str] {
        &["C19"]
    }
    fn rule(&self) -> &'static str {
        "name-encoding functions (go_ident, encode_ty, go_type_name_for, ref_struct_name, trait_impl_fn_name, inherent_method_fn_name composed with go_ident) over all tuples of width 2 and 3 and all functions of 1 and 2 parameters over {int32, bool} nested once in themselves (bare, in a Ref, in a pair, in an array), two names that differ in letter case, and over all types up to constructor depth 2 built from {unit,bool,int32,string} and struct/enum names {A, A_B, A__B, B, Tuple2, Ref, int32_x} with {tuple, array, Vec, Ref, fn} constructors, and all identifiers of length <= 3 over {a,_,1,x}; two distinct inputs with the same output are a collision, classified as structural / user-identifiers (ordinary inputs) or hostile-type-names / internal-characters (inputs a user would have to choose adversarially, or that only the compiler writes); distinct = distinct inputs"
    }
    fn cases(&self, _tier: Tier) -> Box<dyn Iterator<Item = Value> + '_> {
        Box::new(vec![json!({"fn": "go_type_name_for"}), json!({"fn": "encode_ty"}), json!({"fn": "ref_struct_name"}), json!({"fn": "go_ident"}), json!({"fn": "method-names"})].into_iter())
    }
    fn run(&self, case: &Value, _ctx: &mut Ctx) -> Report {
        use compiler::tast::Ty;
        let mut rep = Report::default();
        let which = case["fn"].as_str().unwrap();
        let names = ["A", "A_B", "A__B", "B", "Tuple2", "Ref", "int32_x", "Ptr_ref_int32_x"];
        let mut base: Vec<Ty> = vec![Ty::TUnit, Ty::TBool, Ty::TInt32, Ty::TString];
        for n in names {
            base.push(Ty::TStruct { name: n.to_string() });
        }
        let build = |inner: &Vec<Ty>| -> Vec<Ty> {
            let mut out = Vec::new();
            for a in inner {
                out.push(Ty::TVec { elem: Box::new(a.clone()) });
                out.push(Ty::TRef { elem: Box::new(a.clone()) });
                out.push(Ty::TArray { len: 2, elem: Box::new(a.clone()) });
                out.push(Ty::TFunc { params: vec![a.clone()], ret_ty: Box::new(Ty::TInt32) });
                out.push(Ty::TFunc { params: vec![], ret_ty: Box::new(a.clone()) });
                for b in inner {
                    out.push(Ty::TTuple { typs: vec![a.clone(), b.clone()] });
                    out.push(Ty::TFunc { params: vec![a.clone(), b.clone()], ret_ty: Box::new(Ty::TUnit) });
                }
            }
            out
        };
        let d1 = build(&base);
        let mut lvl2_inner = base.clone();
        lvl2_inner.extend(d1.iter().take(200).cloned());
        let mut all = base.clone();
        all.extend(d1.clone());
        all.extend(build(&lvl2_inner));
        // groupings: tuples of width 2 and 3 over {int32, bool} and over those tuples; functions of one or two
        // parameters over {int32, bool} and over those functions, alone and as tuple components; a pair of
        // names that differ in letter case only
        {
            let s2 = vec![Ty::TInt32, Ty::TBool, Ty::TStruct { name: "Foo".into() }, Ty::TStruct { name: "foo".into() }];
            let tuples = |inner: &Vec<Ty>| -> Vec<Ty> {
                let mut out = Vec::new();
                for a in inner {
                    for b in inner {
                        out.push(Ty::TTuple { typs: vec![a.clone(), b.clone()] });
                        for c in inner {
                            out.push(Ty::TTuple { typs: vec![a.clone(), b.clone(), c.clone()] });
                        }
                    }
                }
                out
            };
            let funcs = |inner: &Vec<Ty>| -> Vec<Ty> {
                let mut out = Vec::new();
                for r in [Ty::TInt32, Ty::TBool] {
                    for a in inner {
                        out.push(Ty::TFunc { params: vec![a.clone()], ret_ty: Box::new(r.clone()) });
                        for b in inner {
                            out.push(Ty::TFunc { params: vec![a.clone(), b.clone()], ret_ty: Box::new(r.clone()) });
                        }
                    }
                }
                out
            };
            let two = vec![Ty::TInt32, Ty::TBool];
            let t1 = tuples(&two);
            let mut t_inner = two.clone();
            t_inner.extend(t1.iter().cloned());
            let f1 = funcs(&two);
            let mut f_inner = two.clone();
            f_inner.extend(f1.iter().cloned());
            let mut more: Vec<Ty> = Vec::new();
            more.extend(tuples(&s2));
            more.extend(tuples(&t_inner));
            more.extend(f1.iter().cloned());
            more.extend(funcs(&f_inner));
            let wrapped: Vec<Ty> = more.iter().flat_map(|t| vec![Ty::TRef { elem: Box::new(t.clone()) }, Ty::TTuple { typs: vec![t.clone(), Ty::TInt32] }, Ty::TArray { len: 2, elem: Box::new(t.clone()) }]).collect();
            all.extend(more);
            all.extend(wrapped);
            all.push(Ty::TRef { elem: Box::new(Ty::TStruct { name: "Foo".into() }) });
            all.push(Ty::TRef { elem: Box::new(Ty::TStruct { name: "foo".into() }) });
            let mut seen_ty = std::collections::HashSet::new();
            all.retain(|t| seen_ty.insert(format!("{:?}", t)));
        }
        let mut seen: std::collections::HashMap<String, String> = std::collections::HashMap::new();
        let mut count = 0u64;
        let mut collisions = 0u64;
        let mut per_kind: std::collections::BTreeMap<String, u64> = std::collections::BTreeMap::new();
        // a collision is classified by what it takes to provoke it: type names a user would have to
        // choose adversarially (containing `_`, or spelled like generated names) / identifiers with
        // characters only the compiler writes, versus purely structural collisions between ordinary inputs
        let hostile_names = ["A_B", "A__B", "Tuple2", "TStruct(Ref)", "int32_x", "Ptr_ref_int32_x"];
        let kind_of = |a: &str, b: &str| -> &'static str {
            if which == "go_ident" {
                let plain = |x: &str| x.chars().all(|c| c.is_ascii_alphanumeric() || c == '_');
                if !(plain(a) && plain(b)) {
                    "internal-characters"
                } else if a.starts_with("_goml_") || b.starts_with("_goml_") {
                    // a user identifier spelled with the prefix the compiler reserves for escaped names
                    "reserved-prefix"
                } else {
                    "user-identifiers"
                }
            } else if hostile_names.iter().any(|h| a.contains(h) || b.contains(h)) {
                "hostile-type-names"
            } else {
                "structural"
            }
        };
        let mut report = |rep: &mut Report, out: String, input: String, seen: &mut std::collections::HashMap<String, String>| {
            if let Some(prev) = seen.get(&out) {
                if *prev != input {
                    collisions += 1;
                    let kind = kind_of(prev, &input);
                    let n = per_kind.entry(kind.to_string()).or_insert(0);
                    *n += 1;
                    if *n <= 3 {
                        rep.findings.push(Finding {
                            property: "C19",
                            class: format!("encoder.collision.{}", which),
                            site: format!("fn={};kind={}", which, kind),
                            detail: format!("{} and {} both encode to {}", prev, input, out),
                            replay: json!({"kind": "encoder", "fn": which, "a": prev, "b": input, "output": out}),
                        });
                    }
                }
            } else {
                seen.insert(out, input);
            }
        };
        match which {
            "go_type_name_for" | "encode_ty" | "ref_struct_name" => {
                for t in &all {
                    count += 1;
                    let input = format!("{:?}", t);
                    let out = match which {
                        "go_type_name_for" => compiler::go::goast::go_type_name_for(t),
                        "encode_ty" => compiler::go::mangle::go_ident(&compiler::go::mangle::encode_ty(t)),
                        _ => compiler::go::goast::ref_struct_name(t),
                    };
                    rep.more_keys.push(fnv(&input));
                    report(&mut rep, out, input, &mut seen);
                }
            }
            "go_ident" => {
                let alpha = ["a", "_", "1", "x", "#", "é"];
                let mut ids: Vec<String> = vec![];
                for a in alpha {
                    ids.push(a.to_string());
                    for b in alpha {
                        ids.push(format!("{}{}", a, b));
                        for c in alpha {
                            ids.push(format!("{}{}{}", a, b, c));
                            for d in ["a", "_", "#"] {
                                ids.push(format!("{}{}{}{}", a, b, c, d));
                            }
                        }
                    }
                }
                for h in HOSTILE {
                    ids.push(h.to_string());
                    ids.push(format!("_goml_{}", h));
                }
                for id in ids {
                    count += 1;
                    let out = compiler::go::mangle::go_ident(&id);
                    // legal Go identifier and not a keyword
                    let legal = out.chars().next().map(|c| c.is_ascii_alphabetic() || c == '_').unwrap_or(false) && out.chars().all(|c| c.is_ascii_alphanumeric() || c == '_') && !crate::gosem::syntax::is_go_keyword(&out);
                    if !legal {
                        rep.findings.push(Finding {
                            property: "C19",
                            class: "encoder.illegal-go-ident".into(),
                            site: "fn=go_ident".into(),
                            detail: format!("go_ident({:?}) = {:?} is not a legal Go identifier", id, out),
                            replay: json!({"kind": "encoder", "fn": "go_ident", "a": id, "output": out}),
                        });
                    }
                    rep.more_keys.push(fnv(&id));
                    report(&mut rep, out, id, &mut seen);
                }
            }
            _ => {
                let tys: Vec<Ty> = all.iter().take(400).cloned().collect();
                for t in &tys {
                    for m in ["m", "m_x", "x"] {
                        for tr in ["Tr", "Tr_m", "T"] {
                            count += 1;
                            let input = format!("trait {} for {:?} :: {}", tr, t, m);
                            let out = compiler::go::mangle::go_ident(&compiler::names::trait_impl_fn_name(&compiler::tast::TastIdent(tr.to_string()), t, m));
                            rep.more_keys.push(fnv(&input));
                            report(&mut rep, out, input, &mut seen);
                        }
                        count += 1;
                        let input = format!("inherent {:?} :: {}", t, m);
                        let out = compiler::go::mangle::go_ident(&compiler::names::inherent_method_fn_name(t, m));
                        report(&mut rep, out, input, &mut seen);
                    }
                }
            }
        }
        rep.sub_evaluations = count;
        rep.tag(format!("collisions:{}", collisions));
        rep.outcome = Some(format!("{}:{}", which, collisions));
        rep.sample = Some(json!({"fn": which, "inputs": count, "collisions": collisions}));
        rep
    }
}

fn fnv(s: &str) -> u64 {
    let mut h: u64 = 0xcbf29ce484222325;
    for b in s.as_bytes() {
        h ^= *b as u64;
        h = h.wrapping_mul(0x100000001b3);
    }
    h
}
