//! C14: separate compilation ≡ whole-program compilation. Explicit-state search over build
//! orders: a state is (set of packages built, artifact bytes on disk); transitions call the real
//! check_package / build_package / read_core / link_cores through `.interface` / `.core` files.

use crate::drive::*;
use crate::families::common::*;
use crate::oracle::NEnd;
use crate::projects::*;
use serde_json::{Value, json};

pub fn all_projects() -> &'static Vec<Project> {
    static ALL: std::sync::OnceLock<Vec<Project>> = std::sync::OnceLock::new();
    ALL.get_or_init(|| {
        let mut v = fixed_projects();
        v.extend(dag_projects());
        v
    })
}

fn fixed_projects() -> Vec<Project> {
    let mut v = corpus_projects();
    v.extend(generated_projects());
    v.extend(erroneous_projects());
    v.extend(indirect_dependency_projects());
    v.extend(same_name_projects());
    v.extend(artifact_fidelity_projects());
    v.extend(file_order_projects());
    v.extend(entry_point_projects());
    v.extend(size_projects());
    v
}

pub struct SepComp;

impl Family for SepComp {
    fn name(&self) -> &'static str {
        "sepcomp"
    }
    fn serves(&self) -> &'static [&'static str] {
        &["C14", "C01", "C02", "C04", "C19"]
    }
    fn level(&self) -> &'static str {
        "model_checking"
    }
    fn case_timeout(&self, _tier: Tier) -> u64 {
        120
    }
    fn rule(&self) -> &'static str {
        "projects = the 8 recorded multi-package corpus projects + 6 generated projects over {chain, diamond, fan-in, fan-out, two files per package} with cross-package generic fns, generic enums, structs, traits, impls in the trait's or the type's package, bound-generic code over a foreign trait + 4 ill-typed variants (error in leaf / middle / root) + 13 projects Main -> Mid -> Leaf in which Main, not importing Leaf, touches Leaf's declarations in one way each (opaque pass-through, field, method in dot / path form, trait path, bound, annotation, literal, pattern, function; local struct / enum / items spelled like the package or its items): both pipelines must give the same verdict + 4 projects declaring one spelling in two packages (variants, types, functions, traits and methods) + 48 projects of one package in two files in which a trait / trait and impl apart / trait bound / struct / enum / inherent method / function / foreign type is declared in one file and used in another, in every placement relative to the entry file (which whole-program compilation reads first) and the sorted order (which build uses) + 8 projects whose entry point is missing, stands in a library or in a sibling file, takes a parameter, returns a value, is generic or is a struct (one verdict from both pipelines; an accepted program is valid Go) + 11 artifact-fidelity projects (a library of 12 float64 literals with up to 17 significant digits and a float32 midpoint literal; library function bodies of 20..320 statements and expressions of depth 40 / 160; `import Builtin` in Main and in a library) + 5 projects whose import graph is not a DAG (self-import of Main / of a library, used or not, a two-cycle, a library importing Main; no order is valid, so every permutation of the packages is tried and must be rejected) + one project per import DAG on 5 packages in which Main reaches every package (<= 4 edges, plus 5-edge ones in one naming, in quick; all in thorough) x 2 directory namings x {well-typed, every leaf ill-typed}; for each project every topological build order (<= 24) x {build only, check before build}; artifacts are written to and re-read from *.interface / *.core files; oracle: link succeeds iff whole-program compile succeeds; Go(link) and Go(whole) both pass the Go checker and print the same output (= the recorded output for corpus projects); check and build emit the same interface; every build order gives byte-identical artifacts. states = (packages built, artifact bytes) visited, transitions = check/build/link calls. non-trivial = projects with >= 2 packages; distinct = distinct (project, order, mode)"
    }
    fn cases(&self, tier: Tier) -> Box<dyn Iterator<Item = Value> + '_> {
        let nf = fixed_projects().len();
        // DAG projects: well-typed and ill-typed-leaf variants (a misnamed package is a discovery
        // fault, which separate compilation - driven package by package - never sees)
        let dag: Vec<usize> = dag_specs().iter().enumerate().filter(|(_, sp)| sp.variant < 2 && dag_in_tier(sp, tier == Tier::Quick)).map(|(i, _)| nf + i).collect();
        Box::new((0..nf).chain(dag.into_iter()).map(|i| json!({"project": i})))
    }
    fn run(&self, case: &Value, ctx: &mut Ctx) -> Report {
        let mut rep = Report::default();
        let projs = all_projects();
        let proj = &projs[case["project"].as_u64().unwrap() as usize];
        let root = ctx.scratch.fresh_dir("proj");
        let outdir = ctx.scratch.fresh_dir("artifacts");
        let order0: Vec<usize> = (0..proj.files.len()).collect();
        materialize(&root, proj, &order0);
        let pkgs = packages(proj);
        let site = format!("project={}", proj.name);
        let replay = |extra: Value| json!({"kind": "project", "project": proj.name, "files": proj.files, "observed": extra});
        let mut push = |rep: &mut Report, props: &[&'static str], class: &str, detail: String, extra: Value| {
            for p in props {
                rep.findings.push(Finding { property: p, class: class.to_string(), site: site.clone(), detail: detail.clone(), replay: replay(extra.clone()) });
            }
        };
        // whole-program
        let (w, _) = whole(&root);
        let w_obs = match &w {
            Built::Ok { go } => match run_go(go, FUEL) {
                Ok(o) => Some(o),
                Err(m) => {
                    if m.starts_with("machinery") {
                        rep.tag("machinery:go-unsupported");
                    } else {
                        push(&mut rep, if proj.name.starts_with("same-") { &["C14", "C02", "C19"] } else { &["C14", "C02"] }, "whole.go-invalid", m.clone(), json!({"go_error": m}));
                    }
                    None
                }
            },
            Built::Panic(m) => {
                push(&mut rep, &["C14", "C04"], "whole.panic", normalise_msg(m), json!({"panic": m}));
                None
            }
            Built::Err { .. } => None,
        };
        if let (Some(o), Some(exp)) = (&w_obs, &proj.expected_stdout) {
            if lossy(&o.stdout) != *exp || o.end != NEnd::Ok {
                push(&mut rep, if proj.name.starts_with("same-") { &["C14", "C01", "C19"] } else { &["C14", "C01"] }, "whole.output-differs-from-recorded", format!("expected {:?} got {:?}/{}", exp, lossy(&o.stdout), end_tag(&o.end)), json!({"stdout": lossy(&o.stdout)}));
            } else {
                rep.tag("whole:matches-recorded");
            }
        }
        // separate: every topological order × {build, check+build}
        let mut orders = topo_orders(&pkgs);
        if orders.is_empty() && pkgs.len() <= 4 {
            // the import graph has a cycle: no order is valid, so every permutation is tried and
            // each must be rejected (at a build that misses an interface, or at link)
            rep.tag("cyclic:all-permutations");
            fn perms(rest: &mut Vec<String>, cur: &mut Vec<String>, out: &mut Vec<Vec<String>>) {
                if rest.is_empty() {
                    out.push(cur.clone());
                    return;
                }
                for i in 0..rest.len() {
                    let x = rest.remove(i);
                    cur.push(x.clone());
                    perms(rest, cur, out);
                    cur.pop();
                    rest.insert(i, x);
                }
            }
            let mut names: Vec<String> = pkgs.iter().map(|p| p.name.clone()).collect();
            perms(&mut names, &mut Vec::new(), &mut orders);
        }
        rep.tag(format!("orders:{}", orders.len()));
        let mut first_artifacts: Option<std::collections::BTreeMap<String, (String, Option<String>, String)>> = None;
        let mut states = std::collections::BTreeSet::new();
        for (oi, order) in orders.iter().enumerate() {
            for check_first in [false, true] {
                let r = separate(&root, &outdir, &pkgs, order, check_first);
                rep.transitions += r.steps;
                // states: prefix of packages built with their artifact digests
                let mut acc = String::new();
                for name in order {
                    if let Some(a) = r.artifacts.get(name) {
                        acc.push_str(&format!("{}:{:x};", name, md(&a.2)));
                        states.insert(acc.clone());
                    }
                }
                rep.more_keys.push(md(&format!("{}|{:?}|{}", proj.name, order, check_first)));
                let mode = format!("order={};check_first={}", order.join(">"), check_first);
                match (&w, &r.built) {
                    (Built::Ok { .. }, Built::Ok { go }) => match run_go(go, FUEL) {
                        Ok(o) => {
                            if let Some(wo) = &w_obs {
                                if &o != wo {
                                    push(&mut rep, &["C14"], "link.behaviour-differs-from-whole", format!("{}: whole {:?} linked {:?}", mode, lossy(&wo.stdout), lossy(&o.stdout)), json!({"mode": mode, "linked_stdout": lossy(&o.stdout)}));
                                } else {
                                    rep.tag("link:agrees-with-whole");
                                }
                            }
                        }
                        Err(m) => {
                            if m.starts_with("machinery") {
                                rep.tag("machinery:go-unsupported");
                            } else {
                                push(&mut rep, if proj.name.starts_with("same-") { &["C14", "C02", "C19"] } else { &["C14", "C02"] }, "link.go-invalid", format!("{}: {}", mode, m), json!({"mode": mode, "go_error": m}));
                            }
                        }
                    },
                    (Built::Err { .. }, Built::Err { .. }) => rep.tag("both-rejected"),
                    (Built::Ok { .. }, Built::Err { stage, messages }) => {
                        push(&mut rep, &["C14"], "accepted-whole-rejected-separate", format!("{}: {} {:?}", mode, stage, messages), json!({"mode": mode, "messages": messages}));
                    }
                    (Built::Err { stage, messages }, Built::Ok { .. }) => {
                        push(&mut rep, &["C14"], "rejected-whole-accepted-separate", format!("{}: whole failed at {} {:?}", mode, stage, messages), json!({"mode": mode, "messages": messages}));
                    }
                    (_, Built::Panic(m)) => push(&mut rep, &["C14", "C04"], "separate.panic", format!("{}: {}", mode, normalise_msg(m)), json!({"mode": mode, "panic": m})),
                    (Built::Panic(_), _) => {}
                }
                // check == build interface
                for (name, (ij, cj, _)) in &r.artifacts {
                    if let Some(cj) = cj {
                        if cj != ij {
                            push(&mut rep, &["C14"], "check-vs-build-interface-differs", format!("{}: package {}", mode, name), json!({"mode": mode, "package": name}));
                        } else {
                            rep.tag("check==build");
                        }
                    }
                }
                // all orders give identical artifacts
                if matches!(r.built, Built::Ok { .. }) {
                    match &first_artifacts {
                        None => first_artifacts = Some(r.artifacts.clone()),
                        Some(fa) => {
                            for (name, (ij, _, cj)) in &r.artifacts {
                                if let Some((fij, _, fcj)) = fa.get(name) {
                                    if fij != ij || fcj != cj {
                                        push(&mut rep, &["C14", "C13"], "artifacts-depend-on-build-order", format!("{}: package {}", mode, name), json!({"mode": mode, "package": name}));
                                    }
                                }
                            }
                        }
                    }
                }
                let _ = oi;
            }
        }
        rep.states = states.len() as u64;
        rep.sub_evaluations = (orders.len() * 2) as u64;
        rep.outcome = Some(format!("{}:{:?}", proj.name, w_obs.as_ref().map(|o| lossy(&o.stdout))));
        rep.sample = Some(json!({"project": proj.name, "packages": pkgs.iter().map(|p| p.name.clone()).collect::<Vec<_>>(), "orders": orders, "whole_ok": matches!(w, Built::Ok { .. })}));
        rep
    }
}

fn md(s: &str) -> u64 {
    let mut h: u64 = 0xcbf29ce484222325;
    for b in s.as_bytes() {
        h ^= *b as u64;
        h = h.wrapping_mul(0x100000001b3);
    }
    h
}
