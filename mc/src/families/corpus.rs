//! The repository's own 74 single-file corpus programs, compiled from the current tree and run
//! under the Go model: the output must be the recorded `main.gom.out` (these were produced by the
//! real Go toolchain), every stage dump must pass the IR checker and the Go must pass the Go
//! checker. The recorded `main.gom.go` files are only used by `conformance`; this family always
//! uses what the compiler emits now.

use crate::drive::*;
use crate::families::common::*;
use crate::gosem::GoVerdict;
use crate::oracle::*;
use serde_json::{Value, json};

pub struct Corpus;

fn programs() -> Vec<(String, String, Option<Vec<u8>>)> {
    crate::families::text::corpus_sources()
        .into_iter()
        .filter(|(n, _)| n != "builtin.gom")
        .map(|(n, src)| {
            let out = std::fs::read(format!("/repo/crates/compiler/src/tests/pipeline/{}/main.gom.out", n)).ok();
            (n, src, out)
        })
        .collect()
}

impl Family for Corpus {
    fn name(&self) -> &'static str {
        "corpus"
    }
    fn serves(&self) -> &'static [&'static str] {
        &["C01", "C02", "C03", "C04"]
    }
    fn rule(&self) -> &'static str {
        "the 74 programs under crates/compiler/src/tests/pipeline compiled from the current tree: IR checker on every dump, Go checker on the emitted text, and the run under the Go model must print the recorded main.gom.out (recorded with the real Go toolchain; programs importing packages the model lacks, or whose recorded output is a Go compile error, are tagged and only checked as far as possible). non-trivial = programs whose recorded output is non-empty; distinct = distinct program"
    }
    fn cases(&self, _tier: Tier) -> Box<dyn Iterator<Item = Value> + '_> {
        let n = programs().len();
        Box::new((0..n).map(|i| json!({"program": i})))
    }
    fn case_timeout(&self, _tier: Tier) -> u64 {
        120
    }
    fn run(&self, case: &Value, ctx: &mut Ctx) -> Report {
        let mut rep = Report::default();
        let progs = programs();
        let (name, src, want) = &progs[case["program"].as_u64().unwrap() as usize];
        let site = format!("corpus={}", name);
        let replay = |extra: Value| json!({"kind": "differential", "family": "corpus", "case": case, "source": src, "observed": extra});
        rep.sample = Some(json!({"program": name, "recorded_output_bytes": want.as_ref().map(|w| w.len())}));
        let recorded_go_error = want.as_ref().map(|w| String::from_utf8_lossy(w).contains("./main.go:")).unwrap_or(false);
        // programs with package sub-directories are compiled in a copy of their whole directory
        let srcdir = std::path::PathBuf::from(format!("/repo/crates/compiler/src/tests/pipeline/{}", name));
        let has_subdirs = std::fs::read_dir(&srcdir).map(|r| r.filter_map(|e| e.ok()).any(|e| e.path().is_dir())).unwrap_or(false);
        let path = if has_subdirs {
            let root = ctx.scratch.fresh_dir("corpus");
            copy_tree(&srcdir, &root);
            rep.tag("multi-package");
            root.join("main.gom")
        } else {
            ctx.scratch.single_path()
        };
        let comp = match compile_at(&path, src) {
            CompileOutcome::Ok(c) => c,
            CompileOutcome::Panic(m) => {
                let m = normalise_msg(&m);
                rep.findings.push(Finding { property: "C04", class: "compile.panic".into(), site: format!("{};msg={}", site, m), detail: m.clone(), replay: replay(json!({"panic": m})) });
                return rep;
            }
            CompileOutcome::Err(e) => {
                let (stage, msg) = describe_err(&e);
                rep.tag(format!("compile:rejected:{}", stage));
                for p in ["C01", "C04"] {
                    rep.findings.push(Finding { property: p, class: format!("compile.rejected.{}", stage), site: site.clone(), detail: msg.clone(), replay: replay(json!({"rejected": msg})) });
                }
                return rep;
            }
        };
        rep.tag("compile:ok");
        for (stage, msg) in crate::irck::check_all(&comp) {
            rep.tag(format!("irck:{}", stage));
            rep.findings.push(Finding { property: "C03", class: format!("irck.{}", stage), site: format!("{};msg={}", site, normalise_msg(&msg)), detail: msg.clone(), replay: replay(json!({"irck": msg})) });
        }
        let go = match go_text(&comp) {
            Ok(t) => t,
            Err(m) => {
                rep.findings.push(Finding { property: "C04", class: "gopp.panic".into(), site: site.clone(), detail: m.clone(), replay: replay(json!({"panic": m})) });
                return rep;
            }
        };
        drop(comp);
        let gr = analyse_and_run(go, FUEL * 10);
        match &gr.verdict {
            GoVerdict::Unsupported(m) => {
                rep.tag("machinery:go-unsupported");
                rep.sample = Some(json!({"program": name, "go_unsupported": m}));
                return rep;
            }
            GoVerdict::Rejected(errs) => {
                let first = &errs[0];
                if recorded_go_error {
                    rep.tag("go:rejected-as-recorded");
                    return rep;
                }
                rep.tag("go:rejected");
                rep.findings.push(Finding {
                    property: "C02",
                    class: format!("go.{}", first.rule),
                    site: format!("{};goerr={}", site, normalise_msg(&first.msg)),
                    detail: format!("line {}: {}", first.line, first.msg),
                    replay: replay(json!({"go_errors": errs.iter().take(5).map(|e| format!("{}:{}: {}", e.rule, e.line, e.msg)).collect::<Vec<_>>(), "go_text": gr.text})),
                });
                return rep;
            }
            GoVerdict::Ok(_) => {}
        }
        rep.tag("go:ok");
        let run = gr.run.as_ref().unwrap();
        let obs = obs_of_go(run);
        if matches!(obs.end, NEnd::Unsupported(_) | NEnd::Horizon) {
            rep.tag("machinery:go-run-unsupported-or-horizon");
            return rep;
        }
        rep.outcome = Some(format!("{}:{}|{}", name, lossy(&obs.stdout).len(), end_tag(&obs.end)));
        let Some(want) = want else {
            rep.tag("no-recorded-output");
            return rep;
        };
        if recorded_go_error {
            rep.tag("recorded-output-is-a-go-compile-error;now-valid");
            return rep;
        }
        if !want.is_empty() {
            rep.nontrivial_key = Some(name.clone());
        }
        // outputs recorded before the float formatting repair contain Go's "%!d(float64=1.5)" for
        // every float; the value inside is what the repaired runtime prints
        let (want_norm, had_verb) = strip_float_verb(want);
        if had_verb {
            rep.tag("recorded-output-has-float-verb-noise");
        }
        let want = &want_norm;
        // recorded output = stdout followed (for a failing run) by the panic text and "exit status 2"
        let ok = if obs.end == NEnd::Ok {
            obs.stdout == *want
        } else {
            want.starts_with(&obs.stdout) && String::from_utf8_lossy(want).contains("exit status 2")
        };
        if ok {
            rep.tag("matches-recorded-output");
        } else {
            rep.tag("differs-from-recorded-output");
            rep.findings.push(Finding {
                property: "C01",
                class: "corpus.output-differs-from-recorded".into(),
                site: site.clone(),
                detail: format!("recorded {:?} got {:?}/{}", lossy(want).chars().take(200).collect::<String>(), lossy(&obs.stdout).chars().take(200).collect::<String>(), end_tag(&obs.end)),
                replay: replay(json!({"stdout": lossy(&obs.stdout), "end": end_tag(&obs.end), "go_text": gr.text})),
            });
        }
        rep
    }
}

fn copy_tree(from: &std::path::Path, to: &std::path::Path) {
    let _ = std::fs::create_dir_all(to);
    if let Ok(rd) = std::fs::read_dir(from) {
        let mut entries: Vec<_> = rd.filter_map(|e| e.ok()).map(|e| e.path()).collect();
        entries.sort();
        for p in entries {
            let dest = to.join(p.file_name().unwrap());
            if p.is_dir() {
                copy_tree(&p, &dest);
            } else if p.extension().map(|e| e == "gom").unwrap_or(false) {
                let _ = std::fs::copy(&p, &dest);
            }
        }
    }
}
