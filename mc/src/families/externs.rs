//! C02: programs that declare Go functions and types of other packages (`extern "go" "path" ..`,
//! `extern type T`). The Go model has no foreign packages, so these programs are only judged by
//! the static checker (foreign members are opaque): every package the text names must be imported
//! under exactly that name, every import must be used, no two imports may bind one name.

use crate::drive::*;
use crate::families::common::*;
use crate::gosem::GoVerdict;
use crate::oracle::*;
use serde_json::{Value, json};

/// import paths: standard library, nested, last segment that is not an identifier, version suffix,
/// a last segment shared with another path, a last segment spelled like the runtime's own import
const PATHS: [&str; 15] = ["time", "strings", "math/rand", "crypto/rand", "gopkg.in/yaml.v3", "github.com/a-b/c-d", "example.com/x/v2", "example.com/own/fmt", "x/a/b", "x_a/b", "lib/go",
    // a last segment spelled like one of the compiler's temporaries
    "example.com/t1", "example.com/t2", "example.com/t3", "example.com/ret4"];

/// what the program declares for the package and how it uses it
const USES: [&str; 23] = [
    // a foreign type that no foreign function mentions stands for no Go type: refused, or else the Go must be valid
    "type-no-function-mentions-in-a-vector", "type-no-function-mentions-in-a-parameter", "type-no-function-mentions-declared-only",
    // a variant / a struct of the program spelled like a foreign type
    "type-next-to-a-variant-named-like-it", "type-next-to-a-function-named-like-it",
    // an item of the program spelled like the name the package is imported under
    "fn-next-to-a-function-named-like-the-package", "fn-next-to-a-struct-named-like-the-package", "fn-next-to-a-variant-named-like-the-package", "fn-next-to-a-generic-function-named-like-the-package",
    "fn-called", "fn-called-in-closure", "fn-called-discarded", "fn-only-in-unused-fn", "fn-declared-never-called", "type-and-fn-called", "type-declared-only", "type-in-signature-only",
    // a foreign function declared `-> unit` is a Go function without a result
    "unit-fn-as-statement", "unit-fn-result-bound", "unit-fn-as-function-result",
    // a foreign function used as a value: it is named by its Go name, and its package stays imported
    "fn-as-argument", "fn-bound-to-a-local", "fn-in-a-tuple",
];

fn program(paths: &[&str], usage: &str, placement: &str) -> String {
    // in a library: the declarations live in package Lib, main names them through the package
    let q = if placement == "library" { "Lib::" } else { "" };
    let mut decls = String::new();
    let mut main = String::new();
    for (k, p) in paths.iter().enumerate() {
        match usage {
            u if u.starts_with("fn-next-to-") => {
                decls.push_str(&format!("extern \"go\" \"{}\" \"Do\" do{}(n: int32) -> int32\n", p, k));
                main.push_str(&format!("    string_println(int32_to_string({}do{}(1)));\n", q, k));
                let seg = p.rsplit('/').next().unwrap_or("");
                let is_ident = seg.chars().next().map(|c| c.is_ascii_alphabetic()).unwrap_or(false) && seg.chars().all(|c| c.is_ascii_alphanumeric() || c == '_') && seg != "go";
                // (two paths with one last segment: the item is declared once)
                if is_ident && !decls.contains(&format!(" {}(", seg)) && !decls.contains(&format!("struct {} ", seg)) && !decls.contains(&format!(" {}[", seg)) {
                    match u {
                        "fn-next-to-a-function-named-like-the-package" => {
                            decls.push_str(&format!("fn {}(n: int32) -> int32 {{ n + 1 }}\n", seg));
                            main.push_str(&format!("    string_println(int32_to_string({}{}(2)));\n", q, seg));
                        }
                        "fn-next-to-a-generic-function-named-like-the-package" => {
                            decls.push_str(&format!("fn {}[T](n: T) -> T {{ n }}\n", seg));
                            main.push_str(&format!("    string_println(int32_to_string({}{}(2)));\n", q, seg));
                        }
                        "fn-next-to-a-struct-named-like-the-package" => {
                            decls.push_str(&format!("struct {} {{ v: int32 }}\n", seg));
                            main.push_str(&format!("    let s{k} = {q}{seg} {{ v: 3 }};\n    string_println(int32_to_string(s{k}.v));\n", k = k, q = q, seg = seg));
                        }
                        _ => {
                            decls.push_str(&format!("enum En{k} {{ {seg}(int32), Other{k} }}\n", k = k, seg = seg));
                            main.push_str(&format!("    let e{k} = {q}En{k}::{seg}(4);\n    let n{k} = match e{k} {{ {q}En{k}::{seg}(w) => w, {q}En{k}::Other{k} => 0 }};\n    string_println(int32_to_string(n{k}));\n", k = k, q = q, seg = seg));
                        }
                    }
                }
            }
            "fn-called" => {
                decls.push_str(&format!("extern \"go\" \"{}\" \"Do\" do{}(n: int32) -> int32\n", p, k));
                main.push_str(&format!("    string_println(int32_to_string({}do{}(1)));\n", q, k));
            }
            "fn-called-in-closure" => {
                decls.push_str(&format!("extern \"go\" \"{}\" \"Do\" do{}(n: int32) -> int32\n", p, k));
                main.push_str(&format!("    let c{k} = |q: int32| {q}do{k}(q) + 1;\n    string_println(int32_to_string(c{k}(2)));\n", k = k, q = q));
            }
            "fn-called-discarded" => {
                decls.push_str(&format!("extern \"go\" \"{}\" \"Do\" do{}(n: int32) -> int32\n", p, k));
                main.push_str(&format!("    let _ = {}do{}(1);\n", q, k));
            }
            "fn-only-in-unused-fn" => {
                decls.push_str(&format!("extern \"go\" \"{}\" \"Do\" do{k}(n: int32) -> int32\nfn never{k}() -> int32 {{ do{k}(1) }}\n", p, k = k));
            }
            "fn-declared-never-called" => {
                decls.push_str(&format!("extern \"go\" \"{}\" \"Do\" do{}(n: int32) -> int32\n", p, k));
            }
            "fn-as-argument" => {
                decls.push_str(&format!("extern \"go\" \"{}\" \"Do\" do{k}(n: int32) -> int32\nfn apply{k}(f: (int32) -> int32, x: int32) -> int32 {{ f(x) }}\n", p, k = k));
                main.push_str(&format!("    string_println(int32_to_string({q}apply{k}({q}do{k}, 1)));\n", k = k, q = q));
            }
            "fn-bound-to-a-local" => {
                decls.push_str(&format!("extern \"go\" \"{}\" \"Do\" do{}(n: int32) -> int32\n", p, k));
                main.push_str(&format!("    let f{k} = {q}do{k};\n    string_println(int32_to_string(f{k}(1)));\n", k = k, q = q));
            }
            "fn-in-a-tuple" => {
                decls.push_str(&format!("extern \"go\" \"{}\" \"Do\" do{}(n: int32) -> int32\n", p, k));
                main.push_str(&format!("    let t{k} = ({q}do{k}, 1);\n    let g{k}: (int32) -> int32 = t{k}.0;\n    string_println(int32_to_string(g{k}(t{k}.1)));\n", k = k, q = q));
            }
            "unit-fn-as-statement" => {
                decls.push_str(&format!("extern \"go\" \"{}\" \"Do\" do{}() -> unit\n", p, k));
                main.push_str(&format!("    {}do{}();\n", q, k));
            }
            "unit-fn-result-bound" => {
                decls.push_str(&format!("extern \"go\" \"{}\" \"Do\" do{}() -> unit\n", p, k));
                main.push_str(&format!("    let u{k} = {q}do{k}();\n    string_println(unit_to_string(u{k}));\n", k = k, q = q));
            }
            "unit-fn-as-function-result" => {
                decls.push_str(&format!("extern \"go\" \"{p}\" \"Do\" do{k}() -> unit\nfn wrap{k}() -> unit {{ do{k}() }}\n", p = p, k = k));
                main.push_str(&format!("    {}wrap{}();\n", q, k));
            }
            "type-next-to-a-variant-named-like-it" | "type-next-to-a-function-named-like-it" => {
                decls.push_str(&format!("extern type Th{k}\nextern \"go\" \"{}\" \"Make\" mk{k}(n: int32) -> Th{k}\nextern \"go\" \"{}\" \"Show\" show{k}(t: Th{k}) -> string\n", p, p, k = k));
                main.push_str(&format!("    let v{k} = {q}mk{k}(1);\n    string_println({q}show{k}(v{k}));\n", k = k, q = q));
                if usage == "type-next-to-a-variant-named-like-it" {
                    decls.push_str(&format!("enum Ev{k} {{ Th{k}(int32), Quiet{k} }}\n", k = k));
                    main.push_str(&format!("    let e{k} = {q}Ev{k}::Th{k}(4);\n    let n{k} = match e{k} {{ {q}Ev{k}::Th{k}(w) => w, {q}Ev{k}::Quiet{k} => 0 }};\n    string_println(int32_to_string(n{k}));\n", k = k, q = q));
                } else {
                    decls.push_str(&format!("fn th{k}(n: int32) -> int32 {{ n }}\n", k = k));
                    main.push_str(&format!("    string_println(int32_to_string({q}th{k}(2)));\n", k = k, q = q));
                }
            }
            "type-no-function-mentions-in-a-vector" => {
                decls.push_str(&format!("extern type Tn{k}\nextern \"go\" \"{}\" \"Make\" mk{k}(n: int32) -> int32\n", p, k = k));
                main.push_str(&format!("    let w{k}: Vec[{q}Tn{k}] = vec_new();\n    string_println(int32_to_string(vec_len(w{k}) + {q}mk{k}(1)));\n", k = k, q = q));
            }
            "type-no-function-mentions-in-a-parameter" => {
                decls.push_str(&format!("extern type Tn{k}\nextern \"go\" \"{}\" \"Make\" mk{k}(n: int32) -> int32\nfn takes{k}(t: Tn{k}) -> int32 {{ 0 }}\n", p, k = k));
                main.push_str(&format!("    string_println(int32_to_string({q}mk{k}(1)));\n", k = k, q = q));
            }
            "type-no-function-mentions-declared-only" => {
                decls.push_str(&format!("extern type Tn{k}\nextern \"go\" \"{}\" \"Make\" mk{k}(n: int32) -> int32\n", p, k = k));
                main.push_str(&format!("    string_println(int32_to_string({q}mk{k}(1)));\n", k = k, q = q));
            }
            "type-and-fn-called" => {
                decls.push_str(&format!("extern type Th{k}\nextern \"go\" \"{}\" \"Make\" mk{k}(n: int32) -> Th{k}\nextern \"go\" \"{}\" \"Show\" show{k}(t: Th{k}) -> string\n", p, p, k = k));
                main.push_str(&format!("    let v{k} = {q}mk{k}(1);\n    string_println({q}show{k}(v{k}));\n", k = k, q = q));
            }
            "type-declared-only" => {
                decls.push_str(&format!("extern type Th{k}\nextern \"go\" \"{}\" \"Make\" mk{k}(n: int32) -> Th{k}\n", p, k = k));
            }
            _ => {
                decls.push_str(&format!("extern type Th{k}\nextern \"go\" \"{}\" \"Make\" mk{k}(n: int32) -> Th{k}\nfn pass{k}(t: Th{k}) -> Th{k} {{ t }}\n", p, k = k));
            }
        }
    }
    if placement == "library" {
        format!("package Main\nimport Lib\n\nfn main() -> unit {{\n{}    string_println(\"done\")\n}}\n//// FILE Lib/lib.gom\npackage Lib\n\n{}", main, decls)
    } else {
        format!("{}fn main() -> unit {{\n{}    string_println(\"done\")\n}}\n", decls, main)
    }
}

pub struct Externs;

impl Family for Externs {
    fn name(&self) -> &'static str {
        "externs"
    }
    fn serves(&self) -> &'static [&'static str] {
        &["C02", "C04"]
    }
    fn rule(&self) -> &'static str {
        "extern declarations: 15 import paths (incl. last segments spelled like the compiler's temporaries; standard library, nested, a last segment that is not an identifier, a version suffix, two paths with one last segment, a last segment spelled like the runtime's own import, two paths that differ in '/' against '_', a last segment that is a Go keyword) taken one at a time and in all pairs x 20 usages x 2 placements of the declarations (the main package; a library package that main imports) (next to a function, generic function, struct or variant of the program spelled like the name the package is imported under; a foreign type next to a variant spelled like it; function called / called in a closure / called and discarded / called only from an unused function / never called; type with constructor and consumer called / type declared only / type used in a signature only; a function declared '-> unit' called as a statement / with its result bound / as the result of a goml function: Go functions without a result can only be statements); oracle: the emitted Go passes the static checker with foreign members opaque (every package the text names is imported under that name, no import unused, no two imports bind one name); the programs are not executed (the Go model has no foreign packages). non-trivial = programs with two packages or a non-identifier last segment; distinct = distinct source text"
    }
    fn cases(&self, _tier: Tier) -> Box<dyn Iterator<Item = Value> + '_> {
        let mut v = Vec::new();
        for u in USES {
            for (i, p) in PATHS.iter().enumerate() {
                for placement in ["main", "library"] {
                    v.push(json!({"paths": [p], "use": u, "placement": placement}));
                    for q in PATHS.iter().skip(i + 1) {
                        v.push(json!({"paths": [p, q], "use": u, "placement": placement}));
                    }
                }
            }
        }
        Box::new(v.into_iter())
    }
    fn run(&self, case: &Value, ctx: &mut Ctx) -> Report {
        let mut rep = Report::default();
        let paths: Vec<&str> = case["paths"].as_array().unwrap().iter().map(|p| p.as_str().unwrap()).collect();
        let usage = case["use"].as_str().unwrap();
        let placement = case["placement"].as_str().unwrap_or("main");
        let text = program(&paths, usage, placement);
        let site = if placement == "main" { format!("paths={};use={}", paths.join("+"), usage) } else { format!("paths={};use={};in={}", paths.join("+"), usage, placement) };
        let replay = json!({"kind": "text", "text": text, "oracle": "go-static"});
        if paths.len() > 1 || paths.iter().any(|p| p.rsplit('/').next().unwrap().chars().any(|c| !c.is_ascii_alphanumeric())) {
            rep.nontrivial_key = Some(text.clone());
        }
        let (path, main_text) = materialize_text(ctx, &text);
        let comp = match compile_at(&path, &main_text) {
            CompileOutcome::Ok(c) => c,
            CompileOutcome::Panic(m) => {
                let m = normalise_msg(&m);
                rep.findings.push(Finding { property: "C04", class: "compile.panic".into(), site: format!("{};msg={}", site, m), detail: m, replay });
                return rep;
            }
            CompileOutcome::Err(e) if usage.starts_with("type-no-function-mentions") && describe_err(&e).0 == "typer" => {
                // refused with a diagnostic: the other way to keep the promise
                rep.tag("foreign-type-without-a-go-type:rejected");
                return rep;
            }
            CompileOutcome::Err(e) => {
                let (stage, msg) = describe_err(&e);
                rep.tag(format!("compile:rejected:{}", stage));
                rep.findings.push(Finding { property: "C02", class: format!("compile.rejected.{}", stage), site: format!("{};msg={}", site, normalise_msg(&msg)), detail: msg, replay });
                return rep;
            }
        };
        rep.tag("compile:ok");
        let go = go_text(&comp).unwrap_or_default();
        drop(comp);
        match crate::gosem::analyse(&go) {
            GoVerdict::Ok(p) => {
                rep.tag("go:ok");
                // a Go function without a result can only be called as a statement (the model treats
                // foreign functions as opaque, so this is judged on the text: one statement per line)
                if usage.starts_with("unit-fn") {
                    for (ln, l) in go.lines().enumerate() {
                        if let Some(pos) = l.find(".Do(") {
                            let before = l[..pos].trim_start();
                            if before.contains(' ') || before.contains('=') || before.contains('(') {
                                rep.findings.push(Finding {
                                    property: "C02",
                                    class: "go.no-value-used-as-value".into(),
                                    site: format!("{};stmt={}", site, normalise_msg(l.trim())),
                                    detail: format!("line {}: `{}`: a foreign function declared `-> unit` has no result in Go", ln + 1, l.trim()),
                                    replay: json!({"kind": "text", "text": text, "oracle": "go-static", "go_text": go}),
                                });
                                break;
                            }
                        }
                    }
                }
                for (r, _) in p.rules_evaluated.iter() {
                    rep.tag(format!("go-rule-evaluated:{}", r));
                }
                rep.outcome = Some(format!("{}|imports={:?}", site, go.lines().skip_while(|l| !l.starts_with("import")).take_while(|l| !l.starts_with(')')).collect::<Vec<_>>()));
            }
            GoVerdict::Rejected(errs) => {
                rep.tag("go:rejected");
                let mut rules: Vec<&str> = errs.iter().map(|e| e.rule).collect();
                rules.sort();
                rules.dedup();
                let first = &errs[0];
                rep.findings.push(Finding {
                    property: "C02",
                    class: format!("go.{}", rules.join("+")),
                    site: format!("{};goerr={}", site, normalise_msg(&first.msg)),
                    detail: format!("line {}: {}", first.line, first.msg),
                    replay: json!({"kind": "text", "text": text, "oracle": "go-static", "go_text": go}),
                });
            }
            GoVerdict::Unsupported(m) => {
                rep.tag("machinery:go-unsupported");
                rep.sample = Some(json!({"go_unsupported": m, "site": site}));
            }
        }
        rep
    }
}
