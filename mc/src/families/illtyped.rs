//! C03 (b, c): ill-typed programs are rejected with a type diagnostic; operators are accepted only
//! inside their domain.

use crate::drive::*;
use crate::families::common::*;
use crate::oracle::{CompileOutcome, compile_at};
use serde_json::{Value, json};

/// wrong-typed (and right-typed) expressions by type tag
const EXPRS: [(&str, &str); 10] = [
    ("int32", "41"),
    ("bool", "true"),
    ("string", "\"s\""),
    ("unit", "()"),
    ("int8", "1i8"),
    ("tuple", "(1, 2)"),
    ("float64", "1.5"),
    ("array", "[1, 2]"),
    ("closure", "|q: int32| q"),
    ("struct", "P { a: 1 }"),
];

/// (name, expected type tag of the hole, program with § hole)
const POSITIONS: [(&str, &str, &str); 30] = [
    ("binop-operand-right", "int32", "fn main() { let a: int32 = 1; let r = a + §; string_println(int32_to_string(r)) }"),
    ("binop-operand-left", "int32", "fn main() { let a: int32 = 1; let r = § - a; string_println(int32_to_string(r)) }"),
    ("cmp-operand", "int32", "fn main() { let a: int32 = 1; let r = a < §; string_println(bool_to_string(r)) }"),
    ("logic-operand", "bool", "fn main() { let a: bool = true; let r = a && §; string_println(bool_to_string(r)) }"),
    ("annotated-let", "int32", "fn main() { let x: int32 = §; string_println(int32_to_string(x)) }"),
    ("param", "int32", "fn f(p: int32) -> int32 { p }\nfn main() { string_println(int32_to_string(f(§))) }"),
    ("second-param", "string", "fn f(p: int32, q: string) -> string { q }\nfn main() { string_println(f(1, §)) }"),
    ("if-cond", "bool", "fn main() { let r = if § { 1 } else { 2 }; string_println(int32_to_string(r)) }"),
    ("while-cond", "bool", "fn main() { while § { () }; string_println(\"x\") }"),
    ("return-position", "int32", "fn g() -> int32 { § }\nfn main() { string_println(int32_to_string(g())) }"),
    ("struct-field", "int32", "fn main() { let p = P { a: § }; string_println(int32_to_string(p.a)) }"),
    ("ctor-payload", "int32", "fn main() { let o = Som(§); let r = match o { Som(v) => v, Non => 0 }; string_println(int32_to_string(r)) }"),
    ("array-element", "int32", "fn main() { let xs = [1, §]; string_println(int32_to_string(array_get(xs, 1))) }"),
    ("array-set-value", "int32", "fn main() { let xs: [int32; 2] = [1, 2]; let ys = array_set(xs, 0, §); string_println(int32_to_string(array_get(ys, 0))) }"),
    ("array-index", "int32", "fn main() { let xs: [int32; 2] = [1, 2]; string_println(int32_to_string(array_get(xs, §))) }"),
    ("ref-set-value", "int32", "fn main() { let r = ref(1); ref_set(r, §); string_println(int32_to_string(ref_get(r))) }"),
    ("vec-push-value", "int32", "fn main() { let v: Vec[int32] = vec_new(); let w = vec_push(v, §); string_println(int32_to_string(vec_len(w))) }"),
    ("if-branch", "int32", "fn main() { let c = true; let r = if c { 1 } else { § }; string_println(int32_to_string(r)) }"),
    ("match-arm", "int32", "fn main() { let c = true; let r = match c { true => 1, false => § }; string_println(int32_to_string(r)) }"),
    ("closure-arg", "int32", "fn main() { let f = |q: int32| q + 1; string_println(int32_to_string(f(§))) }"),
    ("method-arg", "int32", "impl P { fn add(self: P, k: int32) -> int32 { self.a + k } }\nfn main() { let p = P { a: 1 }; string_println(int32_to_string(p.add(§))) }"),
    ("generic-same-type", "int32", "fn same[T](a: T, b: T) -> T { a }\nfn main() { string_println(int32_to_string(same(1, §))) }"),
    // the argument of a trait method called in path form: the receiver's type is known at the call, or only
    // once inference has gone on (a generic call, a closure parameter, a field of a generic struct)
    ("trait-path-arg-concrete-receiver", "int32", "trait Dsp { fn sw(Self, int32) -> string; }\nimpl Dsp for P { fn sw(self: P, k: int32) -> string { int32_to_string(self.a + k) } }\nfn idg[U](u: U) -> U { u }\nstruct Bq[T] { v: T }\nfn main() { string_println(Dsp::sw(P { a: 1 }, §)) }"),
    ("trait-path-arg-tparam-receiver", "int32", "trait Dsp { fn sw(Self, int32) -> string; }\nimpl Dsp for P { fn sw(self: P, k: int32) -> string { int32_to_string(self.a + k) } }\nfn idg[U](u: U) -> U { u }\nstruct Bq[T] { v: T }\nfn render[T: Dsp](x: T) -> string { Dsp::sw(x, §) }\nfn main() { string_println(render(P { a: 1 })) }"),
    ("trait-dot-arg-tparam-receiver", "int32", "trait Dsp { fn sw(Self, int32) -> string; }\nimpl Dsp for P { fn sw(self: P, k: int32) -> string { int32_to_string(self.a + k) } }\nfn idg[U](u: U) -> U { u }\nstruct Bq[T] { v: T }\nfn render[T: Dsp](x: T) -> string { x.sw(§) }\nfn main() { string_println(render(P { a: 1 })) }"),
    ("trait-path-arg-tparam-receiver-via-call", "int32", "trait Dsp { fn sw(Self, int32) -> string; }\nimpl Dsp for P { fn sw(self: P, k: int32) -> string { int32_to_string(self.a + k) } }\nfn idg[U](u: U) -> U { u }\nstruct Bq[T] { v: T }\nfn render[T: Dsp](x: T) -> string { Dsp::sw(idg(x), §) }\nfn main() { string_println(render(P { a: 1 })) }"),
    ("trait-path-arg-tparam-receiver-via-closure-param", "int32", "trait Dsp { fn sw(Self, int32) -> string; }\nimpl Dsp for P { fn sw(self: P, k: int32) -> string { int32_to_string(self.a + k) } }\nfn idg[U](u: U) -> U { u }\nstruct Bq[T] { v: T }\nfn render[T: Dsp](x: T) -> string { let g = |y| Dsp::sw(y, §); g(x) }\nfn main() { string_println(render(P { a: 1 })) }"),
    ("trait-path-arg-tparam-receiver-via-field", "int32", "trait Dsp { fn sw(Self, int32) -> string; }\nimpl Dsp for P { fn sw(self: P, k: int32) -> string { int32_to_string(self.a + k) } }\nfn idg[U](u: U) -> U { u }\nstruct Bq[T] { v: T }\nfn render[T: Dsp](b: Bq[T]) -> string { Dsp::sw(b.v, §) }\nfn main() { string_println(render(Bq { v: P { a: 1 } })) }"),
    ("trait-path-arg-concrete-receiver-via-call", "int32", "trait Dsp { fn sw(Self, int32) -> string; }\nimpl Dsp for P { fn sw(self: P, k: int32) -> string { int32_to_string(self.a + k) } }\nfn idg[U](u: U) -> U { u }\nstruct Bq[T] { v: T }\nfn main() { string_println(Dsp::sw(idg(P { a: 1 }), §)) }"),
    ("trait-path-arg-concrete-receiver-via-closure-param", "int32", "trait Dsp { fn sw(Self, int32) -> string; }\nimpl Dsp for P { fn sw(self: P, k: int32) -> string { int32_to_string(self.a + k) } }\nfn idg[U](u: U) -> U { u }\nstruct Bq[T] { v: T }\nfn main() { let g = |y| Dsp::sw(y, §); string_println(g(P { a: 1 })) }"),
];

/// whole programs with one structural type error (name, source)
const STRUCTURAL: [(&str, &str); 39] = [
    // a struct that holds a value of its own type has no finite size (Go: invalid recursive type)
    ("struct-holding-itself", "struct Node { v: int32, next: Node }\nfn main() { string_println(\"x\") }"),
    ("struct-holding-itself-in-a-tuple", "struct Node { next: (int32, Node) }\nfn main() { string_println(\"x\") }"),
    ("struct-holding-itself-in-an-array", "struct Node { kids: [Node; 2] }\nfn main() { string_println(\"x\") }"),
    ("two-structs-holding-each-other", "struct Aa { b: Bb }\nstruct Bb { a: Aa }\nfn main() { string_println(\"x\") }"),
    ("struct-holding-itself-in-a-generic-struct", "struct Wrap[T] { v: T }\nstruct Node { next: Wrap[Node] }\nfn main() { string_println(\"x\") }"),
    ("generic-struct-holding-itself", "struct Chain[T] { v: T, next: Chain[T] }\nfn main() { string_println(\"x\") }"),
    ("struct-holding-itself-three-structs-away", "struct Na { b: Nb }\nstruct Nb { c: (Nc, int32) }\nstruct Nc { a: [Na; 1] }\nfn main() { string_println(\"x\") }"),
    ("array-length-annotation", "fn main() { let a: [int32; 3] = [1, 2]; string_println(\"x\") }"),
    ("array-length-param", "fn f(a: [int32; 2]) -> int32 { array_get(a, 0) }\nfn main() { string_println(int32_to_string(f([1, 2, 3]))) }"),
    ("array-length-return", "fn f() -> [int32; 2] { [1, 2, 3] }\nfn main() { string_println(int32_to_string(array_get(f(), 0))) }"),
    ("unknown-field", "fn main() { let p = P { a: 1 }; string_println(int32_to_string(p.zz)) }"),
    ("unknown-field-literal", "fn main() { let p = P { a: 1, zz: 2 }; string_println(int32_to_string(p.a)) }"),
    ("missing-field-literal", "struct Q { a: int32, b: int32 }\nfn main() { let q = Q { a: 1 }; string_println(int32_to_string(q.a)) }"),
    ("call-arity-more", "fn f(p: int32) -> int32 { p }\nfn main() { string_println(int32_to_string(f(1, 2))) }"),
    ("call-arity-less", "fn f(p: int32, q: int32) -> int32 { p }\nfn main() { string_println(int32_to_string(f(1))) }"),
    ("ctor-arity", "fn main() { let o = Som(1, 2); string_println(\"x\") }"),
    ("ctor-arity-zero", "fn main() { let o = Som(); string_println(\"x\") }"),
    ("tuple-proj-range", "fn main() { let t = (1, 2); string_println(int32_to_string(t.5)) }"),
    ("pattern-arity", "fn main() { let r = match Som(1) { Som(a, b) => a, Non => 0 }; string_println(int32_to_string(r)) }"),
    ("pattern-type", "fn main() { let r = match 1 { true => 1, false => 0 }; string_println(int32_to_string(r)) }"),
    ("tuple-pattern-arity", "fn main() { let (a, b, c) = (1, 2); string_println(int32_to_string(a)) }"),
    ("call-non-function", "fn main() { let a = 1; string_println(int32_to_string(a(2))) }"),
    ("return-unit-for-int", "fn g() -> int32 { string_println(\"x\") }\nfn main() { string_println(int32_to_string(g())) }"),
    ("unknown-type", "fn f(p: Nope) -> int32 { 1 }\nfn main() { string_println(\"x\") }"),
    ("unknown-variant", "fn main() { let o = Nothing; string_println(\"x\") }"),
    ("field-access-struct-params-flipped", "struct Pr[A, B] { first: A, second: B }\nfn pick[B, A](p: Pr[B, A]) -> A { p.first }\nfn main() { string_println(\"x\") }"),
    ("field-access-struct-params-rotated", "struct T3[A, B, C] { fa: A, fb: B, fc: C }\nfn pick[C, A, B](p: T3[C, A, B]) -> A { p.fa }\nfn main() { string_println(\"x\") }"),
    ("field-access-struct-param-named-like-fn-param", "struct Bq[T] { v: T }\nfn pick[T, U](p: Bq[U], t: T) -> T { p.v }\nfn main() { string_println(\"x\") }"),
    ("method-result-struct-params-flipped", "struct Pr[A, B] { first: A, second: B }\nimpl[A, B] Pr[A, B] { fn fst(self: Pr[A, B]) -> A { self.first } }\nfn pick[B, A](p: Pr[B, A]) -> A { Pr::fst(p) }\nfn main() { string_println(\"x\") }"),
    ("pattern-struct-params-flipped", "struct Pr[A, B] { first: A, second: B }\nfn pick[B, A](p: Pr[B, A]) -> A { match p { Pr { first: f, second: g } => f } }\nfn main() { string_println(\"x\") }"),
    ("enum-payload-params-flipped", "enum Ei[L, R] { Lf(L), Rt(R) }\nfn pick[R, L](e: Ei[R, L], d: L) -> L { match e { Lf(x) => x, Rt(y) => d } }\nfn main() { string_println(\"x\") }"),
    ("trait-path-arity-tparam-receiver-via-call", "trait Dsp { fn sw(Self, int32) -> string; }\nimpl Dsp for P { fn sw(self: P, k: int32) -> string { int32_to_string(self.a + k) } }\nfn idg[U](u: U) -> U { u }\nstruct Bq[T] { v: T }\nfn render[T: Dsp](x: T) -> string { Dsp::sw(idg(x), 1, 2) }\nfn main() { string_println(render(P { a: 1 })) }"),
    ("trait-path-arity-less-tparam-receiver-via-call", "trait Dsp { fn sw(Self, int32) -> string; }\nimpl Dsp for P { fn sw(self: P, k: int32) -> string { int32_to_string(self.a + k) } }\nfn idg[U](u: U) -> U { u }\nstruct Bq[T] { v: T }\nfn render[T: Dsp](x: T) -> string { Dsp::sw(idg(x)) }\nfn main() { string_println(render(P { a: 1 })) }"),
    ("trait-path-missing-bound-tparam-receiver", "trait Dsp { fn sw(Self, int32) -> string; }\nimpl Dsp for P { fn sw(self: P, k: int32) -> string { int32_to_string(self.a + k) } }\nfn idg[U](u: U) -> U { u }\nstruct Bq[T] { v: T }\nfn render[T](x: T) -> string { Dsp::sw(x, 1) }\nfn main() { string_println(render(P { a: 1 })) }"),
    ("trait-path-missing-bound-tparam-receiver-via-call", "trait Dsp { fn sw(Self, int32) -> string; }\nimpl Dsp for P { fn sw(self: P, k: int32) -> string { int32_to_string(self.a + k) } }\nfn idg[U](u: U) -> U { u }\nstruct Bq[T] { v: T }\nfn render[T](x: T) -> string { Dsp::sw(idg(x), 1) }\nfn main() { string_println(render(P { a: 1 })) }"),
    ("trait-path-missing-bound-tparam-receiver-via-closure-param", "trait Dsp { fn sw(Self, int32) -> string; }\nimpl Dsp for P { fn sw(self: P, k: int32) -> string { int32_to_string(self.a + k) } }\nfn idg[U](u: U) -> U { u }\nstruct Bq[T] { v: T }\nfn render[T](x: T) -> string { let g = |y| Dsp::sw(y, 1); g(x) }\nfn main() { string_println(render(P { a: 1 })) }"),
    ("trait-path-missing-bound-tparam-receiver-via-field", "trait Dsp { fn sw(Self, int32) -> string; }\nimpl Dsp for P { fn sw(self: P, k: int32) -> string { int32_to_string(self.a + k) } }\nfn idg[U](u: U) -> U { u }\nstruct Bq[T] { v: T }\nfn render[T](b: Bq[T]) -> string { Dsp::sw(b.v, 1) }\nfn main() { string_println(render(Bq { v: P { a: 1 } })) }"),
    ("trait-path-no-impl-concrete-receiver-via-call", "trait Dsp { fn sw(Self, int32) -> string; }\nimpl Dsp for P { fn sw(self: P, k: int32) -> string { int32_to_string(self.a + k) } }\nfn idg[U](u: U) -> U { u }\nstruct Bq[T] { v: T }\nfn main() { string_println(Dsp::sw(idg(true), 1)) }"),
    ("trait-path-other-bound-tparam-receiver-via-call", "trait Dsp { fn sw(Self, int32) -> string; }\nimpl Dsp for P { fn sw(self: P, k: int32) -> string { int32_to_string(self.a + k) } }\nfn idg[U](u: U) -> U { u }\nstruct Bq[T] { v: T }\ntrait Oth { fn oth(Self) -> int32; }\nimpl Oth for P { fn oth(self: P) -> int32 { 1 } }\nfn render[T: Oth](x: T) -> string { Dsp::sw(idg(x), 1) }\nfn main() { string_println(render(P { a: 1 })) }"),
];

const PRELUDE: &str = "struct P { a: int32 }\nenum Opt { Non, Som(int32) }\ntrait Opd { fn opd(Self) -> int32; }\nimpl Opd for int32 { fn opd(self: int32) -> int32 { self } }\nstruct HoldsDyn { d: dyn Opd }\n";

/// operator-domain alphabet: (tag, type annotation, value 1, value 2)
const OPTYPES: [(&str, &str, &str, &str); 16] = [
    // values behind a trait object: what they hold is not known where they are compared
    ("dyn", "dyn Opd", "1", "2"),
    ("tuple-holding-a-dyn", "(int32, dyn Opd)", "(1, 1)", "(1, 2)"),
    ("struct-holding-a-dyn", "HoldsDyn", "HoldsDyn { d: 1 }", "HoldsDyn { d: 2 }"),
    ("int32", "int32", "1", "2"),
    ("uint8", "uint8", "1u8", "2u8"),
    ("float64", "float64", "1.5", "2.5"),
    ("bool", "bool", "true", "false"),
    ("unit", "unit", "()", "()"),
    ("string", "string", "\"a\"", "\"b\""),
    ("tuple", "(int32, bool)", "(1, true)", "(2, false)"),
    ("array", "[int32; 2]", "[1, 2]", "[3, 4]"),
    ("vec", "Vec[int32]", "vec_new()", "vec_new()"),
    ("ref", "Ref[int32]", "ref(1)", "ref(2)"),
    ("fn", "(int32) -> int32", "|q: int32| q", "|q: int32| q + 1"),
    ("struct", "P", "P { a: 1 }", "P { a: 2 }"),
    ("enum", "Opt", "Som(1)", "Non"),
];
const BINOPS: [&str; 12] = ["+", "-", "*", "/", "<", ">", "<=", ">=", "==", "!=", "&&", "||"];

fn in_domain(op: &str, ty: &str) -> bool {
    let numeric = matches!(ty, "int32" | "uint8" | "float64");
    match op {
        "+" => numeric || ty == "string",
        "-" | "*" | "/" => numeric,
        "<" | ">" | "<=" | ">=" => numeric || ty == "string",
        "==" | "!=" => numeric || matches!(ty, "bool" | "string" | "unit" | "tuple" | "struct" | "enum"),
        "&&" | "||" => ty == "bool",
        "neg" => numeric,
        "not" => ty == "bool",
        _ => false,
    }
}

/// literal patterns: (kind, spelling)
const LITPATS: [(&str, &str); 4] = [("int", "0"), ("bool", "true"), ("string", "\"s\""), ("unit", "()")];
/// element types a literal pattern is matched against: (tag, annotation, value, literal kind it admits)
const LITTYPES: [(&str, &str, &str, &str); 10] = [
    ("int32", "int32", "5", "int"),
    ("int64", "int64", "5i64", "int"),
    ("uint8", "uint8", "5u8", "int"),
    ("float64", "float64", "1.5", "-"),
    ("float32", "float32", "1.5f32", "-"),
    ("bool", "bool", "false", "bool"),
    ("string", "string", "\"t\"", "string"),
    ("unit", "unit", "()", "unit"),
    ("tuple", "(int32, int32)", "(1, 2)", "-"),
    ("struct", "P", "P { a: 1 }", "-"),
];
/// (name, type with L for the length, a value holding an array of three elements)
const ARRAY_NESTS: [(&str, &str, &str); 6] = [
    ("bare", "[int32; L]", "[1, 2, 3]"),
    ("in-a-ref", "Ref[[int32; L]]", "ref([1, 2, 3])"),
    ("in-a-tuple", "([int32; L], bool)", "([1, 2, 3], true)"),
    ("in-a-vector", "Vec[[int32; L]]", "vec_push(vec_new(), [1, 2, 3])"),
    ("in-a-generic-enum", "GOpt[[int32; L]]", "GSom([1, 2, 3])"),
    ("array-of-arrays", "[[int32; L]; 1]", "[[1, 2, 3]]"),
];
/// element kinds of an array literal checked against a written array type: (name, element type, one element)
const LITERAL_ELEMS: [(&str, &str, &str); 8] = [
    ("int32", "int32", "1"),
    ("string", "string", "\"s\""),
    ("dyn", "dyn Shw", "1"),
    ("tuple-holding-dyn", "(int32, dyn Shw)", "(1, 2)"),
    ("array-of-dyn", "[dyn Shw; 1]", "[d0()]"),
    ("generic-struct", "Bx[int32]", "Bx { v: 1 }"),
    ("function", "(int32) -> int32", "|q: int32| q + 1"),
    ("struct-holding-dyn", "Hd", "Hd { d: 1 }"),
];
/// where the literal is checked against `[E; 2]`: (name, program with T = element type and § = the literal)
const LITERAL_PLACES: [(&str, &str); 9] = [
    ("let-annotation", "fn main() -> unit { let a: [T; 2] = §; let _ = a; string_println(\"x\") }"),
    ("argument", "fn take(a: [T; 2]) -> unit { () }\nfn main() -> unit { take(§); string_println(\"x\") }"),
    ("result", "fn make() -> [T; 2] { § }\nfn main() -> unit { let _ = make(); string_println(\"x\") }"),
    ("struct-field", "struct Holder { items: [T; 2] }\nfn main() -> unit { let h = Holder { items: § }; let _ = h; string_println(\"x\") }"),
    ("tuple-component", "fn main() -> unit { let a: (int32, [T; 2]) = (0, §); let _ = a; string_println(\"x\") }"),
    ("inner-array", "fn main() -> unit { let a: [[T; 2]; 1] = [§]; let _ = a; string_println(\"x\") }"),
    ("branch-result", "fn main() -> unit { let a: [T; 2] = if true { § } else { § }; let _ = a; string_println(\"x\") }"),
    ("match-arm-result", "fn main() -> unit { let a: [T; 2] = match 0 { 0 => §, _ => § }; let _ = a; string_println(\"x\") }"),
    ("closure-argument", "fn main() -> unit { let f = |a: [T; 2]| 0; let _ = f(§); string_println(\"x\") }"),
];
/// names no struct of the program has as a field (one of them is the word the editor queries insert at the cursor)
const UNKNOWN_FIELD_NAMES: [&str; 6] = ["y", "completion_placeholder", "a0", "self", "A", "to_string"];
/// (place, program with § for the field name)
const UNKNOWN_FIELD_PLACES: [(&str, &str); 7] = [
    ("read", "fn main() { let p = P { a: 1 }; let q = p.§; string_println(\"x\") }"),
    ("read-and-used", "fn main() { let p = P { a: 1 }; string_println(int32_to_string(p.§)) }"),
    ("read-through-a-field", "struct W2 { inner: P }\nfn main() { let w = W2 { inner: P { a: 1 } }; let q = w.inner.§; string_println(\"x\") }"),
    ("read-on-a-generic-struct", "struct Bq[T] { v: T }\nfn main() { let b = Bq { v: 1 }; let q = b.§; string_println(\"x\") }"),
    ("read-on-a-parameter", "fn f(p: P) -> unit { let q = p.§; () }\nfn main() { f(P { a: 1 }); string_println(\"x\") }"),
    ("struct-pattern", "fn main() { let p = P { a: 1 }; let r = match p { P { §: k } => 1 }; string_println(int32_to_string(r)) }"),
    ("struct-literal", "fn main() { let p = P { a: 1, §: 2 }; string_println(\"x\") }"),
];
/// a trait call on a type-parameter receiver without the bound: how the receiver is reached
const MISSING_BOUND_ROUTES: [(&str, &str); 5] = [
    ("directly", "fn render[T](x: T) -> string { Dsp::sw(x, 1) }"),
    ("via-generic-call", "fn render[T](x: T) -> string { Dsp::sw(idg(x), 1) }"),
    ("via-closure-parameter", "fn render[T](x: T) -> string { let g = |y| Dsp::sw(y, 1); g(x) }"),
    ("via-field", "fn render[T](x: T) -> string { let b = Bq { v: x }; Dsp::sw(b.v, 1) }"),
    ("via-let-of-a-generic-call", "fn render[T](x: T) -> string { let y = idg(x); Dsp::sw(y, 1) }"),
];
/// ... and what else the package declares: another item whose type parameter has the bound
const MISSING_BOUND_NEIGHBOURS: [(&str, &str); 7] = [
    ("none", ""),
    ("function-with-the-same-parameter-name-bounded", "fn other[T: Dsp](x: T) -> string { Dsp::sw(x, 2) }"),
    ("function-with-another-parameter-name-bounded", "fn other[W: Dsp](x: W) -> string { Dsp::sw(x, 2) }"),
    ("function-declared-before", "BEFORE fn other[T: Dsp](x: T) -> string { Dsp::sw(x, 2) }"),
    ("same-name-bounded-by-another-trait", "trait Oth { fn ot(Self) -> string; }\nfn other[T: Oth](x: T) -> string { Oth::ot(x) }"),
    ("method-with-the-same-parameter-name-bounded", "impl P { fn via[T: Dsp](self: P, x: T) -> string { Dsp::sw(x, 3) } }"),
    ("second-parameter-of-the-same-function-bounded", "SECOND"),
];
/// 2^64 - 1 is the number the compiler itself uses for "any length"
const ARRAY_LENGTHS: [&str; 7] = ["3", "2", "0", "4", "9223372036854775807", "18446744073709551615", "18446744073709551616"];
/// (type, suffix, largest value, unused)
const INT_RANGES: [(&str, &str, u128, u8); 8] = [
    ("int8", "i8", 127, 0),
    ("int16", "i16", 32767, 0),
    ("int32", "i32", 2147483647, 0),
    ("int64", "i64", 9223372036854775807, 0),
    ("uint8", "u8", 255, 0),
    ("uint16", "u16", 65535, 0),
    ("uint32", "u32", 4294967295, 0),
    ("uint64", "u64", 18446744073709551615, 0),
];
/// where the pattern stands; in all but the first the scrutinee's type is still being inferred when
/// the pattern is checked. § = literal pattern, @ = value, % = annotation
const LITPOSITIONS: [(&str, &str); 6] = [
    ("direct", "fn main() { let v: % = @; let r = match v { § => 1, _ => 0 }; string_println(int32_to_string(r)) }"),
    ("under-generic-constructor", "fn main() { let o = GSom(@); let r = match o { GSom(§) => 1, GSom(x) => 2, GNon => 3 }; string_println(int32_to_string(r)) }"),
    ("tuple-from-generic-call", "fn pairg[A, B](a: A, b: B) -> (A, B) { (a, b) }\nfn main() { let r = match pairg(@, 1) { (§, k) => k, (y, k) => 2 }; string_println(int32_to_string(r)) }"),
    ("closure-parameter", "fn main() { let f = |x| match x { § => 1, _ => 0 }; string_println(int32_to_string(f(@))) }"),
    ("let-bound-generic-result", "fn idg[T](x: T) -> T { x }\nfn main() { let w = idg(@); let r = match w { § => 1, _ => 0 }; string_println(int32_to_string(r)) }"),
    ("rigid-type-parameter", "fn d[T](o: GOpt[T]) -> int32 { match o { GSom(§) => 1, _ => 0 } }\nfn main() { string_println(int32_to_string(d(GSom(@)))) }"),
];

/// types written in a program: (spelling, well-formed?). `Bx` is a one-parameter generic struct,
/// `Show` a trait, `T` the type parameter of the enclosing generic function (only there).
const WRITTEN_TYPES: [(&str, bool); 22] = [
    ("int32", true),
    ("Vec[int32]", true),
    ("Bx[int32]", true),
    ("Bx[Bx[bool]]", true),
    ("dyn Show", true),
    ("(int32, Bx[string])", true),
    ("Nope", false),
    ("Vec[Nope]", false),
    ("Ref[Nope]", false),
    ("[Nope; 2]", false),
    ("(int32, Nope)", false),
    ("(Nope) -> int32", false),
    ("() -> Nope", false),
    ("Bx[Nope]", false),
    ("Bx", false),
    ("Bx[int32, string]", false),
    ("Vec[Bx[int32, string]]", false),
    ("P[int32]", false),
    ("int32[bool]", false),
    ("dyn Missing", false),
    ("Vec[dyn Missing]", false),
    ("dyn P", false),
];
/// where a type can be written; § = the type. `any()` gives a value of any type without the program
/// having to construct one.
const TYPE_POSITIONS: [(&str, &str); 16] = [
    ("param", "fn f(x: §) -> int32 { 1 }\nfn main() { string_println(\"x\") }"),
    ("result", "fn f() -> § { any() }\nfn main() { string_println(\"x\") }"),
    ("struct-field", "struct Q { a: § }\nfn main() { string_println(\"x\") }"),
    ("enum-payload", "enum Z { Za(§), Zb }\nfn main() { string_println(\"x\") }"),
    ("let-annotation", "fn main() { let v: § = any(); string_println(\"x\") }"),
    ("let-annotation-unused-fn", "fn g() -> unit { let v: § = any(); () }\nfn main() { string_println(\"x\") }"),
    ("let-annotation-in-closure", "fn main() { let c = || { let v: § = any(); 1 }; string_println(int32_to_string(c())) }"),
    ("let-annotation-in-match-arm", "fn main() { let r = match 1 { 1 => { let v: § = any(); 2 }, _ => 3 }; string_println(int32_to_string(r)) }"),
    ("let-pattern-annotation", "fn main() { let (v, w): (§, int32) = (any(), 1); string_println(int32_to_string(w)) }"),
    ("closure-param", "fn main() { let c = |y: §| 1; string_println(\"x\") }"),
    ("closure-param-nested", "fn main() { let c = || { let d = |y: §| 1; 2 }; string_println(int32_to_string(c())) }"),
    ("closure-param-second", "fn main() { let c = |k: int32, y: §| k; string_println(\"x\") }"),
    ("method-param", "impl P { fn m(self: P, x: §) -> int32 { 1 } }\nfn main() { string_println(\"x\") }"),
    ("trait-method-param", "trait Tq { fn m(Self, §) -> int32; }\nfn main() { string_println(\"x\") }"),
    ("extern-param", "extern \"go\" \"time\" \"Do\" do0(x: §) -> int32\nfn main() { string_println(\"x\") }"),
    ("let-annotation-in-generic-fn", "fn h[T](t: T) -> int32 { let v: § = any(); 1 }\nfn main() { string_println(int32_to_string(h(true))) }"),
];
const TYPE_PRELUDE: &str = "struct Bx[T] { v: T }\ntrait Show { fn show(Self) -> string; }\nimpl Show for int32 { fn show(self: int32) -> string { \"i\" } }\nfn any[T]() -> T { any() }\n";

pub struct IllTyped;

/// wrappers of the composed operand types (applied innermost first)
const NEST_WRAPPERS: [&str; 5] = ["tuple", "generic-struct", "generic-enum", "declared-struct", "declared-enum"];
/// leaves of the composed operand types: (tag, type, value, comparable?)
/// (equality of arrays and of reference cells is not pinned by the statement either way: not among the leaves)
const NEST_LEAVES: [(&str, &str, &str, bool); 5] = [
    ("int32", "int32", "1", true),
    ("string", "string", "\"a\"", true),
    ("vec", "Vec[int32]", "vec_new()", false),
    ("fn", "(int32) -> int32", "|q: int32| q", false),
    ("dyn", "dyn Opd", "1", false),
];

/// generic structs: (name, declarations, legal?) - legal iff no struct is reachable from itself through fields held by value,
/// an argument counting where the generic struct holds its parameter by value
const STRUCT_GENERIC: &[(&str, &str, bool)] = &[
    ("through-a-held-parameter", "struct W[T] { v: T }\nstruct S { w: W[S] }", false),
    ("through-a-parameter-behind-vec", "struct P[T] { v: Vec[T] }\nstruct S { p: P[S], k: int32 }", true),
    ("through-a-parameter-behind-ref", "struct W[T, U] { v: T, r: Ref[U] }\nstruct S { q: W[int32, S] }", true),
    ("through-the-held-one-of-two-parameters", "struct W[T, U] { v: T, r: Ref[U] }\nstruct S { q: W[S, int32] }", false),
    ("through-two-generic-levels", "struct W[T] { v: T }\nstruct Q[T] { w: W[W[T]] }\nstruct S { q: Q[(int32, S)] }", false),
    ("through-two-generic-levels-behind-vec", "struct W[T] { v: Vec[T] }\nstruct Q[T] { w: W[W[T]] }\nstruct S { q: Q[(int32, S)] }", true),
    ("growing-instances-in-a-cycle", "struct A[T] { b: B[(T, T)] }\nstruct B[T] { a: A[(T, T)] }\nstruct C { a: A[int32] }", false),
    ("growing-instances-in-a-cycle-unused", "struct A[T] { b: B[(T, T)] }\nstruct B[T] { a: A[(T, T)] }", false),
    ("growing-instance-that-ends", "struct A[T] { b: B[(T, T)] }\nstruct B[T] { v: T }\nstruct C { a: A[int32] }", true),
    ("growing-self-instance", "struct A[T] { n: A[(T, T)], v: T }", false),
    ("growing-self-instance-array", "struct A[T] { n: [A[[T; 2]]; 1] }", false),
    ("cycle-broken-by-a-ref-inside-a-generic", "struct A[T] { x: B[T] }\nstruct B[T] { y: Ref[A[T]] }\nstruct C { a: A[C] }", true),
    ("cycle-through-a-generic-that-forwards-its-parameter", "struct A[T] { x: B[T] }\nstruct B[T] { y: T }\nstruct C { a: A[C] }", false),
    ("parameter-held-only-by-the-other-struct", "struct A[T] { x: B[T], k: int32 }\nstruct B[T] { y: Vec[A[T]] }\nstruct C { a: A[C] }", true),
    ("parameter-held-in-a-cycle-of-generics", "struct A[T] { x: B[T] }\nstruct B[T] { y: Vec[A[T]], z: T }\nstruct C { a: A[C] }", false),
    ("enum-breaks-the-cycle", "enum E { N, M(S) }\nstruct S { e: E }", true),
    ("generic-enum-breaks-the-cycle", "enum O[T] { N, M(T) }\nstruct W[T] { v: O[T] }\nstruct S { w: W[S] }", true),
    ("function-type-breaks-the-cycle", "struct S { f: (S) -> S }", true),
];

impl Family for IllTyped {
    fn name(&self) -> &'static str {
        "illtyped"
    }
    fn serves(&self) -> &'static [&'static str] {
        &["C03", "C04", "C10", "C07", "C02"]
    }
    fn rule(&self) -> &'static str {
        "30 typed positions (operator operands, annotated let, parameters, conditions, return position, struct field, constructor payload, array element/index/set, ref_set, vec_push, branches, closure/method/generic arguments, the argument of a trait method called in path / dot form on a concrete receiver and on a type-parameter receiver whose type is known at the call or only after a generic call / through a closure parameter / through a field of a generic struct) x 10 expressions of different types (the well-typed one must be accepted, the other nine rejected by the typer); 32 structural errors (a field / method result / pattern variable of a generic struct or enum used at the type of another of its parameters, inside a generic function whose parameters carry the struct's parameter names in another order; array length in annotation/param/return, unknown/missing/extra field, call and constructor arity, tuple projection range, pattern arity/type, calling a non-function, unknown type/variant; a trait method called in path form with too many / too few arguments, without the bound, under another bound, with no impl for the receiver - the receiver reached directly, through a generic call, a closure parameter, a field); literal patterns: 4 literal kinds x 10 scrutinee types x 6 positions (directly; under a generic constructor, in a tuple from a generic call, on a closure parameter, on a let-bound generic result - the scrutinee's type still being inferred; against a rigid type parameter): rejected unless the literal's kind is the type's; written types: 24 spellings (6 well-formed; unknown names bare and under Vec / Ref / array / tuple / function types / a generic struct, a generic struct with no / too many arguments also under Vec, arguments given to a non-generic struct or a builtin, dyn of a missing trait / of a struct, the enclosing function's type parameter and one that is nobody's) x 16 places a type can be written (parameter, result, struct field, enum payload, let annotation in main / in an unused function / in a closure / in a match arm / on a tuple pattern / in a generic function, closure parameter plain / nested / second, method parameter, trait method parameter, extern parameter): accepted iff well-formed; operator domain: 12 binary + 2 unary operators x 16 operand types (among them a dyn value and a tuple / struct holding one: not comparable), written directly and inside a generic function instantiated at the type (accepted iff inside the documented domain). non-trivial = ill-typed variants; distinct = distinct source text; plus literal patterns at the edge of every integer type (the largest value, one past it, twice past it) x the 6 places a scrutinee type is learned x 8 types: past the largest value must be rejected (also reported under C10); plus array lengths written in a signature (3 = the value's length, 2, 0, 4, 2^63-1, 2^64-1 - the compiler's own any-length marker -, 2^64) x 6 nestings (bare, in a Ref / tuple / Vec / generic enum, array of arrays) x called directly / through a closure: only 3 is accepted, every case terminates; plus array literals of 1, 2, 3 elements checked against a written [E; 2] for 8 element kinds (int32, string, dyn, tuple / array / struct holding a dyn, generic struct, function) in 9 places (let annotation, argument, result, struct field, tuple component, inner array, branch result, match-arm result, closure result): only 2 elements are accepted; plus a trait call on a type-parameter receiver without the bound: 5 routes to the receiver x 7 neighbours that do have the bound (none, another function with the same / another parameter name before or after, the same name bounded by another trait, a method, the function's own second parameter) x instantiated at a type with / without an impl: all rejected (also reported under C07); plus all 512 containment graphs on three structs (an edge = a field holding the other struct by value) x 6 orders of declaration x 4 kinds of field (the struct, a tuple, an array, a generic instance holding it): accepted iff acyclic, and the accepted ones must be valid Go and print the sum (quick: direct fields in all 6 orders, the other kinds in 2); plus 6 names no struct has as a field (among them the word the editor queries insert at the cursor) x 7 places a field name is written (read, read and used, through a field, on a generic struct, on a parameter, struct pattern, struct literal): all rejected"
    }
    fn cases(&self, tier: Tier) -> Box<dyn Iterator<Item = Value> + '_> {
        let mut v = Vec::new();
        for (p, _, _) in POSITIONS {
            for (t, _) in EXPRS {
                v.push(json!({"kind": "position", "position": p, "expr": t}));
            }
        }
        for (n, _) in STRUCTURAL {
            v.push(json!({"kind": "structural", "name": n}));
        }
        for (t, _, _, _) in OPTYPES {
            for op in BINOPS {
                v.push(json!({"kind": "operator", "op": op, "ty": t}));
            }
            v.push(json!({"kind": "operator", "op": "neg", "ty": t}));
            v.push(json!({"kind": "operator", "op": "not", "ty": t}));
        }
        for (pos, _) in LITPOSITIONS {
            for (lk, _) in LITPATS {
                for (t, _, _, _) in LITTYPES {
                    v.push(json!({"kind": "literal-pattern", "position": pos, "literal": lk, "ty": t}));
                }
            }
        }
        // array lengths written in a signature, at the edges of the length's own type, bare and nested
        for (n, _, _) in ARRAY_NESTS {
            for l in ARRAY_LENGTHS {
                for route in ["called-directly", "through-a-closure"] {
                    v.push(json!({"kind": "array-length", "nest": n, "length": l, "route": route}));
                }
            }
        }
        // every containment graph on three structs (an edge = a field holding the other struct by value), in every
        // order of declaration, the field being the struct itself / a tuple / an array / a generic instance
        for mask in 0..512u64 {
            for perm in 0..6u64 {
                for kind in 0..4u64 {
                    // quick: direct fields in every order; the other three kinds in two orders
                    if tier == Tier::Quick && kind > 0 && perm != 0 && perm != 5 {
                        continue;
                    }
                    v.push(json!({"kind": "struct-graph", "mask": mask, "perm": perm, "edge": kind}));
                }
            }
        }
        // containment beyond three structs: rings and open chains of n structs (the link a plain field, or every
        // other link through a tuple / a generic instance), and generic structs that hold / do not hold their parameter
        let ring_sizes: Vec<u64> = if tier == Tier::Quick { (1..=12).collect() } else { (1..=24).chain(60..=72).chain([100, 200]).collect() };
        for n in ring_sizes {
            for shape in ["ring", "chain", "ring-mixed", "chain-mixed"] {
                v.push(json!({"kind": "struct-ring", "n": n, "shape": shape}));
            }
        }
        for (name, _, _) in STRUCT_GENERIC {
            v.push(json!({"kind": "struct-generic", "name": name}));
        }
        for n in UNKNOWN_FIELD_NAMES {
            for (pl, _) in UNKNOWN_FIELD_PLACES {
                v.push(json!({"kind": "unknown-field", "name": n, "place": pl}));
            }
        }
        // a trait call without the bound, next to other items that have it
        for (r, _) in MISSING_BOUND_ROUTES {
            for (nb, _) in MISSING_BOUND_NEIGHBOURS {
                for at in ["type-with-impl", "type-without-impl"] {
                    v.push(json!({"kind": "missing-bound", "route": r, "neighbour": nb, "at": at}));
                }
            }
        }
        // array literals of 1, 2, 3 elements checked against [E; 2], for 8 element kinds in 9 places
        for (e, _, _) in LITERAL_ELEMS {
            for (pl, _) in LITERAL_PLACES {
                for n in [1u64, 2, 3] {
                    for spelling in ["typed-items", "raw-items"] {
                        v.push(json!({"kind": "array-literal-length", "elem": e, "place": pl, "items": n, "spelling": spelling}));
                    }
                }
            }
        }
        // a literal pattern one past the largest value of the scrutinee's type, wherever that type is learned
        for (pos, _) in LITPOSITIONS {
            for (t, _, _, _) in INT_RANGES {
                for which in ["largest", "one-past-the-largest", "twice-the-largest-plus-two"] {
                    v.push(json!({"kind": "literal-pattern-range", "position": pos, "ty": t, "literal": which}));
                }
            }
        }
        for (pos, _) in TYPE_POSITIONS {
            for (t, _) in WRITTEN_TYPES {
                v.push(json!({"kind": "written-type", "position": pos, "ty": t}));
            }
            // the enclosing function's type parameter, and one that is nobody's
            v.push(json!({"kind": "written-type", "position": pos, "ty": "Vec[T]"}));
            v.push(json!({"kind": "written-type", "position": pos, "ty": "Vec[U]"}));
        }
        // the same table with the operator inside a generic function instantiated at the type
        for (t, _, _, _) in OPTYPES {
            for op in BINOPS {
                v.push(json!({"kind": "operator", "op": op, "ty": t, "route": "generic"}));
            }
            v.push(json!({"kind": "operator", "op": "neg", "ty": t, "route": "generic"}));
            v.push(json!({"kind": "operator", "op": "not", "ty": t, "route": "generic"}));
        }
        // == and != on composed operand types: every sequence of up to three wrappers (tuple, generic struct, generic
        // enum, a struct / an enum declared for the purpose) around a leaf; comparable iff the leaf is
        for depth in 1..=3usize {
            for code in 0..NEST_WRAPPERS.len().pow(depth as u32) {
                let seq: Vec<usize> = (0..depth).map(|i| (code / NEST_WRAPPERS.len().pow(i as u32)) % NEST_WRAPPERS.len()).collect();
                let repeats = (0..depth).any(|i| (0..i).any(|j| seq[i] == seq[j]));
                if tier == Tier::Quick && depth == 3 && !repeats {
                    continue;
                }
                for (leaf, _, _, _) in NEST_LEAVES {
                    for route in ["direct", "generic"] {
                        for op in ["==", "!="] {
                            if tier == Tier::Quick && depth == 3 && op == "!=" {
                                continue;
                            }
                            v.push(json!({"kind": "operator-nested", "op": op, "wrappers": seq.iter().map(|i| NEST_WRAPPERS[*i]).collect::<Vec<_>>(), "leaf": leaf, "route": route}));
                        }
                    }
                }
            }
        }
        Box::new(v.into_iter())
    }
    fn run(&self, case: &Value, ctx: &mut Ctx) -> Report {
        let mut rep = Report::default();
        let path = ctx.scratch.single_path();
        let (text, should_accept, site): (String, bool, String) = match case["kind"].as_str().unwrap() {
            "position" => {
                let pn = case["position"].as_str().unwrap();
                let et = case["expr"].as_str().unwrap();
                let (_, want, tmpl) = POSITIONS.iter().find(|(n, _, _)| *n == pn).unwrap();
                let (_, ex) = EXPRS.iter().find(|(t, _)| *t == et).unwrap();
                (format!("{}{}\n", PRELUDE, tmpl.replace('§', ex)), want == &et, format!("position={};expr={}", pn, et))
            }
            "literal-pattern" => {
                let (pos, lk, ty) = (case["position"].as_str().unwrap(), case["literal"].as_str().unwrap(), case["ty"].as_str().unwrap());
                let (_, tmpl) = LITPOSITIONS.iter().find(|(n, _)| *n == pos).unwrap();
                let (_, lit) = LITPATS.iter().find(|(k, _)| *k == lk).unwrap();
                let (_, ann, val, admits) = LITTYPES.iter().find(|(t, _, _, _)| *t == ty).unwrap();
                let text = format!("{}enum GOpt[T] {{ GNon, GSom(T) }}\n{}\n", PRELUDE, tmpl.replace('§', lit).replace('@', val).replace('%', ann));
                // a rigid type parameter admits no literal pattern at all
                let ok = *admits == lk && pos != "rigid-type-parameter";
                (text, ok, format!("literal-pattern={};literal={};ty={}", pos, lk, ty))
            }
            "array-length" => {
                let (nest, len, route) = (case["nest"].as_str().unwrap(), case["length"].as_str().unwrap(), case["route"].as_str().unwrap());
                let (_, ty, value) = ARRAY_NESTS.iter().find(|(n, _, _)| *n == nest).unwrap();
                let ty = ty.replace('L', len);
                let call = if route == "through-a-closure" { "let f = |q| keep(q);\n    let r = f(VALUE);".replace("VALUE", value) } else { format!("let r = keep({});", value) };
                let text = format!("{}enum GOpt[T] {{ GNon, GSom(T) }}\nfn keep(r: {}) -> {} {{ r }}\nfn main() -> unit {{\n    {}\n    string_println(\"x\")\n}}\n", PRELUDE, ty, ty, call);
                // the value is an array of three elements: only the length 3 fits
                (text, len == "3", format!("array-length={};nest={};route={}", len, nest, route))
            }
            "struct-graph" => {
                let (mask, perm, kind) = (case["mask"].as_u64().unwrap(), case["perm"].as_u64().unwrap() as usize, case["edge"].as_u64().unwrap());
                const PERMS: [[usize; 3]; 6] = [[0, 1, 2], [0, 2, 1], [1, 0, 2], [1, 2, 0], [2, 0, 1], [2, 1, 0]];
                let edge = |i: usize, j: usize| mask & (1 << (i * 3 + j)) != 0;
                let fty = |j: usize| match kind {
                    0 => format!("S{}", j),
                    1 => format!("(S{}, int32)", j),
                    2 => format!("[S{}; 1]", j),
                    _ => format!("Bx[S{}]", j),
                };
                let fval = |j: usize| match kind {
                    0 => format!("mk{}()", j),
                    1 => format!("(mk{}(), 0)", j),
                    2 => format!("[mk{}()]", j),
                    _ => format!("Bx {{ v: mk{}() }}", j),
                };
                let mut decls = vec![String::new(); 3];
                let mut mks = String::new();
                for i in 0..3 {
                    let mut fields = vec![format!("a{}: int32", i)];
                    let mut vals = vec![format!("a{}: {}", i, i + 1)];
                    for j in 0..3 {
                        if edge(i, j) {
                            fields.push(format!("f{}{}: {}", i, j, fty(j)));
                            vals.push(format!("f{}{}: {}", i, j, fval(j)));
                        }
                    }
                    decls[i] = format!("struct S{} {{ {} }}\n", i, fields.join(", "));
                    mks.push_str(&format!("fn mk{}() -> S{} {{ S{} {{ {} }} }}\n", i, i, i, vals.join(", ")));
                }
                let mut text = String::from("struct Bx[T] { v: T }\n");
                for i in PERMS[perm] {
                    text.push_str(&decls[i]);
                }
                text.push_str(&mks);
                text.push_str("fn main() -> unit {\n    string_println(int32_to_string(mk0().a0 + mk1().a1 + mk2().a2))\n}\n");
                // acyclic <=> some order of removal of structs without outgoing edges into the rest empties the graph
                let mut left = vec![0usize, 1, 2];
                loop {
                    let before = left.len();
                    let l2 = left.clone();
                    left.retain(|i| l2.iter().any(|j| edge(*i, *j)));
                    if left.len() == before || left.is_empty() {
                        break;
                    }
                }
                let acyclic = left.is_empty();
                (text, acyclic, format!("struct-graph;edge-kind={};acyclic={};edges={}", kind, acyclic, mask.count_ones()))
            }
            "operator-nested" => {
                let (op, leaf, route) = (case["op"].as_str().unwrap(), case["leaf"].as_str().unwrap(), case["route"].as_str().unwrap());
                let wrappers: Vec<&str> = case["wrappers"].as_array().unwrap().iter().map(|w| w.as_str().unwrap()).collect();
                let (_, lty, lv, ok) = NEST_LEAVES.iter().find(|(k, _, _, _)| *k == leaf).unwrap();
                let (mut ty, mut val) = (lty.to_string(), lv.to_string());
                let mut decls = String::from("struct Gs[T] { v: T }\nenum Ge[T] { Gn, Gv(T) }\n");
                // innermost first
                for (k, w) in wrappers.iter().enumerate() {
                    match *w {
                        "tuple" => { val = format!("(1, {})", val); ty = format!("(int32, {})", ty); }
                        "generic-struct" => { val = format!("Gs {{ v: {} }}", val); ty = format!("Gs[{}]", ty); }
                        "generic-enum" => { val = format!("Ge::Gv({})", val); ty = format!("Ge[{}]", ty); }
                        "declared-struct" => { decls.push_str(&format!("struct Ns{} {{ f: {} }}\n", k, ty)); val = format!("Ns{} {{ f: {} }}", k, val); ty = format!("Ns{}", k); }
                        _ => { decls.push_str(&format!("enum Ne{} {{ Na{}({}), Nb{} }}\n", k, k, ty, k)); val = format!("Ne{}::Na{}({})", k, k, val); ty = format!("Ne{}", k); }
                    }
                }
                let text = if route == "generic" {
                    format!("{}{}fn g[T](a: T, b: T) -> bool {{ a {} b }}\nfn main() {{ let a: {} = {}; let b: {} = {}; let r = g(a, b); string_println(\"x\") }}\n", PRELUDE, decls, op, ty, val, ty, val)
                } else {
                    format!("{}{}fn main() {{ let a: {} = {}; let b: {} = {}; let r = a {} b; string_println(\"x\") }}\n", PRELUDE, decls, ty, val, ty, val, op)
                };
                (text, *ok, format!("operator-nested;op={};leaf={};wrappers={};route={}", op, leaf, wrappers.join(">"), route))
            }
            "struct-ring" => {
                let (n, shape) = (case["n"].as_u64().unwrap() as usize, case["shape"].as_str().unwrap());
                let ring = shape.starts_with("ring");
                let mixed = shape.ends_with("mixed");
                let mut text = String::from("struct Bx[T] { v: T }\n");
                // declared from the last to the first, so a use comes before its definition at every link
                for k in (0..n).rev() {
                    let next = (k + 1) % n;
                    let last_of_chain = !ring && k == n - 1;
                    let (fty, fval) = match (mixed, k % 3) {
                        (true, 1) => (format!("(int32, S{})", next), format!("(0, mk{}())", next)),
                        (true, 2) => (format!("Bx[S{}]", next), format!("Bx {{ v: mk{}() }}", next)),
                        _ => (format!("S{}", next), format!("mk{}()", next)),
                    };
                    if last_of_chain {
                        text.push_str(&format!("struct S{} {{ a: int32 }}\nfn mk{}() -> S{} {{ S{} {{ a: {} }} }}\n", k, k, k, k, k));
                    } else {
                        text.push_str(&format!("struct S{k} {{ a: int32, next: {fty} }}\nfn mk{k}() -> S{k} {{ S{k} {{ a: {k}, next: {fval} }} }}\n", k = k, fty = fty, fval = fval));
                    }
                }
                text.push_str("fn main() -> unit {\n    string_println(int32_to_string(mk0().a + 6))\n}\n");
                (text, !ring, format!("struct-ring;shape={};n={}", shape, n))
            }
            "struct-generic" => {
                let name = case["name"].as_str().unwrap();
                let (_, decls, ok) = STRUCT_GENERIC.iter().find(|(k, _, _)| *k == name).unwrap();
                (format!("{}\nfn main() -> unit {{\n    string_println(int32_to_string(6))\n}}\n", decls), *ok, format!("struct-generic;name={}", name))
            }
            "unknown-field" => {
                let (n, pl) = (case["name"].as_str().unwrap(), case["place"].as_str().unwrap());
                let (_, tmpl) = UNKNOWN_FIELD_PLACES.iter().find(|(k, _)| *k == pl).unwrap();
                (format!("{}{}\n", PRELUDE, tmpl.replace('§', n)), false, format!("unknown-field;name={};place={}", n, pl))
            }
            "missing-bound" => {
                let (r, nb, at) = (case["route"].as_str().unwrap(), case["neighbour"].as_str().unwrap(), case["at"].as_str().unwrap());
                let (_, render) = MISSING_BOUND_ROUTES.iter().find(|(k, _)| *k == r).unwrap();
                let (_, neighbour) = MISSING_BOUND_NEIGHBOURS.iter().find(|(k, _)| *k == nb).unwrap();
                let mut render = render.to_string();
                let (mut before, mut after) = (String::new(), String::new());
                if *neighbour == "SECOND" {
                    // fn render[T, Q: Dsp](x: T, q: Q): the bound is on the other parameter
                    render = render.replace("fn render[T](x: T)", "fn render[T, Q: Dsp](x: T, q: Q)");
                } else if let Some(rest) = neighbour.strip_prefix("BEFORE ") {
                    before = rest.to_string();
                } else {
                    after = neighbour.to_string();
                }
                let arg = if at == "type-with-impl" { "P { a: 1 }" } else { "\"s\"" };
                let call = if *neighbour == "SECOND" { format!("render({}, P {{ a: 2 }})", arg) } else { format!("render({})", arg) };
                let text = format!("{}trait Dsp {{ fn sw(Self, int32) -> string; }}\nimpl Dsp for P {{ fn sw(self: P, k: int32) -> string {{ int32_to_string(self.a + k) }} }}\nfn idg[U](u: U) -> U {{ u }}\nstruct Bq[T] {{ v: T }}\n{}\n{}\n{}\nfn main() {{ string_println({}) }}\n", PRELUDE, before, render, after, call);
                (text, false, format!("missing-bound;route={};neighbour={};at={}", r, nb, at))
            }
            "array-literal-length" => {
                let (en, pl, n) = (case["elem"].as_str().unwrap(), case["place"].as_str().unwrap(), case["items"].as_u64().unwrap());
                let (_, ety, item) = LITERAL_ELEMS.iter().find(|(k, _, _)| *k == en).unwrap();
                let (_, tmpl) = LITERAL_PLACES.iter().find(|(k, _)| *k == pl).unwrap();
                // typed items: results of a function whose result type is the element type; raw items: the
                // expression itself (for element types holding a dyn that needs a coercion per item, which
                // goml may or may not offer: two raw items are then not judged)
                let spelling = case["spelling"].as_str().unwrap();
                let holds_dyn = ety.contains("dyn");
                let one = if spelling == "typed-items" { "e0()" } else { *item };
                let lit = format!("[{}]", vec![one; n as usize].join(", "));
                let text = format!("{}trait Shw {{ fn shw(Self) -> string; }}\nimpl Shw for int32 {{ fn shw(self: int32) -> string {{ int32_to_string(self) }} }}\nstruct Bx[T] {{ v: T }}\nstruct Hd {{ d: dyn Shw }}\nfn d0() -> dyn Shw {{ 1 }}\nfn e0() -> {} {{ {} }}\n{}\n", PRELUDE, ety, item, tmpl.replace('T', ety).replace('§', &lit));
                if n == 2 && spelling == "raw-items" && holds_dyn {
                    rep.tag("inapplicable");
                    return rep;
                }
                (text, n == 2, format!("array-literal-length;elem={};place={};items={};{}", en, pl, n, spelling))
            }
            "literal-pattern-range" => {
                let (pos, ty, which) = (case["position"].as_str().unwrap(), case["ty"].as_str().unwrap(), case["literal"].as_str().unwrap());
                let (_, tmpl) = LITPOSITIONS.iter().find(|(n, _)| *n == pos).unwrap();
                let (_, suffix, max, _) = INT_RANGES.iter().find(|(t, _, _, _)| *t == ty).unwrap();
                let lit: u128 = match which {
                    "largest" => *max,
                    "one-past-the-largest" => *max + 1,
                    _ => 2 * *max + 2,
                };
                let text = format!("{}enum GOpt[T] {{ GNon, GSom(T) }}\n{}\n", PRELUDE, tmpl.replace('§', &lit.to_string()).replace('@', &format!("5{}", suffix)).replace('%', ty));
                // in range: accepted where the type is known when the pattern is visited (elsewhere it may be
                // refused with a diagnostic); out of range: never accepted
                let ok = which == "largest" && pos != "rigid-type-parameter";
                (text, ok, format!("literal-pattern-range={};ty={};literal={}", pos, ty, which))
            }
            "written-type" => {
                let (pos, ty) = (case["position"].as_str().unwrap(), case["ty"].as_str().unwrap());
                let (_, tmpl) = TYPE_POSITIONS.iter().find(|(n, _)| *n == pos).unwrap();
                let ok = match ty {
                    "Vec[T]" => pos == "let-annotation-in-generic-fn",
                    "Vec[U]" => false,
                    _ => WRITTEN_TYPES.iter().find(|(t, _)| *t == ty).unwrap().1,
                };
                (format!("{}{}{}\n", PRELUDE, TYPE_PRELUDE, tmpl.replace('§', ty)), ok, format!("written-type={};ty={}", pos, ty))
            }
            "structural" => {
                let n = case["name"].as_str().unwrap();
                let (_, src) = STRUCTURAL.iter().find(|(k, _)| *k == n).unwrap();
                (format!("{}{}\n", PRELUDE, src), false, format!("structural={}", n))
            }
            _ => {
                let (op, ty) = (case["op"].as_str().unwrap(), case["ty"].as_str().unwrap());
                if matches!(op, "==" | "!=") && matches!(ty, "array" | "ref") {
                    // equality of arrays / reference identity: the statement does not pin it either way
                    rep.tag("inapplicable");
                    return rep;
                }
                let (_, ann, v1, v2) = OPTYPES.iter().find(|(t, _, _, _)| *t == ty).unwrap();
                let expr = match op {
                    "neg" => "-a".to_string(),
                    "not" => "!a".to_string(),
                    o => format!("a {} b", o),
                };
                if case["route"] == "generic" {
                    let ret = if matches!(op, "<" | ">" | "<=" | ">=" | "==" | "!=" | "&&" | "||" | "not") { "bool" } else { "T" };
                    let g = if matches!(op, "neg" | "not") { format!("fn g[T](a: T) -> {} {{ {} }}", ret, expr) } else { format!("fn g[T](a: T, b: T) -> {} {{ {} }}", ret, expr) };
                    let call = if matches!(op, "neg" | "not") { "g(a)" } else { "g(a, b)" };
                    (
                        format!("{}{}\nfn main() {{ let a: {} = {}; let b: {} = {}; let r = {}; string_println(\"x\") }}\n", PRELUDE, g, ann, v1, ann, v2, call),
                        in_domain(op, ty),
                        format!("operator={};ty={};route=generic", op, ty),
                    )
                } else {
                    (
                        format!("{}fn main() {{ let a: {} = {}; let b: {} = {}; let r = {}; string_println(\"x\") }}\n", PRELUDE, ann, v1, ann, v2, expr),
                        in_domain(op, ty),
                        format!("operator={};ty={}", op, ty),
                    )
                }
            }
        };
        if !should_accept {
            rep.nontrivial_key = Some(text.clone());
        }
        let is_graph = matches!(case["kind"].as_str(), Some("struct-graph" | "struct-ring" | "struct-generic"));
        let replay = json!({"kind": "text", "text": text, "oracle": if should_accept { "must-accept" } else { "must-reject" }});
        match compile_at(&path, &text) {
            CompileOutcome::Ok(comp) => {
                rep.outcome = Some("accepted".into());
                if should_accept {
                    rep.tag("well-typed:accepted");
                    if is_graph {
                        // the accepted graphs: stage representations consistent, valid Go, and the sum printed
                        for (stage, msg) in crate::irck::check_all(&comp) {
                            rep.findings.push(Finding { property: "C03", class: format!("irck.{}", stage), site: format!("{};msg={}", site, normalise_msg(&msg)), detail: msg, replay: replay.clone() });
                        }
                        let go = crate::oracle::go_text(&comp).unwrap_or_default();
                        match crate::projects::run_go(&go, FUEL) {
                            Ok(o) if lossy(&o.stdout) == "6\n" && o.end == crate::oracle::NEnd::Ok => rep.tag("struct-graph:runs"),
                            Ok(o) => rep.findings.push(Finding { property: "C02", class: "sem.stdout".into(), site: site.clone(), detail: format!("expected \"6\\n\" got {:?}/{}", lossy(&o.stdout), end_tag(&o.end)), replay: replay.clone() }),
                            Err(m) if m.starts_with("machinery") => rep.tag("machinery:go-unsupported"),
                            Err(m) => rep.findings.push(Finding { property: "C02", class: m.split(':').next().unwrap_or("go.invalid").to_string(), site: format!("{};goerr={}", site, normalise_msg(&m)), detail: m.clone(), replay: replay.clone() }),
                        }
                    }
                } else {
                    rep.tag("ill-typed:accepted");
                    let class = if case["kind"] == "operator" || case["kind"] == "operator-nested" { "operator-domain.accepted" } else { "ill-typed.accepted" };
                    if case["kind"] == "missing-bound" {
                        rep.findings.push(Finding { property: "C07", class: class.into(), site: site.clone(), detail: "a trait call on a type parameter that does not have the bound was accepted".into(), replay: replay.clone() });
                    }
                    if case["kind"] == "literal-pattern-range" {
                        rep.findings.push(Finding { property: "C10", class: class.into(), site: site.clone(), detail: "a literal pattern that does not fit the scrutinee's type was accepted".into(), replay: replay.clone() });
                    }
                    if is_graph {
                        // what Go would say about the emitted text (a type of infinite size) is C02's business
                        rep.findings.push(Finding { property: "C02", class: class.into(), site: site.clone(), detail: "structs that hold each other by value were accepted (Go: invalid recursive type)".into(), replay: replay.clone() });
                    }
                    rep.findings.push(Finding { property: "C03", class: class.into(), site, detail: "an ill-typed program was accepted".into(), replay });
                }
            }
            CompileOutcome::Err(e) => {
                let (stage, msg) = describe_err(&e);
                rep.outcome = Some(format!("rejected:{}", stage));
                if should_accept {
                    rep.tag(format!("well-typed:rejected:{}", stage));
                    if is_graph && case["kind"] != "struct-graph" {
                        // an open chain / a generic struct that does not hold its parameter is a legal program
                        rep.findings.push(Finding { property: "C02", class: format!("well-typed.rejected.{}", stage), site: format!("{};msg={}", site, normalise_msg(&msg)), detail: msg.clone(), replay: replay.clone() });
                    }
                    if case["kind"] == "array-literal-length" {
                        // the control of a place x element kind: without it the two ill-typed lengths say nothing
                        rep.tag(format!("machinery:control-rejected:{}", site));
                    }
                    rep.sample = Some(json!({"site": site, "rejected": msg}));
                } else if stage == "compile" {
                    rep.tag("ill-typed:rejected-late");
                    rep.findings.push(Finding { property: "C03", class: "ill-typed.rejected-after-typer".into(), site, detail: msg, replay });
                } else {
                    rep.tag(format!("ill-typed:rejected:{}", stage));
                }
            }
            CompileOutcome::Panic(m) => {
                let m = normalise_msg(&m);
                rep.tag("panic");
                for p in ["C03", "C04"] {
                    rep.findings.push(Finding { property: p, class: "compile.panic".into(), site: format!("{};msg={}", site, m), detail: m.clone(), replay: replay.clone() });
                }
            }
        }
        rep
    }
}
