//! C13: compilation is deterministic and reproducible. Hash-map iteration order is owned through
//! the cfg(goml_verif) seam (seed-controlled HashMap/HashSet in the compiler); directory creation
//! order is owned by the harness. For every project × seed × creation order × pipeline the Go text,
//! stage dumps, diagnostics and artifacts must be byte-identical to the seed-0 baseline; a second
//! process must agree too.

use crate::drive::*;
use crate::families::common::*;
use crate::projects::*;
use serde_json::{Value, json};

#[cfg(goml_verif)]
pub fn set_seed(n: u64) -> bool {
    compiler::verif_hash::set_seed(n);
    true
}
#[cfg(not(goml_verif))]
pub fn set_seed(_n: u64) -> bool {
    false
}

/// iteration order of a seeded set holding `names` (measures that the seam really permutes)
#[cfg(goml_verif)]
pub fn seam_order(names: &[String]) -> String {
    let set: compiler::verif_hash::HashSet<String> = names.iter().cloned().collect();
    set.iter().cloned().collect::<Vec<_>>().join(">")
}
#[cfg(not(goml_verif))]
pub fn seam_order(_names: &[String]) -> String {
    String::new()
}

fn single_file_projects() -> Vec<Project> {
    crate::families::text::corpus_sources()
        .into_iter()
        .filter(|(n, _)| n != "builtin.gom")
        .map(|(n, src)| Project { name: format!("pipeline/{}", n), files: vec![("main.gom".into(), src)], expected_stdout: None })
        .collect()
}

/// index-stable list shared with the second process: fixed projects first, then every DAG project
pub fn all_projects() -> &'static Vec<Project> {
    static ALL: std::sync::OnceLock<Vec<Project>> = std::sync::OnceLock::new();
    ALL.get_or_init(|| {
        let mut v = fixed_projects();
        v.extend(dag_projects());
        v
    })
}

fn n_fixed() -> usize {
    static N: std::sync::OnceLock<usize> = std::sync::OnceLock::new();
    *N.get_or_init(|| fixed_projects().len())
}

fn fixed_projects() -> Vec<Project> {
    let mut v = corpus_projects();
    v.extend(generated_projects());
    v.extend(erroneous_projects());
    // erroneous variants with several diagnostics (their order is observable)
    v.push(Project {
        name: "many-errors".into(),
        files: vec![
            ("main.gom".into(), "package Main\nimport A\nimport B\n\nfn main() {\n    let a: int32 = true;\n    let b: bool = 1;\n    string_println(A::nope());\n    string_println(B::nope2())\n}\n".into()),
            ("A/lib.gom".into(), "package A\n\nfn fa() -> int32 { \"s\" }\nfn fb() -> bool { 2 }\n".into()),
            ("B/lib.gom".into(), "package B\n\nfn fc() -> int32 { true }\n".into()),
        ],
        expected_stdout: None,
    });
    v.push(Project {
        name: "many-impls".into(),
        files: vec![
            ("main.gom".into(), "package Main\nimport A\nimport B\nimport C\n\nfn main() {\n    string_println(A::Show::show(B::P { v: 1 }) + A::Show::show(C::Q { v: 2 }) + A::Show::show(3) + A::Show::show(\"s\"))\n}\n".into()),
            ("A/lib.gom".into(), "package A\n\ntrait Show { fn show(Self) -> string; }\ntrait Other { fn other(Self) -> string; }\nimpl Show for int32 { fn show(self: int32) -> string { \"i\" } }\nimpl Show for string { fn show(self: string) -> string { \"s\" } }\nimpl Other for int32 { fn other(self: int32) -> string { \"o\" } }\n".into()),
            ("B/lib.gom".into(), "package B\nimport A\n\nstruct P { v: int32 }\nimpl A::Show for P { fn show(self: P) -> string { \"P\" } }\n".into()),
            ("C/lib.gom".into(), "package C\nimport A\n\nstruct Q { v: int32 }\nimpl A::Show for Q { fn show(self: Q) -> string { \"Q\" } }\n".into()),
        ],
        expected_stdout: Some("PQis\n".into()),
    });
    // types that occur in definitions only (no function builds or reads a value of them): tuple /
    // array / Ref helper types come from the field types alone
    v.push(Project {
        name: "helper-types-of-unused-definitions".into(),
        files: vec![(
            "main.gom".into(),
            "package Main\n\nstruct Ua { a: (int32, bool), b: [int32; 3], c: Ref[string], d: (string, string, int8), e: [bool; 2], f: Ref[(int32, int32)] }\nstruct Ub { g: (int8, int8), h: [string; 5], i: Ref[int64], j: (uint8, (bool, bool)), k: [[int32; 2]; 2] }\nenum Uc { V1((int64, int8)), V2([string; 4]), V3(Ref[bool]), V4((float64, float32, unit)) }\nenum Ud[T] { W1((T, int32)), W2([T; 2]) }\nfn main() {\n    string_println(\"x\")\n}\n".into(),
        )],
        expected_stdout: Some("x\n".into()),
    });
    v.push(Project {
        name: "helper-types-of-unused-definitions-in-a-library".into(),
        files: vec![
            ("main.gom".into(), "package Main\nimport L\n\nstruct Ma { a: (int32, string), b: [int8; 2], c: Ref[(bool, bool)] }\nfn main() {\n    string_println(int32_to_string(L::one()))\n}\n".into()),
            ("L/lib.gom".into(), "package L\n\nstruct La { a: (string, bool), b: [int64; 3], c: Ref[int8], d: (int16, int16, int16) }\nenum Lb { V1((uint8, uint16)), V2([bool; 7]), V3(Ref[float64]) }\nfn one() -> int32 { 1 }\n".into()),
        ],
        expected_stdout: Some("1\n".into()),
    });
    v.extend(single_file_projects());
    // one program per counted construct of the sizes family (n = 4): between them they use every feature the
    // generators know - both derives on one type, dyn, bounds, instances, closures, patterns of every kind
    for (c, _) in crate::families::sizes::CONSTRUCTS {
        if let Some((text, want)) = crate::families::sizes::program(c, 4) {
            v.push(Project { name: format!("construct-{}", c), files: vec![("main.gom".into(), format!("package Main\n\n{}", text))], expected_stdout: Some(want) });
        }
    }
    // both derives on the types of a library, used from Main
    v.push(Project {
        name: "both-derives-in-a-library".into(),
        files: vec![
            ("main.gom".into(), "package Main\nimport L\n\nfn main() {\n    string_println(L::mk().to_string());\n    string_println(L::mk().to_json());\n    string_println(L::pick().to_string());\n    string_println(L::pick().to_json())\n}\n".into()),
            ("L/lib.gom".into(), "package L\n\n#[derive(ToString, ToJson)]\nstruct P { a: int32, b: string }\n#[derive(ToJson)]\n#[derive(ToString)]\nenum E { A, B(int32, string) }\nfn mk() -> P { P { a: 1, b: \"x\" } }\nfn pick() -> E { E::B(2, \"y\") }\n".into()),
        ],
        expected_stdout: Some("P { a: 1, b: x }\n{\"a\":1,\"b\":\"x\"}\nE::B(2, y)\n{\"tag\":\"B\",\"fields\":[2,\"y\"]}\n".into()),
    });
    v
}

/// everything observable about compiling the project under the current seed
fn observe(root: &std::path::Path, outdir: &std::path::Path, proj: &Project) -> Vec<(String, String)> {
    let mut obs = Vec::new();
    let (w, dumps) = whole(root);
    match w {
        Built::Ok { go } => obs.push(("whole.go".to_string(), go)),
        Built::Err { stage, messages } => obs.push(("whole.diagnostics".to_string(), format!("{}:{}", stage, messages.join("\n")))),
        Built::Panic(m) => obs.push(("whole.panic".to_string(), m)),
    }
    obs.extend(dumps.into_iter().map(|(k, v)| (format!("whole.{}", k), v)));
    let pkgs = packages(proj);
    if pkgs.len() > 1 {
        if let Some(order) = topo_orders(&pkgs).into_iter().next() {
            let r = separate(root, outdir, &pkgs, &order, false);
            let linked_ok = matches!(r.built, Built::Ok { .. });
            match r.built {
                Built::Ok { go } => obs.push(("link.go".to_string(), go)),
                Built::Err { stage, messages } => obs.push(("link.diagnostics".to_string(), format!("{}:{}", stage, messages.join("\n")))),
                Built::Panic(m) => obs.push(("link.panic".to_string(), m)),
            }
            for (name, (ij, _, cj)) in r.artifacts {
                obs.push((format!("artifact.{}.interface", name), ij));
                obs.push((format!("artifact.{}.core", name), cj));
            }
            if linked_ok {
                obs.extend(faulty_links(root, outdir, &pkgs, &order));
            }
        }
    }
    // discovery order (non-vacuity: how many distinct orders did the seeds produce?)
    let path = root.join("main.gom");
    if let Ok(src) = std::fs::read_to_string(&path) {
        if let Ok(ast) = compiler::pipeline::pipeline::parse_ast_file(&path, &src) {
            if let Ok(g) = compiler::pipeline::packages::discover_packages(root, Some(&path), Some(ast)) {
                obs.push(("~discovery_order".to_string(), g.discovery_order.join(">")));
            }
        }
    }
    obs
}

/// link attempts that must fail, and whose failure report is observable: every package's core
/// left out in turn, and every package rebuilt alone with one more exported item (so that all of
/// its dependents are stale at once); cores are offered in build order and in reverse
fn faulty_links(root: &std::path::Path, outdir: &std::path::Path, pkgs: &[PkgInfo], order: &[String]) -> Vec<(String, String)> {
    use compiler::pipeline::separate::{build_package, link_cores, read_core};
    let mut obs = Vec::new();
    let link = |dir: &std::path::Path, names: &[String]| -> String {
        let r = std::panic::catch_unwind(std::panic::AssertUnwindSafe(|| {
            let mut units = Vec::new();
            for n in names {
                units.push(read_core(&dir.join(format!("{}.core", n)))?);
            }
            link_cores(units)
        }));
        match r {
            Ok(Ok(_)) => "linked".to_string(),
            Ok(Err(e)) => format!("rejected: {}", e.diagnostics().iter().map(|d| d.message().to_string()).collect::<Vec<_>>().join("\n")),
            Err(p) => format!("panic: {}", crate::oracle::panic_message(p)),
        }
    };
    let rev: Vec<String> = order.iter().rev().cloned().collect();
    for x in order.iter().filter(|n| *n != "Main") {
        let without: Vec<String> = order.iter().filter(|n| *n != x).cloned().collect();
        let without_rev: Vec<String> = rev.iter().filter(|n| *n != x).cloned().collect();
        obs.push((format!("link-without.{}", x), link(outdir, &without)));
        obs.push((format!("link-without.{}.reversed", x), link(outdir, &without_rev)));
        // rebuild x alone with one more exported item, into a copy of the artifact directory
        let pkg = pkgs.iter().find(|p| &p.name == x).unwrap();
        let stale_dir = outdir.with_extension("stale");
        let _ = std::fs::remove_dir_all(&stale_dir);
        std::fs::create_dir_all(&stale_dir).unwrap();
        for e in std::fs::read_dir(outdir).unwrap().flatten() {
            let _ = std::fs::copy(e.path(), stale_dir.join(e.file_name()));
        }
        let file = root.join(&pkg.files[0]);
        let original = std::fs::read_to_string(&file).unwrap();
        std::fs::write(&file, format!("{}\nfn zz_one_more_item() -> int32 {{ 0 }}\n", original)).unwrap();
        let built = std::panic::catch_unwind(std::panic::AssertUnwindSafe(|| build_package(inputs(root, pkg, &stale_dir))));
        std::fs::write(&file, original).unwrap();
        if let Ok(Ok(u)) = built {
            write_interface(&stale_dir, &u.interface);
            write_core(&stale_dir, &u);
            obs.push((format!("link-stale.{}", x), link(&stale_dir, order)));
            obs.push((format!("link-stale.{}.reversed", x), link(&stale_dir, &rev)));
        } else {
            obs.push((format!("link-stale.{}", x), "rebuild failed".to_string()));
        }
        let _ = std::fs::remove_dir_all(&stale_dir);
    }
    obs
}

pub fn digest(obs: &[(String, String)]) -> String {
    let mut h: u64 = 0xcbf29ce484222325;
    for (k, v) in obs {
        if k.starts_with('~') {
            continue;
        }
        for b in k.as_bytes().iter().chain(v.as_bytes()) {
            h ^= *b as u64;
            h = h.wrapping_mul(0x100000001b3);
        }
    }
    format!("{:016x}", h)
}

/// entry point of the second process: prints the digest of project `idx` under `seed`
pub fn det_one(idx: usize, seed: u64) {
    let projs = all_projects();
    let proj = &projs[idx];
    let scratch = crate::oracle::Scratch::new("det-one");
    let root = scratch.fresh_dir("proj");
    let outdir = scratch.fresh_dir("out");
    let order: Vec<usize> = (0..proj.files.len()).collect();
    materialize(&root, proj, &order);
    let _ = std::env::set_current_dir(&scratch.empty);
    set_seed(seed);
    std::panic::set_hook(Box::new(|_| {}));
    // paths differ between processes: normalise the scratch root away
    let obs: Vec<(String, String)> = observe(&root, &outdir, proj).into_iter().map(|(k, v)| (k, v.replace(&scratch.root.to_string_lossy().to_string(), "<ROOT>"))).collect();
    println!("{}", digest(&obs));
}

/// entry point of a process that compiles several projects one after the other: prints the digest of the last
pub fn det_seq(idxs: &[usize]) {
    let projs = all_projects();
    let scratch = crate::oracle::Scratch::new("det-seq");
    let _ = std::env::set_current_dir(&scratch.empty);
    set_seed(0);
    std::panic::set_hook(Box::new(|_| {}));
    let mut last = String::new();
    for idx in idxs {
        let proj = &projs[*idx];
        // every project in the same two directories: what a process keeps from one compilation meets the next one under the same paths
        let root = scratch.root.join("proj");
        let outdir = scratch.root.join("out");
        let _ = std::fs::remove_dir_all(&root);
        let _ = std::fs::remove_dir_all(&outdir);
        std::fs::create_dir_all(&root).unwrap();
        std::fs::create_dir_all(&outdir).unwrap();
        let order: Vec<usize> = (0..proj.files.len()).collect();
        materialize(&root, proj, &order);
        let obs: Vec<(String, String)> = observe(&root, &outdir, proj).into_iter().map(|(k, v)| (k, v.replace(&scratch.root.to_string_lossy().to_string(), "<ROOT>"))).collect();
        last = digest(&obs);
    }
    println!("{}", last);
}

/// the projects of the warm-process histories: the fixed projects that share package names with each other
fn warm_set(quick: bool) -> Vec<usize> {
    let n = n_fixed().min(if quick { 14 } else { 30 });
    (0..n).collect()
}

pub struct Determinism;

impl Family for Determinism {
    fn name(&self) -> &'static str {
        "determinism"
    }
    fn serves(&self) -> &'static [&'static str] {
        &["C13"]
    }
    fn case_timeout(&self, _tier: Tier) -> u64 {
        300
    }
    fn rule(&self) -> &'static str {
        "projects = 8 corpus projects + 6 generated + 4 ill-typed variants + 2 projects with several diagnostics / several impls + 74 single-file corpus programs + one program per counted construct of the sizes family (n = 4; both derives on one type among them) + a library with both derives + one project per import DAG on 5 packages in which Main reaches every package (10 possible edges; <= 4 edges, plus the 5-edge ones in one naming, in quick; all in thorough) x 2 directory namings (alphabetical order agreeing with / opposing the topological order) x {well-typed, every leaf ill-typed, every leaf declaring a wrong package name}; for each: hash seeds 0..15 (quick) / 0..127 (thorough) (DAG projects: 0..7 / 0..31) x 2 file creation orders x {whole-program compile, separate build+link through files, and for every non-Main package X the links that must fail: X's core left out, X rebuilt alone with one more exported item so that all its dependents are stale at once, cores offered in build order and reversed} in this process, plus a second process for seeds 0 and 1, plus warm-process histories (a fresh process compiles project X and then project Y, and Y, X, Y, in the same two directories, for all ordered pairs of the first 14 / 30 fixed projects: Y's observables must equal those of a process that compiled only Y), plus 4 spellings of the entry path (bare file name and ./ from inside the project directory, dir/main.gom from its parent, ../dir/main.gom); first an audit that every std hash collection of the compiler crate is imported through the seeded seam and that no clock / random / environment / thread source appeared; observables: Go text, Core/Mono/Lift/ANF dumps, ordered diagnostics, .interface/.core JSON (incl. interface hashes); oracle: byte-identical to the seed-0 baseline. Non-vacuity: the number of distinct package discovery orders produced by the seeds is measured per project. non-trivial = projects for which the seeds produced more than one iteration order of a seeded set of its package names (measured); distinct = distinct (project, seed, order)"
    }
    fn cases(&self, tier: Tier) -> Box<dyn Iterator<Item = Value> + '_> {
        let nf = n_fixed();
        let specs = dag_specs();
        let dag: Vec<usize> = specs.iter().enumerate().filter(|(_, sp)| dag_in_tier(sp, tier == Tier::Quick)).map(|(i, _)| nf + i).collect();
        // a process that has compiled one project compiles another one (all ordered pairs, and back to the first)
        let warm: Vec<Value> = warm_set(tier == Tier::Quick).into_iter().map(|i| json!({"kind": "warm-process", "first": i})).collect();
        Box::new(std::iter::once(json!({"kind": "seam-audit"})).chain(warm.into_iter()).chain((0..nf).chain(dag.into_iter()).map(|i| json!({"project": i}))))
    }
    fn run(&self, case: &Value, ctx: &mut Ctx) -> Report {
        let mut rep = Report::default();
        if case["kind"] == "warm-process" {
            let first = case["first"].as_u64().unwrap() as usize;
            let exe = std::env::current_exe().unwrap();
            let run = |idxs: &[usize]| -> Option<String> {
                let args: Vec<String> = std::iter::once("det-seq".to_string()).chain(idxs.iter().map(|i| i.to_string())).collect();
                std::process::Command::new(&exe).args(&args).output().ok().map(|o| String::from_utf8_lossy(&o.stdout).trim().to_string())
            };
            let projs = all_projects();
            let set = warm_set(ctx.tier == Tier::Quick);
            let fresh: Vec<Option<String>> = set.iter().map(|j| run(&[*j])).collect();
            let mut n = 0u64;
            for (k, j) in set.iter().enumerate() {
                if *j == first {
                    continue;
                }
                for hist in [vec![first, *j], vec![*j, first, *j]] {
                    n += 1;
                    let got = run(&hist);
                    match (&fresh[k], &got) {
                        (Some(f), Some(g)) if !f.is_empty() && f == g => rep.tag("warm:agrees"),
                        (Some(f), Some(g)) if !f.is_empty() && !g.is_empty() => {
                            rep.more_keys.push(n);
                            rep.findings.push(Finding {
                                property: "C13",
                                class: "nondeterministic.warm-process".into(),
                                site: format!("after={};project={};history-length={}", projs[first].name, projs[*j].name, hist.len()),
                                detail: format!("a process that had compiled {:?} before produced digest {} for {} instead of {}", hist[..hist.len() - 1].iter().map(|i| projs[*i].name.clone()).collect::<Vec<_>>(), g, projs[*j].name, f),
                                replay: json!({"kind": "determinism-history", "projects": hist.iter().map(|i| projs[*i].name.clone()).collect::<Vec<_>>(), "indices": hist}),
                            });
                        }
                        _ => rep.tag("machinery:warm-process-failed"),
                    }
                }
            }
            rep.sub_evaluations = n;
            rep.nontrivial_key = Some(format!("warm:{}", projs[first].name));
            rep.outcome = Some(format!("warm:{}", projs[first].name));
            rep.sample = Some(json!({"first": projs[first].name, "histories": n}));
            return rep;
        }
        if case["kind"] == "seam-audit" {
            return seam_audit();
        }
        if !set_seed(0) {
            rep.tag("machinery:hash-seam-not-compiled-in");
            return rep;
        }
        let projs = all_projects();
        let idx = case["project"].as_u64().unwrap() as usize;
        let proj = &projs[idx];
        let is_dag = idx >= n_fixed();
        let seeds: u64 = match (ctx.tier == Tier::Quick, is_dag) {
            (true, false) => 16,
            (true, true) => 8,
            (false, false) => 128,
            (false, true) => 32,
        };
        let root = ctx.scratch.fresh_dir("proj");
        let outdir = ctx.scratch.fresh_dir("out");
        let fwd: Vec<usize> = (0..proj.files.len()).collect();
        let rev: Vec<usize> = fwd.iter().rev().cloned().collect();
        let norm = |obs: Vec<(String, String)>, root: &std::path::Path| -> Vec<(String, String)> {
            let r = root.parent().unwrap().to_string_lossy().to_string();
            obs.into_iter().map(|(k, v)| (k, v.replace(&r, "<ROOT>"))).collect()
        };
        materialize(&root, proj, &fwd);
        set_seed(0);
        let base = norm(observe(&root, &outdir, proj), &root);
        let base_digest = digest(&base);
        let mut orders = std::collections::BTreeSet::new();
        let mut seam_orders = std::collections::BTreeSet::new();
        let pkg_names: Vec<String> = packages(proj).into_iter().map(|p| p.name).collect();
        let mut evals = 0u64;
        let mut reported = std::collections::BTreeSet::new();
        for (oi, order) in [&fwd, &rev].iter().enumerate() {
            materialize(&root, proj, order);
            for seed in 0..seeds {
                set_seed(seed);
                evals += 1;
                seam_orders.insert(seam_order(&pkg_names));
                let obs = norm(observe(&root, &outdir, proj), &root);
                if let Some((_, d)) = obs.iter().find(|(k, _)| k == "~discovery_order") {
                    orders.insert(d.clone());
                }
                rep.more_keys.push(fnv(&format!("{}|{}|{}", proj.name, seed, oi)));
                if digest(&obs) != base_digest {
                    // which observable differs
                    for ((k1, v1), (k2, v2)) in base.iter().zip(obs.iter()) {
                        if k1.starts_with('~') {
                            continue;
                        }
                        if k1 != k2 || v1 != v2 {
                            let what = k1.split('.').take(2).collect::<Vec<_>>().join(".");
                            if reported.insert(what.clone()) {
                                rep.findings.push(Finding {
                                    property: "C13",
                                    class: if what.starts_with("link-") { "nondeterministic.link-failure-report".to_string() } else { format!("nondeterministic.{}", what.split('.').last().unwrap_or("")) },
                                    site: format!("project={};observable={}", proj.name, what),
                                    detail: format!("seed {} (creation order {}) gives a different {} than seed 0", seed, oi, k1),
                                    replay: json!({"kind": "determinism", "project": proj.name, "files": proj.files, "seed": seed, "observable": k1, "baseline_excerpt": first_diff(v1, v2)}),
                                });
                            }
                            break;
                        }
                    }
                }
            }
        }
        set_seed(0);
        // the entry path spelled differently (as a user would type it from inside the project
        // directory, or from its parent): same sources, so same Go / same diagnostics
        materialize(&root, proj, &fwd);
        let base_whole: Vec<(String, String)> = base.iter().filter(|(k, _)| k.starts_with("whole.")).cloned().collect();
        let cwd_before = std::env::current_dir().ok();
        let dir_name = root.file_name().map(|n| n.to_string_lossy().to_string()).unwrap_or_default();
        for (spelling, cwd, rel) in [
            ("bare", root.clone(), "main.gom".to_string()),
            ("dot-slash", root.clone(), "./main.gom".to_string()),
            ("from-parent", root.parent().unwrap().to_path_buf(), format!("{}/main.gom", dir_name)),
            ("dot-dot", root.clone(), format!("../{}/main.gom", dir_name)),
        ] {
            if std::env::set_current_dir(&cwd).is_err() {
                rep.tag("machinery:chdir-failed");
                continue;
            }
            evals += 1;
            let (w, dumps) = whole_at(std::path::Path::new(&rel));
            let mut obs: Vec<(String, String)> = Vec::new();
            match w {
                Built::Ok { go } => obs.push(("whole.go".to_string(), go)),
                Built::Err { stage, messages } => obs.push(("whole.diagnostics".to_string(), format!("{}:{}", stage, messages.join("\n")))),
                Built::Panic(m) => obs.push(("whole.panic".to_string(), m)),
            }
            obs.extend(dumps.into_iter().map(|(k, v)| (format!("whole.{}", k), v)));
            // diagnostics quote the path as given: compare with every spelling of the root normalised away
            let strip = |s: &str| s.replace(&format!("(../{})", dir_name), "(.)").replace("(<ROOT>/proj)", "(.)").replace(&format!("../{}/", dir_name), "").replace(&format!("{}/", dir_name), "").replace("./", "").replace("<ROOT>/proj/", "").replace("<ROOT>/", "").replace(&format!("(../{})", dir_name), "(.)").replace(&format!("({})", dir_name), "(.)").replace("(<ROOT>/proj)", "(.)").replace("(proj)", "(.)");
            let same = obs.len() == base_whole.len() && obs.iter().zip(base_whole.iter()).all(|((k1, v1), (k2, v2))| k1 == k2 && strip(&norm(vec![(k1.clone(), v1.clone())], &root)[0].1) == strip(v2));
            if same {
                rep.tag(format!("path-spelling:{}:agrees", spelling));
            } else {
                let what = obs.first().map(|(k, _)| k.clone()).unwrap_or_default();
                rep.findings.push(Finding {
                    property: "C13",
                    class: "nondeterministic.path-spelling".into(),
                    site: format!("project={};spelling={}", if proj.name.starts_with("dag5") || proj.name.starts_with("pipeline/") { proj.name.split(';').next().unwrap_or("").split('/').next().unwrap_or("").to_string() } else { proj.name.clone() }, spelling),
                    detail: format!("entry path {:?} (cwd = {}) gives a different {} than the absolute path: {}", rel, if cwd == root { "project directory" } else { "its parent" }, what, first_diff(&base_whole.first().map(|x| x.1.clone()).unwrap_or_default(), &obs.first().map(|x| x.1.clone()).unwrap_or_default())),
                    replay: json!({"kind": "determinism", "project": proj.name, "files": proj.files, "entry_path": rel, "cwd": if cwd == root { "project" } else { "parent" }}),
                });
            }
        }
        if let Some(c) = cwd_before {
            let _ = std::env::set_current_dir(c);
        }
        // a second process
        materialize(&root, proj, &fwd);
        let exe = std::env::current_exe().unwrap();
        for seed in [0u64, 1] {
            evals += 1;
            set_seed(seed);
            let here = digest(&norm(observe(&root, &outdir, proj), &root));
            let out = std::process::Command::new(&exe).args(["det-one", &idx.to_string(), &seed.to_string()]).output();
            match out {
                Ok(o) => {
                    let d = String::from_utf8_lossy(&o.stdout).trim().to_string();
                    if d != here {
                        rep.findings.push(Finding {
                            property: "C13",
                            class: "nondeterministic.other-process".into(),
                            site: format!("project={}", proj.name),
                            detail: format!("a second process (seed {}) produced digest {} instead of {}", seed, d, here),
                            replay: json!({"kind": "determinism", "project": proj.name, "files": proj.files, "seed": seed}),
                        });
                    } else {
                        rep.tag("second-process:agrees");
                    }
                }
                Err(_) => rep.tag("machinery:second-process-failed"),
            }
        }
        set_seed(0);
        rep.sub_evaluations = evals;
        rep.tag(format!("discovery-orders:{}", orders.len()));
        rep.tag(format!("seam-set-orders:{}", seam_orders.len()));
        if seam_orders.len() > 1 {
            rep.nontrivial_key = Some(proj.name.clone());
        }
        rep.outcome = Some(format!("{}:{}", proj.name, base_digest));
        rep.sample = Some(json!({"project": proj.name, "seeds": seeds, "distinct_discovery_orders": orders.iter().collect::<Vec<_>>(), "distinct_iteration_orders_of_a_seeded_set_of_the_package_names": seam_orders.len(), "observables": base.iter().map(|(k, _)| k.clone()).collect::<Vec<_>>()}));
        rep
    }
}

fn first_diff(a: &str, b: &str) -> String {
    let i = a.bytes().zip(b.bytes()).position(|(x, y)| x != y).unwrap_or(a.len().min(b.len()));
    let lo = i.saturating_sub(80);
    let cut = |s: &str| -> String { s.chars().skip(s[..lo.min(s.len())].chars().count()).take(200).collect() };
    format!("baseline: …{}… | other: …{}…", cut(a), cut(b))
}

fn fnv(s: &str) -> u64 {
    let mut h: u64 = 0xcbf29ce484222325;
    for b in s.as_bytes() {
        h ^= *b as u64;
        h = h.wrapping_mul(0x100000001b3);
    }
    h
}

/// Does the hash seam still own every hash collection of the compiler crate? Every `use` of
/// std's HashMap / HashSet must be the `cfg(not(goml_verif))` half of a guarded pair, and no other
/// source of run-to-run variation (clock, random state, environment, threads) may have appeared.
/// This is an audit of the harness's own assumption, reported as tags (and a finding only for a
/// hash collection that bypasses the seam, because the seed enumeration cannot reach it).
fn seam_audit() -> Report {
    let mut rep = Report::default();
    let mut files = Vec::new();
    fn walk(d: &std::path::Path, out: &mut Vec<std::path::PathBuf>) {
        if let Ok(rd) = std::fs::read_dir(d) {
            let mut es: Vec<_> = rd.filter_map(|e| e.ok()).map(|e| e.path()).collect();
            es.sort();
            for p in es {
                if p.is_dir() {
                    if p.file_name().map(|n| n != "tests").unwrap_or(true) {
                        walk(&p, out);
                    }
                } else if p.extension().map(|e| e == "rs").unwrap_or(false) {
                    out.push(p);
                }
            }
        }
    }
    walk(std::path::Path::new("/repo/crates/compiler/src"), &mut files);
    let mut guarded = 0u64;
    let mut unguarded: Vec<String> = Vec::new();
    let mut other: Vec<String> = Vec::new();
    for f in &files {
        if f.ends_with("verif_hash.rs") {
            continue;
        }
        let text = std::fs::read_to_string(f).unwrap_or_default();
        let lines: Vec<&str> = text.lines().collect();
        for (i, l) in lines.iter().enumerate() {
            let code = l.split("//").next().unwrap_or("");
            if code.contains("std::collections::") && (code.contains("HashMap") || code.contains("HashSet")) {
                let prev = if i > 0 { lines[i - 1].trim() } else { "" };
                if code.trim_start().starts_with("use ") && prev == "#[cfg(not(goml_verif))]" {
                    guarded += 1;
                } else {
                    unguarded.push(format!("{}:{}", f.strip_prefix("/repo/").unwrap_or(f).display(), i + 1));
                }
            }
            for needle in ["RandomState", "SystemTime", "Instant::now", "thread_rng", "std::env::var", "thread::spawn", "DefaultHasher"] {
                if code.contains(needle) {
                    other.push(format!("{}:{}:{}", f.strip_prefix("/repo/").unwrap_or(f).display(), i + 1, needle));
                }
            }
        }
    }
    rep.tag(format!("seam:guarded-imports:{}", guarded));
    rep.tag(format!("seam:unguarded-hash-uses:{}", unguarded.len()));
    rep.tag(format!("seam:other-nondeterminism-sources:{}", other.len()));
    for u in &unguarded {
        rep.findings.push(Finding {
            property: "C13",
            class: "seam.unseeded-hash-collection".into(),
            site: format!("at={}", u.split(':').next().unwrap_or("")),
            detail: format!("{} uses a std hash collection that does not go through the seeded seam: the hash-seed enumeration does not cover its iteration order", u),
            replay: json!({"kind": "seam-audit", "location": u}),
        });
    }
    rep.outcome = Some(format!("seam-audit:{}:{}:{}", guarded, unguarded.len(), other.len()));
    rep.sample = Some(json!({"files_scanned": files.len(), "guarded_imports": guarded, "unguarded": unguarded, "other_sources": other}));
    rep
}
