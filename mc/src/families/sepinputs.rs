//! C13 for `check` / `build`: a package is the set of its files. However the caller lists them -
//! in any order, with a file named twice, with the same file spelled in another way (`./`, `d/../`,
//! absolute) - the interface, its hash and the core are the same bytes.

use crate::drive::*;
use crate::families::common::*;
use compiler::pipeline::separate::{PackageInputs, build_package, check_package};
use serde_json::{Value, json};
use std::path::{Path, PathBuf};

/// a library of three files in three directories; two of the files have the same name
const FILES: [(&str, &str); 3] = [
    ("celsius/util.gom", "package Lib\n\nstruct Celsius { degrees: int32 }\nfn freezing() -> Celsius { Celsius { degrees: 0 } }\n"),
    ("scales/util.gom", "package Lib\n\nenum Scale { Kelvin, Rankine(int32) }\nfn offset(s: Scale) -> int32 { match s { Kelvin => 273, Rankine(n) => n + 459 } }\n"),
    ("names/describe.gom", "package Lib\n\nfn describe(c: Celsius) -> string { let k = |d: int32| d + offset(Kelvin); int32_to_string(k(c.degrees)) }\n"),
];

/// how one file of the list is written: (name, f(root, relative path) -> path as given)
fn spellings() -> Vec<(&'static str, fn(&Path, &str) -> PathBuf)> {
    vec![
        ("absolute", |root, rel| root.join(rel)),
        ("dot-segment", |root, rel| root.join(".").join(rel)),
        ("through-sibling-directory", |root, rel| {
            let (dir, file) = rel.split_once('/').unwrap();
            root.join("names").join("..").join(dir).join(file)
        }),
        ("doubled-separator", |root, rel| PathBuf::from(format!("{}//{}", root.display(), rel))),
    ]
}

fn permutations(n: usize) -> Vec<Vec<usize>> {
    fn go(cur: &mut Vec<usize>, used: &mut Vec<bool>, out: &mut Vec<Vec<usize>>) {
        if cur.len() == used.len() {
            out.push(cur.clone());
            return;
        }
        for i in 0..used.len() {
            if !used[i] {
                used[i] = true;
                cur.push(i);
                go(cur, used, out);
                cur.pop();
                used[i] = false;
            }
        }
    }
    let mut out = Vec::new();
    go(&mut Vec::new(), &mut vec![false; n], &mut out);
    out
}

/// what `check` and `build` produce for a list of inputs, with the project directory masked
fn observe(root: &Path, list: Vec<PathBuf>) -> String {
    let mask = |s: String| s.replace(&root.to_string_lossy().to_string(), "<ROOT>");
    let inputs = || PackageInputs { package: "Lib".into(), input_files: list.clone(), interface_paths: vec![] };
    let checked = match std::panic::catch_unwind(std::panic::AssertUnwindSafe(|| check_package(inputs()))) {
        Ok(Ok(u)) => format!("hash={} exports={}", u.interface_hash, serde_json::to_string(&u).unwrap_or_default()),
        Ok(Err(e)) => format!("ERR {:?}", e.diagnostics().iter().map(|d| d.message().to_string()).collect::<Vec<_>>()),
        Err(p) => format!("PANIC {}", normalise_msg(&crate::oracle::panic_message(p))),
    };
    let built = match std::panic::catch_unwind(std::panic::AssertUnwindSafe(|| build_package(inputs()))) {
        Ok(Ok(u)) => {
            // the list of source paths is recorded as given: compare everything else
            let mut v = serde_json::to_value(&u).unwrap_or(Value::Null);
            if let Some(o) = v.as_object_mut() {
                o.remove("sources");
            }
            serde_json::to_string(&v).unwrap_or_default()
        }
        Ok(Err(e)) => format!("ERR {:?}", e.diagnostics().iter().map(|d| d.message().to_string()).collect::<Vec<_>>()),
        Err(p) => format!("PANIC {}", normalise_msg(&crate::oracle::panic_message(p))),
    };
    mask(format!("check: {}\nbuild: {}", checked, built))
}

pub struct SepInputs;

impl Family for SepInputs {
    fn name(&self) -> &'static str {
        "sepinputs"
    }
    fn serves(&self) -> &'static [&'static str] {
        &["C13"]
    }
    fn rule(&self) -> &'static str {
        "one library package of three files in three directories (two files of one name) given to check and build as: every permutation of the list (6); every permutation with one file named twice (18); every list in which one file is spelled in one of 4 ways (absolute, with a '.' segment, through a sibling directory and '..', with a doubled separator) x every position of that file (36), and the same with the file named twice in two spellings (36); oracle: the interface (hash and JSON) and the core (JSON without the recorded source paths) are byte-identical to those of the plain list in sorted order. distinct = distinct input lists"
    }
    fn cases(&self, _tier: Tier) -> Box<dyn Iterator<Item = Value> + '_> {
        let mut v = Vec::new();
        for (pi, _) in permutations(3).iter().enumerate() {
            v.push(json!({"kind": "permutation", "perm": pi}));
            for dup in 0..3 {
                v.push(json!({"kind": "duplicate", "perm": pi, "file": dup}));
            }
            for (si, _) in spellings().iter().enumerate() {
                for f in 0..3 {
                    if si > 0 {
                        v.push(json!({"kind": "spelling", "perm": pi, "file": f, "spelling": si}));
                    }
                    v.push(json!({"kind": "two-spellings", "perm": pi, "file": f, "spelling": si}));
                }
            }
        }
        Box::new(v.into_iter())
    }
    fn run(&self, case: &Value, ctx: &mut Ctx) -> Report {
        let mut rep = Report::default();
        let root = ctx.scratch.fresh_dir("sepin");
        for (rel, text) in FILES {
            let p = root.join(rel);
            std::fs::create_dir_all(p.parent().unwrap()).ok();
            std::fs::write(&p, text).ok();
        }
        let plain: Vec<PathBuf> = FILES.iter().map(|(rel, _)| root.join(rel)).collect();
        let base = observe(&root, plain.clone());
        if base.contains("ERR") || base.contains("PANIC") {
            rep.tag("machinery:sepinputs-template-rejected");
            rep.sample = Some(json!({"base": base}));
            return rep;
        }
        let perm = &permutations(3)[case["perm"].as_u64().unwrap() as usize];
        let sp = spellings();
        let kind = case["kind"].as_str().unwrap();
        let mut list: Vec<PathBuf> = perm.iter().map(|i| plain[*i].clone()).collect();
        let mut site = format!("inputs={}", kind);
        match kind {
            "permutation" => {}
            "duplicate" => {
                let f = case["file"].as_u64().unwrap() as usize;
                list.push(plain[f].clone());
            }
            "spelling" | "two-spellings" => {
                let f = case["file"].as_u64().unwrap() as usize;
                let (sname, how) = sp[case["spelling"].as_u64().unwrap() as usize];
                let spelled = how(&root, FILES[f].0);
                if kind == "spelling" {
                    for p in list.iter_mut() {
                        if *p == plain[f] {
                            *p = spelled.clone();
                        }
                    }
                } else {
                    // the same file twice: once as in the plain list, once in this spelling (for the
                    // absolute spelling: the plain path twice is the `duplicate` case, so use a '.' prefix free
                    // relative form through the root's parent)
                    let other = if sname == "absolute" { root.parent().unwrap().join(root.file_name().unwrap()).join(FILES[f].0) } else { spelled.clone() };
                    list.insert(0, other);
                }
                site = format!("inputs={};spelling={}", kind, sname);
            }
            _ => {}
        }
        rep.nontrivial_key = Some(format!("{:?}", list.iter().map(|p| p.to_string_lossy().replace(&root.to_string_lossy().to_string(), "")).collect::<Vec<_>>()));
        let got = observe(&root, list.clone());
        rep.outcome = Some(if got == base { "same".into() } else { format!("{}:differs", site) });
        if got != base {
            let shown: Vec<String> = list.iter().map(|p| p.to_string_lossy().replace(&root.to_string_lossy().to_string(), "<ROOT>")).collect();
            let class = if got.contains("PANIC") {
                "nondeterministic.inputs.panic"
            } else if got.contains("ERR") {
                "nondeterministic.inputs.rejected"
            } else {
                "nondeterministic.inputs.artifacts-differ"
            };
            let first_diff = got.lines().zip(base.lines()).find(|(a, b)| a != b).map(|(a, b)| format!("{} | vs | {}", &a[..a.len().min(200)], &b[..b.len().min(200)])).unwrap_or_default();
            rep.findings.push(Finding {
                property: "C13",
                class: class.into(),
                site,
                detail: format!("inputs {:?}: {}", shown, first_diff),
                replay: json!({"kind": "sepinputs", "files": FILES.iter().map(|(a, b)| vec![a.to_string(), b.to_string()]).collect::<Vec<_>>(), "inputs": shown}),
            });
        } else {
            rep.tag("inputs:same-artifacts");
        }
        rep
    }
}
