//! C01: vectors are values. Every history of `vec_push` steps in which each new vector extends
//! *any* earlier one (so prefixes are shared and extended more than once), through direct calls,
//! through a function, and through a Ref cell; afterwards every vector is printed. The reference
//! is a list per vector: extending one vector never changes another.

use crate::drive::*;
use crate::families::common::*;
use crate::oracle::*;
use serde_json::{Value, json};

pub struct Vecs;

fn histories(depth: usize) -> Vec<Vec<usize>> {
    // parents[k-1] in 0..k for k = 1..=depth
    let mut out: Vec<Vec<usize>> = vec![vec![]];
    for k in 1..=depth {
        let mut next = Vec::new();
        for h in &out {
            for p in 0..k {
                let mut h2 = h.clone();
                h2.push(p);
                next.push(h2);
            }
        }
        out = next;
    }
    out
}

fn program(parents: &[usize], elem: &str, via: &str) -> (String, String) {
    let (ty, lit, to_s): (&str, Box<dyn Fn(usize) -> String>, &str) = match elem {
        "int32" => ("int32", Box::new(|k| format!("{}", 10 * k)), "int32_to_string"),
        _ => ("string", Box::new(|k| format!("\"s{}\"", k)), ""),
    };
    let mut s = String::new();
    s.push_str(&format!(
        "fn show(v: Vec[{ty}]) -> unit {{\n    let i = ref(0);\n    let acc = ref(\"\");\n    while ref_get(i) < vec_len(v) {{\n        ref_set(acc, ref_get(acc) + {open}vec_get(v, ref_get(i)){close} + \",\");\n        ref_set(i, ref_get(i) + 1)\n    }};\n    string_println(int32_to_string(vec_len(v)) + \":\" + ref_get(acc))\n}}\n\nfn grow(v: Vec[{ty}], x: {ty}) -> Vec[{ty}] {{ vec_push(v, x) }}\n\n",
        ty = ty,
        open = if to_s.is_empty() { "".to_string() } else { format!("{}(", to_s) },
        close = if to_s.is_empty() { "" } else { ")" }
    ));
    s.push_str(&format!("fn main() {{\n    let v0: Vec[{}] = vec_new();\n", ty));
    let mut model: Vec<Vec<String>> = vec![vec![]];
    for (i, p) in parents.iter().enumerate() {
        let k = i + 1;
        let x = lit(k);
        match via {
            "direct" => s.push_str(&format!("    let v{} = vec_push(v{}, {});\n", k, p, x)),
            "fn" => s.push_str(&format!("    let v{} = grow(v{}, {});\n", k, p, x)),
            _ => s.push_str(&format!("    let c{k} = ref(v{p});\n    ref_set(c{k}, vec_push(ref_get(c{k}), {x}));\n    let v{k} = ref_get(c{k});\n", k = k, p = p, x = x)),
        }
        let mut m = model[*p].clone();
        m.push(if elem == "int32" { format!("{}", 10 * k) } else { format!("s{}", k) });
        model.push(m);
    }
    let mut want = String::new();
    for (k, m) in model.iter().enumerate() {
        s.push_str(&format!("    show(v{});\n", k));
        want.push_str(&format!("{}:{}\n", m.len(), m.iter().map(|x| format!("{},", x)).collect::<String>()));
    }
    s.push_str("}\n");
    (s, want)
}

impl Family for Vecs {
    fn name(&self) -> &'static str {
        "vecs"
    }
    fn serves(&self) -> &'static [&'static str] {
        &["C01", "C02", "C04"]
    }
    fn rule(&self) -> &'static str {
        "all histories of k vec_push steps in which step i extends any of the i earlier vectors (k! histories; k <= 5 quick, <= 7 thorough) x element type {int32, string} x route {direct call, through a function, through a Ref cell}; afterwards every vector is printed with its length; oracle: one list per vector (pushing onto a vector never changes any other vector: call-by-value). non-trivial = histories in which some vector is extended more than once; distinct = distinct source text"
    }
    fn cases(&self, tier: Tier) -> Box<dyn Iterator<Item = Value> + '_> {
        let maxd = if tier == Tier::Quick { 5 } else { 7 };
        let mut v = Vec::new();
        for d in 1..=maxd {
            let n = histories(d).len();
            for elem in ["int32", "string"] {
                for via in ["direct", "fn", "ref"] {
                    // thorough depth 7 only for the direct route
                    if d == 7 && via != "direct" {
                        continue;
                    }
                    let mut lo = 0;
                    while lo < n {
                        v.push(json!({"depth": d, "elem": elem, "via": via, "lo": lo, "hi": (lo + 60).min(n)}));
                        lo += 60;
                    }
                }
            }
        }
        Box::new(v.into_iter())
    }
    fn run(&self, case: &Value, ctx: &mut Ctx) -> Report {
        let mut rep = Report::default();
        let d = case["depth"].as_u64().unwrap() as usize;
        let (elem, via) = (case["elem"].as_str().unwrap(), case["via"].as_str().unwrap());
        let hs = histories(d);
        let (lo, hi) = (case["lo"].as_u64().unwrap() as usize, case["hi"].as_u64().unwrap() as usize);
        let mut n = 0u64;
        let mut reported = 0;
        for parents in &hs[lo..hi] {
            n += 1;
            let (text, want) = program(parents, elem, via);
            let shared = (0..d).any(|p| parents.iter().filter(|q| **q == p).count() > 1);
            if shared {
                rep.more_keys.push(fnv(&text));
            }
            let site = format!("elem={};via={};depth={};reextended={}", elem, via, d, shared);
            let replay = json!({"kind": "differential", "family": "vecs", "case": {"parents": parents, "elem": elem, "via": via}, "source": text, "expected": {"stdout": want, "end": "ok"}});
            let path = ctx.scratch.single_path();
            let comp = match compile_at(&path, &text) {
                CompileOutcome::Ok(c) => c,
                CompileOutcome::Panic(m) => {
                    rep.findings.push(Finding { property: "C04", class: "compile.panic".into(), site: format!("{};msg={}", site, normalise_msg(&m)), detail: m, replay });
                    continue;
                }
                CompileOutcome::Err(e) => {
                    let (stage, msg) = describe_err(&e);
                    rep.findings.push(Finding { property: "C01", class: format!("compile.rejected.{}", stage), site: format!("{};msg={}", site, normalise_msg(&msg)), detail: msg, replay });
                    continue;
                }
            };
            let go = go_text(&comp).unwrap_or_default();
            drop(comp);
            match crate::projects::run_go(&go, FUEL * 4) {
                Ok(o) => {
                    if lossy(&o.stdout) == want && o.end == NEnd::Ok {
                        rep.tag("agree");
                    } else {
                        rep.tag("disagree");
                        if reported < 3 {
                            reported += 1;
                            rep.findings.push(Finding {
                                property: "C01",
                                class: "vec.aliasing".into(),
                                site: site.clone(),
                                detail: format!("parents {:?}: expected {:?} got {:?}/{}", parents, want, lossy(&o.stdout), end_tag(&o.end)),
                                replay: json!({"kind": "differential", "family": "vecs", "case": {"parents": parents}, "source": text, "expected": {"stdout": want, "end": "ok"}, "observed": {"stdout": lossy(&o.stdout), "go_text": go}}),
                            });
                        }
                    }
                }
                Err(m) if m.starts_with("machinery") => rep.tag("machinery:go-unsupported"),
                Err(m) => rep.findings.push(Finding { property: "C02", class: m.split(':').next().unwrap_or("go").to_string(), site: format!("{};goerr={}", site, normalise_msg(&m)), detail: m, replay }),
            }
        }
        rep.sub_evaluations = n;
        rep.outcome = Some(format!("{}:{}:{}:{}", d, elem, via, lo));
        rep.sample = Some(json!({"depth": d, "elem": elem, "via": via, "first_history": hs[lo], "source": program(&hs[lo], elem, via).0}));
        rep
    }
}

fn fnv(s: &str) -> u64 {
    let mut h: u64 = 0xcbf29ce484222325;
    for b in s.as_bytes() {
        h ^= *b as u64;
        h = h.wrapping_mul(0x100000001b3);
    }
    h
}
