//! C10: numbers mean what they say — literal acceptance and value, wrap-around arithmetic,
//! truncating division, signed/unsigned comparison, float32 rounding, decimal printing.

use crate::drive::*;
use crate::families::common::*;
use crate::ug::ast::*;
use crate::ug::build::*;
use serde_json::{Value, json};

pub const KINDS: [IntKind; 8] = [IntKind::I8, IntKind::I16, IntKind::I32, IntKind::I64, IntKind::U8, IntKind::U16, IntKind::U32, IntKind::U64];

fn kind_of(name: &str) -> IntKind {
    KINDS.iter().copied().find(|k| k.name() == name).unwrap()
}

/// literal expression denoting `val` at kind `k` (min values need `-(max) - 1`)
pub fn lit(k: IntKind, val: i128) -> E {
    if val < 0 && -val > k.max_val() {
        bin(BinOp::Sub, E::Int(-k.max_val(), k, true), E::Int(1, k, true))
    } else {
        E::Int(val, k, k != IntKind::I32)
    }
}

fn to_s(k: IntKind, e: E) -> E {
    bi(&format!("{}_to_string", k.name()), vec![e])
}

pub fn boundary(k: IntKind) -> Vec<i128> {
    let (mn, mx) = (k.min_val(), k.max_val());
    let mut v = if k.signed() {
        vec![mn, mn + 1, -7, -2, -1, 0, 1, 2, 3, 7, mx / 2, mx / 2 + 1, mx - 1, mx]
    } else {
        vec![0, 1, 2, 3, 7, 10, 16, mx / 3, mx / 2, mx / 2 + 1, mx - 7, mx - 2, mx - 1, mx]
    };
    v.sort();
    v.dedup();
    v
}

const ARITH: [BinOp; 4] = [BinOp::Add, BinOp::Sub, BinOp::Mul, BinOp::Div];
const CMPS: [BinOp; 6] = [BinOp::Lt, BinOp::Gt, BinOp::Le, BinOp::Ge, BinOp::Eq, BinOp::Ne];

fn opname(op: BinOp) -> &'static str {
    match op {
        BinOp::Add => "add",
        BinOp::Sub => "sub",
        BinOp::Mul => "mul",
        BinOp::Div => "div",
        BinOp::Lt => "lt",
        BinOp::Gt => "gt",
        BinOp::Le => "le",
        BinOp::Ge => "ge",
        BinOp::Eq => "eq",
        BinOp::Ne => "ne",
        BinOp::And => "and",
        BinOp::Or => "or",
    }
}

fn all_ops() -> Vec<BinOp> {
    ARITH.iter().chain(CMPS.iter()).copied().collect()
}

pub const FLOATS: [&str; 15] = ["0.0", "0.1", "0.2", "0.5", "1.0", "1.5", "2.0", "3.25", "7.0", "100.75", "16777216.0", "16777217.0", "0.000001", "123456789.125", "1000000.0"];

/// whole values at and above 2^53 (float64) / 2^24 (float32), whose shortest decimal spelling is not the
/// exact value, next to small whole values: a sum or product worked out exactly from the spellings differs
/// from the rounded run-time result
pub const FLOATS_BIG64: [&str; 8] = ["9007199254740992.0", "9007199254740993.0", "1152921504606846976.0", "4611686018427387904.0", "110.0", "3.0", "1.0", "129.0"];
pub const FLOATS_BIG32: [&str; 7] = ["16777216.0", "16777217.0", "33554432.0", "1099511627776.0", "3.0", "1.0", "5.0"];

fn cases_list(tier: Tier) -> Vec<Value> {
    let mut v = Vec::new();
    // (a) literal acceptance: each type × spelling × form
    for k in KINDS {
        for sp in ["0", "1", "max-1", "max", "max+1", "2max", "30digits", "leading-zeros"] {
            for form in ["suffix", "neg-suffix"] {
                v.push(json!({"kind": "literal", "ty": k.name(), "spelling": sp, "form": form}));
            }
        }
    }
    for sp in ["0", "1", "max-1", "max", "max+1", "2max", "30digits", "leading-zeros"] {
        for form in ["plain", "neg-plain", "annotated"] {
            v.push(json!({"kind": "literal", "ty": "int32", "spelling": sp, "form": form}));
        }
    }
    // all 256 values of the 8-bit types as literals
    for ty in ["int8", "uint8"] {
        for chunk in 0..4 {
            v.push(json!({"kind": "all-literals", "ty": ty, "chunk": chunk}));
        }
    }
    // (b) boundary pairs through run-time operands, per (type, op)
    for k in KINDS {
        for op in all_ops() {
            v.push(json!({"kind": "pairs", "ty": k.name(), "op": opname(op), "operands": "runtime"}));
            v.push(json!({"kind": "pairs", "ty": k.name(), "op": opname(op), "operands": "literal"}));
            v.push(json!({"kind": "pairs", "ty": k.name(), "op": opname(op), "operands": "one-literal"}));
        }
        v.push(json!({"kind": "neg", "ty": k.name(), "operands": "runtime"}));
        v.push(json!({"kind": "neg", "ty": k.name(), "operands": "literal"}));
        v.push(json!({"kind": "div0", "ty": k.name(), "operands": "runtime"}));
        v.push(json!({"kind": "div0", "ty": k.name(), "operands": "literal"}));
        v.push(json!({"kind": "print", "ty": k.name()}));
        v.push(json!({"kind": "dropped-literal-operations", "ty": k.name()}));
        // a quotient nobody reads, the divisor known at run time only: the division still happens
        for dividend in ["literal", "variable", "zero-literal"] {
            for divisor in ["zero", "one"] {
                for pos in ["let-wildcard", "unused-let", "statement"] {
                    v.push(json!({"kind": "dropped-division", "ty": k.name(), "dividend": dividend, "divisor": divisor, "pos": pos}));
                }
            }
        }
    }
    // exhaustive 8-bit arithmetic: all 65536 operand pairs
    for ty in ["int8", "uint8"] {
        for op in all_ops() {
            if tier == Tier::Thorough || (ty == "int8" && op == BinOp::Add) || (ty == "uint8" && op == BinOp::Lt) {
                v.push(json!({"kind": "exhaustive8", "ty": ty, "op": opname(op)}));
            }
        }
    }
    // floats
    for f32 in [true, false] {
        for op in ["add", "sub", "mul", "div", "lt", "eq"] {
            for operands in ["runtime", "literal", "literal-left", "literal-right"] {
                v.push(json!({"kind": "float-pairs", "f32": f32, "op": op, "operands": operands}));
            }
        }
        for op in ["add", "sub", "mul"] {
            for operands in ["runtime", "literal", "literal-left", "literal-right"] {
                v.push(json!({"kind": "float-pairs", "f32": f32, "op": op, "operands": operands, "set": "big-whole"}));
            }
        }
        v.push(json!({"kind": "float-print", "f32": f32}));
        v.push(json!({"kind": "float-midpoints", "f32": f32}));
        v.push(json!({"kind": "float-negative-zero", "f32": f32}));
    }
    for i in 0..float_range_literals().len() {
        v.push(json!({"kind": "float-literal-range", "index": i}));
    }
    v
}

/// float literals around the largest finite value of their type: (spelling with suffix, type, the
/// largest finite value spelled exactly, in range?). A literal is in range iff it rounds (once, to
/// nearest even) to a finite value.
fn float_range_literals() -> Vec<(String, &'static str, String, bool)> {
    let max32 = "340282346638528859811704183484516925440.0f32".to_string();
    let max64 = format!("17976931348623157{}.0", "0".repeat(292));
    vec![
        (max32.clone(), "float32", max32.clone(), true),
        ("340282350000000000000000000000000000000.0f32".into(), "float32", max32.clone(), true),
        ("340282356779733661637539395458142568447.0f32".into(), "float32", max32.clone(), true),
        ("340282356779733661637539395458142568447.9f32".into(), "float32", max32.clone(), true),
        ("340282356779733661637539395458142568448.0f32".into(), "float32", max32.clone(), false),
        ("340282366920938463463374607431768211456.0f32".into(), "float32", max32.clone(), false),
        ("680564693277057719623408366969033850880.0f32".into(), "float32", max32.clone(), false),
        (max64.clone(), "float64", max64.clone(), true),
        (format!("179769313486231575{}.0", "0".repeat(291)), "float64", max64.clone(), true),
        (format!("17976931348623159{}.0", "0".repeat(292)), "float64", max64.clone(), false),
        (format!("18{}.0", "0".repeat(307)), "float64", max64.clone(), false),
    ]
}

/// decimal spellings at, just above and just below the midpoint of two adjacent float32 values (a
/// literal must be rounded once, from the decimal text, to its type)
pub const MIDPOINTS: [&str; 12] = [
    "16777217.0", "16777217.000000001", "16777216.999999999",
    "1.000000059604644775390625", "1.0000000596046447753906251", "1.0000000596046447753906249",
    "0.5000000298023223876953125", "0.50000002980232238769531251", "0.50000002980232238769531249",
    "33554434.0", "33554434.00000001", "33554433.99999999",
];

fn op_of(name: &str) -> BinOp {
    all_ops().into_iter().find(|o| opname(*o) == name).unwrap()
}

fn build(case: &Value) -> Option<(Program, String, bool)> {
    // returns (program, site, expect_rejected)
    let mut n = Names::new();
    let mut items: Vec<Item> = Vec::new();
    let mut b: Vec<Stmt> = Vec::new();
    let kind = case["kind"].as_str().unwrap();
    let site;
    let mut expect_reject = false;
    match kind {
        "literal" => {
            let k = kind_of(case["ty"].as_str().unwrap());
            let mx = k.max_val();
            let sp = case["spelling"].as_str().unwrap();
            let digits: String = match sp {
                "0" => "0".into(),
                "1" => "1".into(),
                "max-1" => (mx - 1).to_string(),
                "max" => mx.to_string(),
                "max+1" => (mx + 1).to_string(),
                "2max" => (2 * mx).to_string(),
                "30digits" => "123456789012345678901234567890".into(),
                _ => format!("000{}", 9),
            };
            let value: Option<i128> = digits.parse::<i128>().ok().filter(|x| *x <= mx);
            let form = case["form"].as_str().unwrap();
            let neg = form.starts_with("neg");
            let suffix = form.ends_with("suffix");
            let lit_text = format!("{}{}{}", if neg { "-" } else { "" }, digits, if suffix { crate::ug::print::suffix_of(k) } else { "" });
            expect_reject = value.is_none();
            // raw item: the literal spelling is what is under test
            let annot = if form == "annotated" { ": int32" } else { "" };
            let text = format!("fn main() {{\n    let x{} = {};\n    string_println({}_to_string(x))\n}}\n", annot, lit_text, k.name());
            items.push(Item::Raw(text));
            // expected output computed directly
            let printed = value.map(|val| k.wrap(if neg { -val } else { val }));
            site = format!("literal;ty={};spelling={};form={}", k.name(), sp, form);
            let p = Program::single(items, n.names.clone());
            return Some((p, format!("{};expect={}", site, printed.map(|x| x.to_string()).unwrap_or("reject".into())), expect_reject));
        }
        "all-literals" => {
            let k = kind_of(case["ty"].as_str().unwrap());
            let chunk = case["chunk"].as_u64().unwrap() as i128;
            for i in 0..64 {
                let raw = chunk * 64 + i;
                let val = if k.signed() { raw - 128 } else { raw };
                b.push(st(println(to_s(k, lit(k, val)))));
            }
            site = format!("all-literals;ty={}", k.name());
        }
        "pairs" => {
            let k = kind_of(case["ty"].as_str().unwrap());
            let op = op_of(case["op"].as_str().unwrap());
            let mode = case["operands"].as_str().unwrap();
            let is_cmp = CMPS.contains(&op);
            let (x, y) = (n.fresh("x"), n.fresh("y"));
            let res = if is_cmp { bi("bool_to_string", vec![bin(op, v(x), v(y))]) } else { to_s(k, bin(op, v(x), v(y))) };
            items.push(fn_def("apply", vec![(x, Ty::Int(k)), (y, Ty::Int(k))], Some(Ty::Str), res));
            let y1 = n.fresh("y");
            let mk = |e: E| if is_cmp { bi("bool_to_string", vec![e]) } else { to_s(k, e) };
            for a in boundary(k) {
                if mode == "one-literal" {
                    // right operand literal, left run-time
                    let x1 = n.fresh("x");
                    let mut inner = Vec::new();
                    for bb in boundary(k) {
                        if op == BinOp::Div && bb == 0 {
                            continue;
                        }
                        inner.push(st(println(mk(bin(op, v(x1), lit(k, bb))))));
                    }
                    let fname = format!("row{}", items.len());
                    items.push(fn_def(&fname, vec![(x1, Ty::Int(k))], Some(Ty::Unit), block(inner, None)));
                    b.push(st(call(&fname, vec![lit(k, a)])));
                    continue;
                }
                for bb in boundary(k) {
                    if op == BinOp::Div && bb == 0 {
                        continue;
                    }
                    if mode == "runtime" {
                        b.push(st(println(call("apply", vec![lit(k, a), lit(k, bb)]))));
                    } else {
                        b.push(st(println(mk(bin(op, lit(k, a), lit(k, bb))))));
                    }
                }
            }
            let _ = y1;
            site = format!("pairs;ty={};op={};operands={}", k.name(), opname(op), mode);
        }
        "dropped-literal-operations" => {
            // operators on two literals of the type's extremes whose value nobody reads: `let _ = a op b;`,
            // an unused `let q = a op b;`, a statement `a op b;` - each followed by a print
            let k = kind_of(case["ty"].as_str().unwrap());
            let bs = boundary(k);
            let (lo, hi) = (*bs.iter().min().unwrap(), *bs.iter().max().unwrap());
            let mut i = 0;
            for (a, bb) in [(hi, 1), (hi, hi), (lo, 1), (1, hi), (hi - 1, 2), (lo, hi)] {
                for op in [BinOp::Div, BinOp::Mul, BinOp::Add, BinOp::Sub, BinOp::Lt, BinOp::Eq] {
                    if op == BinOp::Div && bb == 0 {
                        continue;
                    }
                    let e = bin(op, lit(k, a), lit(k, bb));
                    let q = n.fresh("q");
                    b.push(Stmt::Let(Pat::Wild, None, e.clone()));
                    b.push(let_(q, e.clone()));
                    b.push(st(e));
                    b.push(st(println(add(s("after "), i2s(int(i))))));
                    i += 1;
                }
            }
            site = format!("dropped-literal-operations;ty={}", k.name());
        }
        "dropped-division" => {
            let k = kind_of(case["ty"].as_str().unwrap());
            let (dividend, divisor, pos) = (case["dividend"].as_str().unwrap(), case["divisor"].as_str().unwrap(), case["pos"].as_str().unwrap());
            // the divisor comes out of a function: nothing about it is known where the division is written
            items.push(fn_def("divisor", vec![], Some(Ty::Int(k)), lit(k, if divisor == "zero" { 0 } else { 1 })));
            let (z, a) = (n.fresh("z"), n.fresh("a"));
            b.push(let_(z, call("divisor", vec![])));
            b.push(let_(a, lit(k, 10)));
            b.push(st(println(s("before"))));
            let e = bin(BinOp::Div, match dividend { "literal" => lit(k, 10), "zero-literal" => lit(k, 0), _ => v(a) }, v(z));
            match pos {
                "let-wildcard" => b.push(Stmt::Let(Pat::Wild, None, e)),
                "unused-let" => {
                    let q = n.fresh("q");
                    b.push(let_(q, e));
                }
                _ => b.push(st(e)),
            }
            b.push(st(println(add(s("after "), to_s(k, v(a))))));
            site = format!("dropped-division;ty={};dividend={};divisor={};pos={}", k.name(), dividend, divisor, pos);
        }
        "neg" => {
            let k = kind_of(case["ty"].as_str().unwrap());
            let mode = case["operands"].as_str().unwrap();
            let x = n.fresh("x");
            items.push(fn_def("negate", vec![(x, Ty::Int(k))], Some(Ty::Str), to_s(k, E::Unary(UnOp::Neg, Box::new(v(x))))));
            for a in boundary(k) {
                if mode == "runtime" {
                    b.push(st(println(call("negate", vec![lit(k, a)]))));
                } else if a >= 0 {
                    b.push(st(println(to_s(k, E::Unary(UnOp::Neg, Box::new(lit(k, a)))))));
                }
            }
            site = format!("neg;ty={};operands={}", k.name(), mode);
        }
        "div0" => {
            let k = kind_of(case["ty"].as_str().unwrap());
            let mode = case["operands"].as_str().unwrap();
            let (x, y) = (n.fresh("x"), n.fresh("y"));
            items.push(fn_def("quot", vec![(x, Ty::Int(k)), (y, Ty::Int(k))], Some(Ty::Int(k)), bin(BinOp::Div, v(x), v(y))));
            b.push(st(println(s("before"))));
            if mode == "runtime" {
                b.push(st(println(to_s(k, call("quot", vec![lit(k, 7), lit(k, 0)])))));
            } else {
                b.push(st(println(to_s(k, bin(BinOp::Div, lit(k, 7), lit(k, 0))))));
            }
            b.push(st(println(s("after"))));
            site = format!("div0;ty={};operands={}", k.name(), mode);
        }
        "print" => {
            let k = kind_of(case["ty"].as_str().unwrap());
            let x = n.fresh("x");
            items.push(fn_def("show", vec![(x, Ty::Int(k))], Some(Ty::Unit), println(add(add(s("["), to_s(k, v(x))), s("]")))));
            for a in boundary(k) {
                b.push(st(call("show", vec![lit(k, a)])));
            }
            site = format!("print;ty={}", k.name());
        }
        "exhaustive8" => {
            let k = kind_of(case["ty"].as_str().unwrap());
            let op = op_of(case["op"].as_str().unwrap());
            let is_cmp = CMPS.contains(&op);
            // two int32 loop counters drive two 8-bit cells that wrap in lock step
            let (i, j, a, c) = (n.fresh("i"), n.fresh("j"), n.fresh("a"), n.fresh("c"));
            let start = if k.signed() { lit(k, -128) } else { lit(k, 0) };
            let one = lit(k, 1);
            let rg = |r: VarId| bi("ref_get", vec![v(r)]);
            let res = bin(op, rg(a), rg(c));
            let shown = if is_cmp { bi("bool_to_string", vec![res]) } else { to_s(k, res) };
            let body_inner = if op == BinOp::Div {
                if_(bin(BinOp::Eq, rg(c), lit(k, 0)), block(vec![], Some(E::Unit)), block(vec![], Some(println(shown))))
            } else {
                println(shown)
            };
            b.push(let_(i, bi("ref", vec![int(0)])));
            b.push(let_(a, bi("ref", vec![start.clone()])));
            b.push(st(E::While(
                Box::new(bin(BinOp::Lt, rg(i), int(256))),
                Box::new(block(
                    vec![
                        let_(j, bi("ref", vec![int(0)])),
                        let_(c, bi("ref", vec![start])),
                        st(E::While(
                            Box::new(bin(BinOp::Lt, rg(j), int(256))),
                            Box::new(block(
                                vec![
                                    st(body_inner),
                                    st(bi("ref_set", vec![v(c), bin(BinOp::Add, rg(c), one.clone())])),
                                    st(bi("ref_set", vec![v(j), add(rg(j), int(1))])),
                                ],
                                None,
                            )),
                        )),
                        st(bi("ref_set", vec![v(a), bin(BinOp::Add, rg(a), one)])),
                        st(bi("ref_set", vec![v(i), add(rg(i), int(1))])),
                    ],
                    None,
                )),
            )));
            site = format!("exhaustive8;ty={};op={}", k.name(), opname(op));
        }
        "float-midpoints" | "float-negative-zero" => {
            let f32 = case["f32"].as_bool().unwrap();
            let ft = if f32 { Ty::F32 } else { Ty::F64 };
            let tos = if f32 { "float32_to_string" } else { "float64_to_string" };
            let fl = |sp: &str| E::Float(sp.to_string(), f32, true);
            let x = n.fresh("x");
            items.push(fn_def("show", vec![(x, ft.clone())], Some(Ty::Unit), println(bi(tos, vec![v(x)]))));
            if kind == "float-midpoints" {
                for m in MIDPOINTS {
                    b.push(st(call("show", vec![fl(m)])));
                    // and compared with its two neighbours' shortest spellings
                    b.push(st(println(bi("bool_to_string", vec![bin(BinOp::Eq, fl(m), fl(MIDPOINTS[(MIDPOINTS.iter().position(|q| *q == m).unwrap() / 3) * 3]))]))));
                }
                site = format!("float-midpoints;f32={}", f32);
            } else {
                // -0.0 written as a literal under unary minus, as a negated variable, and as a divisor
                let z = n.fresh("z");
                b.push(st(call("show", vec![E::Unary(UnOp::Neg, Box::new(fl("0.0")))])));
                b.push(let_t(z, ft.clone(), fl("0.0")));
                b.push(st(call("show", vec![E::Unary(UnOp::Neg, Box::new(v(z)))])));
                b.push(st(call("show", vec![bin(BinOp::Div, fl("1.0"), E::Unary(UnOp::Neg, Box::new(fl("0.0"))))])));
                b.push(st(call("show", vec![bin(BinOp::Div, fl("1.0"), E::Unary(UnOp::Neg, Box::new(v(z))))])));
                b.push(st(call("show", vec![bin(BinOp::Mul, E::Unary(UnOp::Neg, Box::new(fl("0.0"))), fl("2.0"))])));
                site = format!("float-negative-zero;f32={}", f32);
            }
        }
        "float-pairs" | "float-print" => {
            let f32 = case["f32"].as_bool().unwrap();
            let ft = if f32 { Ty::F32 } else { Ty::F64 };
            let tos = if f32 { "float32_to_string" } else { "float64_to_string" };
            let fl = |sp: &str| E::Float(sp.to_string(), f32, true);
            if kind == "float-print" {
                let x = n.fresh("x");
                items.push(fn_def("show", vec![(x, ft.clone())], Some(Ty::Unit), println(bi(tos, vec![v(x)]))));
                for a in FLOATS {
                    b.push(st(call("show", vec![fl(a)])));
                    if a != "0.0" {
                        // Go constants have no negative zero; -0.0 is left out of the claim
                        b.push(st(call("show", vec![E::Unary(UnOp::Neg, Box::new(fl(a)))])));
                    }
                }
                site = format!("float-print;f32={}", f32);
            } else {
                let opn = case["op"].as_str().unwrap();
                let op = match opn {
                    "add" => BinOp::Add,
                    "sub" => BinOp::Sub,
                    "mul" => BinOp::Mul,
                    "div" => BinOp::Div,
                    "lt" => BinOp::Lt,
                    _ => BinOp::Eq,
                };
                let is_cmp = matches!(op, BinOp::Lt | BinOp::Eq);
                let (x, y) = (n.fresh("x"), n.fresh("y"));
                let res = if is_cmp { bi("bool_to_string", vec![bin(op, v(x), v(y))]) } else { bi(tos, vec![bin(op, v(x), v(y))]) };
                items.push(fn_def("apply", vec![(x, ft.clone()), (y, ft.clone())], Some(Ty::Str), res));
                let operands = case["operands"].as_str().unwrap_or("runtime");
                let (hx, hy) = (n.fresh("hx"), n.fresh("hy"));
                let big = case["set"].as_str() == Some("big-whole");
                let set: Vec<&str> = if !big { FLOATS.to_vec() } else if f32 { FLOATS_BIG32.to_vec() } else { FLOATS_BIG64.to_vec() };
                for a in set.iter().copied() {
                    for bb in set.iter().copied() {
                        if op == BinOp::Div && bb == "0.0" {
                            continue;
                        }
                        let wrap = |e: E| if is_cmp { bi("bool_to_string", vec![e]) } else { bi(tos, vec![e]) };
                        match operands {
                            "runtime" => b.push(st(println(call("apply", vec![fl(a), fl(bb)])))),
                            // both operands written as literals in the expression itself
                            "literal" => b.push(st(println(wrap(bin(op, fl(a), fl(bb)))))),
                            "literal-left" => {
                                b.push(let_t(hy, ft.clone(), fl(bb)));
                                b.push(st(println(wrap(bin(op, fl(a), v(hy))))));
                            }
                            _ => {
                                b.push(let_t(hx, ft.clone(), fl(a)));
                                b.push(st(println(wrap(bin(op, v(hx), fl(bb))))));
                            }
                        }
                    }
                }
                site = format!("float-pairs;f32={};op={};operands={}{}", f32, opn, operands, if big { ";set=big-whole" } else { "" });
            }
        }
        _ => return None,
    }
    items.push(fn_def("main", vec![], None, block(b, None)));
    Some((Program::single(items, n.names.clone()), site, expect_reject))
}

pub struct Numbers;

impl Family for Numbers {
    fn name(&self) -> &'static str {
        "numbers"
    }
    fn serves(&self) -> &'static [&'static str] {
        &["C10", "C01", "C02", "C04"]
    }
    fn case_timeout(&self, _tier: Tier) -> u64 {
        300
    }
    fn rule(&self) -> &'static str {
        "literals: 8 integer types x 8 spellings {0,1,max-1,max,max+1,2max,30 digits,leading zeros} x {suffixed, under unary minus, plain/annotated for int32}, and all 256 values of int8/uint8; arithmetic: all pairs of a 14-value boundary set x {+,-,*,/,<,>,<=,>=,==,!=} for 8 integer types with run-time, literal and mixed operands; negation; division by zero; printing of every boundary value; all 65536 operand pairs of int8/uint8 per operator (thorough; quick: int8 + and uint8 <); float32/float64 over a 15-value set (incl. whole numbers) with run-time, literal, literal-left and literal-right operands; + - * over 8 (float64) / 7 (float32) whole values at and above 2^53 / 2^24 whose shortest spelling is not the exact value, same four operand modes; per integer type 36 operators on two literals at the type's extremes whose value is dropped (let _, unused let, statement); literals at, just above and just below 4 float32 midpoints; negative zero written as a literal, a negated variable and a divisor; 11 float32 / float64 literals around the largest finite value (its exact and its shortest spelling, just below / at / above the point from which rounding gives infinity). oracle: accepted iff in range (typer diagnostic otherwise), printed values = wrapping/truncating reference arithmetic. non-trivial = programs whose reference output contains a wrapped, negative or boundary result; distinct = distinct source text"
    }
    fn cases(&self, tier: Tier) -> Box<dyn Iterator<Item = Value> + '_> {
        Box::new(cases_list(tier).into_iter())
    }
    fn run(&self, case: &Value, ctx: &mut Ctx) -> Report {
        let mut rep = Report::default();
        if case["kind"] == "float-literal-range" {
            let (lit, ty, max, in_range) = float_range_literals()[case["index"].as_u64().unwrap() as usize].clone();
            let text = format!("fn main() {{\n    let x: {ty} = {lit};\n    let m: {ty} = {max};\n    string_println(bool_to_string(x == m))\n}}\n", ty = ty, lit = lit, max = max);
            let shown = if lit.len() > 60 { format!("{}..({} digits)", &lit[..24], lit.len()) } else { lit.clone() };
            let site = format!("float-literal-range;ty={};literal={}", ty, shown);
            rep.nontrivial_key = Some(text.clone());
            let replay = json!({"kind": "literal-number", "source": text, "expect": if in_range { "true" } else { "rejected" }});
            let path = ctx.scratch.single_path();
            match crate::oracle::compile_at(&path, &text) {
                crate::oracle::CompileOutcome::Err(e) => {
                    let (stage, msg) = describe_err(&e);
                    rep.tag(format!("literal:rejected:{}", stage));
                    if in_range {
                        rep.findings.push(Finding { property: "C10", class: "literal.in-range-rejected".into(), site, detail: msg, replay });
                    }
                }
                crate::oracle::CompileOutcome::Panic(m) => {
                    let m = normalise_msg(&m);
                    for p in ["C10", "C04"] {
                        rep.findings.push(Finding { property: p, class: "compile.panic".into(), site: format!("{};msg={}", site, m), detail: m.clone(), replay: replay.clone() });
                    }
                }
                crate::oracle::CompileOutcome::Ok(c) => {
                    rep.tag("literal:accepted");
                    if !in_range {
                        rep.findings.push(Finding { property: "C10", class: "literal.out-of-range-accepted".into(), site, detail: "a literal that rounds to no finite value was accepted".into(), replay });
                        return rep;
                    }
                    // (constants of this size are beyond the Go model's 128-bit constants: the value is
                    // checked on the typed tree instead)
                    let _ = &c;
                    let value_ok = {
                        let parsed_ok = if ty == "float32" { lit.trim_end_matches("f32").parse::<f32>().map(|v| v == f32::MAX).unwrap_or(false) } else { lit.parse::<f64>().map(|v| v == f64::MAX).unwrap_or(false) };
                        let dump = format!("{:?}", c.tast);
                        parsed_ok && (dump.contains("3.4028235e38") || dump.contains("1.7976931348623157e308") || dump.contains("340282350000000000000000000000000000000") || dump.contains("179769313486231570000"))
                    };
                    if value_ok {
                        rep.tag("literal:value-ok");
                        return rep;
                    }
                    let go = crate::oracle::go_text(&c).unwrap_or_default();
                    let gr = crate::oracle::analyse_and_run(go, FUEL);
                    match (&gr.verdict, &gr.run) {
                        (crate::gosem::GoVerdict::Ok(_), Some(run)) if lossy(&run.stdout).trim_end() == "true" => rep.tag("literal:value-ok"),
                        (crate::gosem::GoVerdict::Ok(_), Some(run)) => {
                            rep.findings.push(Finding { property: "C10", class: "literal.value-differs".into(), site, detail: format!("the literal is not the largest finite {}: printed {:?}", ty, lossy(&run.stdout)), replay });
                        }
                        (crate::gosem::GoVerdict::Rejected(errs), _) => {
                            for p in ["C10", "C02"] {
                                rep.findings.push(Finding { property: p, class: format!("go.{}", errs[0].rule), site: site.clone(), detail: errs[0].msg.clone(), replay: replay.clone() });
                            }
                        }
                        _ => rep.tag("machinery:go-unsupported"),
                    }
                }
            }
            return rep;
        }
        let Some((prog, site, expect_reject)) = build(case) else { return rep };
        let kind = case["kind"].as_str().unwrap();
        if kind == "literal" {
            // raw-text case: acceptance + printed value
            let text = crate::ug::print::print_main(&prog);
            let want = site.rsplit("expect=").next().unwrap().to_string();
            let site0 = site.split(";expect=").next().unwrap().to_string();
            let path = ctx.scratch.single_path();
            rep.nontrivial_key = Some(text.clone());
            let replay = json!({"kind": "literal-number", "source": text, "expect": want});
            match crate::oracle::compile_at(&path, &text) {
                crate::oracle::CompileOutcome::Err(e) => {
                    let (stage, msg) = describe_err(&e);
                    rep.tag(format!("literal:rejected:{}", stage));
                    rep.outcome = Some(format!("rejected:{}", stage));
                    if !expect_reject {
                        rep.findings.push(Finding { property: "C10", class: "literal.in-range-rejected".into(), site: site0, detail: msg, replay });
                    } else if stage != "typer" && stage != "parser" && stage != "lower" {
                        rep.findings.push(Finding { property: "C10", class: "literal.rejected-late".into(), site: site0, detail: format!("{}: {}", stage, msg), replay });
                    }
                }
                crate::oracle::CompileOutcome::Panic(m) => {
                    let m = normalise_msg(&m);
                    for p in ["C10", "C04"] {
                        rep.findings.push(Finding { property: p, class: "compile.panic".into(), site: format!("{};msg={}", site0, m), detail: m.clone(), replay: replay.clone() });
                    }
                }
                crate::oracle::CompileOutcome::Ok(c) => {
                    rep.tag("literal:accepted");
                    if expect_reject {
                        rep.findings.push(Finding { property: "C10", class: "literal.out-of-range-accepted".into(), site: site0, detail: "an out-of-range literal was accepted".into(), replay });
                        return rep;
                    }
                    let go = crate::oracle::go_text(&c).unwrap_or_default();
                    let gr = crate::oracle::analyse_and_run(go, FUEL);
                    match (&gr.verdict, &gr.run) {
                        (crate::gosem::GoVerdict::Ok(_), Some(run)) => {
                            let got = lossy(&run.stdout);
                            rep.outcome = Some(got.clone());
                            if got.trim_end() != want {
                                for p in ["C10", "C01"] {
                                    rep.findings.push(Finding { property: p, class: "literal.value-differs".into(), site: site0.clone(), detail: format!("expected {} printed {:?}", want, got), replay: replay.clone() });
                                }
                            } else {
                                rep.tag("literal:value-ok");
                            }
                        }
                        (crate::gosem::GoVerdict::Rejected(errs), _) => {
                            rep.tag("go:rejected");
                            for p in ["C10", "C02"] {
                                rep.findings.push(Finding { property: p, class: format!("go.{}", errs[0].rule), site: site0.clone(), detail: errs[0].msg.clone(), replay: replay.clone() });
                            }
                        }
                        _ => rep.tag("machinery:go-unsupported"),
                    }
                }
            }
            rep.sample = Some(json!({"site": site, "source": text}));
            return rep;
        }
        let opts = DiffOpts { props_sem: &["C10", "C01"], props_go: &["C02", "C10"], fuel: 80_000_000, ..DiffOpts::default() };
        let res = differential(&prog, &site, "numbers", case, ctx, &opts, &mut rep);
        if let Some(d) = res {
            let out = lossy(&d.ref_obs.stdout);
            if !(out.contains('-') || out.contains("127") || out.contains("255") || out.contains("true")) {
                rep.nontrivial_key = None;
            }
        }
        rep
    }
}
