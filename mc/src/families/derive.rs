//! C18: derived ToString / ToJson are total and faithful.

use crate::drive::*;
use crate::families::common::*;
use crate::ug::ast::*;
use crate::ug::build::*;
use serde_json::{Value, json};

/// character classes for string values
pub const CHARS: [&str; 18] = ["a", "\"", "\\", "/", " ", "\u{7f}", "é", "\u{ad}", "\u{2028}", "😀", "\u{e0001}", "\n", "\t", "\r", "\u{7}", "\u{b}", "\u{1}", "\u{1f}"];
pub const FIELD_NAMES: [&str; 12] = ["a", "self", "tag", "fields", "x0", "ret", "value", "bool_to_string", "json_escape_string", "int32_to_string", "to_json", "string_println"];
pub const LEAVES: [&str; 7] = ["int32", "int8", "uint64", "bool", "string", "unit", "float64"];
pub const UNSUPPORTED: [&str; 11] = ["(int32, bool)", "[int32; 2]", "Vec[int32]", "Ref[int32]", "(int32) -> int32", "Gen[int32]", "Plain", "(string)", "Vec[Plain]", "() -> unit", "((int32, bool), string)"];

/// types that can have no `to_string` / `to_json` method at all (nobody can write one): the derive has
/// to say so itself; the others (a named type without the method) may be left to the typer, whose
/// diagnostic names the missing method
fn structural(field_ty: &str) -> bool {
    !matches!(field_ty, "Gen[int32]" | "Plain" | "generic-self")
}

fn leaf_ty(n: &str) -> Ty {
    match n {
        "int32" => Ty::i32(),
        "int8" => Ty::Int(IntKind::I8),
        "uint64" => Ty::Int(IntKind::U64),
        "bool" => Ty::Bool,
        "string" => Ty::Str,
        "unit" => Ty::Unit,
        _ => Ty::F64,
    }
}

fn leaf_values(n: &str) -> Vec<E> {
    match n {
        "int32" => vec![int(0), int(-2147483647), int(2147483647)],
        "int8" => vec![E::Int(-127, IntKind::I8, true), E::Int(127, IntKind::I8, true)],
        "uint64" => vec![E::Int(0, IntKind::U64, true), E::Int(18446744073709551615, IntKind::U64, true)],
        "bool" => vec![E::Bool(true), E::Bool(false)],
        "string" => vec![s("plain"), s("")],
        "unit" => vec![E::Unit],
        // (fdiv is a helper of the program: run-time division, so that NaN and the infinities arise)
        _ => vec![
            E::Float("1.5".into(), false, false),
            E::Float("0.1".into(), false, false),
            E::Float("100000000000000000000000.0".into(), false, false),
            call("fdiv", vec![E::Float("0.0".into(), false, false), E::Float("0.0".into(), false, false)]),
            call("fdiv", vec![E::Float("1.0".into(), false, false), E::Float("0.0".into(), false, false)]),
            call("fdiv", vec![E::Unary(UnOp::Neg, Box::new(E::Float("1.0".into(), false, false))), E::Float("0.0".into(), false, false)]),
            E::Unary(UnOp::Neg, Box::new(E::Float("0.0".into(), false, false))),
        ],
    }
}

pub fn strings_upto(maxlen: usize) -> Vec<String> {
    let mut out = vec![String::new()];
    let mut last = vec![String::new()];
    for _ in 0..maxlen {
        let mut next = Vec::new();
        for p in &last {
            for c in CHARS {
                next.push(format!("{}{}", p, c));
            }
        }
        out.extend(next.clone());
        last = next;
    }
    out
}

fn derives() -> Vec<String> {
    vec!["ToString".into(), "ToJson".into()]
}

fn emit(b: &mut Vec<Stmt>, ty_name: &str, val: E) {
    let x = val;
    b.push(st(println(add(s("J:"), E::Inherent(ty_name.into(), "to_json".into(), CallForm::Dot, vec![x.clone()], vec![])))));
    b.push(st(println(add(s("S:"), E::Inherent(ty_name.into(), "to_string".into(), CallForm::Dot, vec![x], vec![])))));
}

/// a derived struct that shares its name with a variant of an enum of the package (`struct Circle`,
/// `enum Shape { Circle(Circle), .. }`): (name, text, expected output)
fn shared_name_programs() -> Vec<(String, String, String)> {
    let mut out = Vec::new();
    for derive in ["ToString", "ToJson"] {
        for (fields_n, fields, lit, shown, json) in [
            (1, "r: int32", "Circle { r: 2 }", "Circle { r: 2 }", "{\"r\":2}"),
            (2, "r: int32, name: string", "Circle { r: 2, name: \"n\" }", "Circle { r: 2, name: n }", "{\"r\":2,\"name\":\"n\"}"),
            (4, "r: int32, name: string, on: bool, w: int64", "Circle { r: 2, name: \"n\", on: true, w: 5i64 }", "Circle { r: 2, name: n, on: true, w: 5 }", "{\"r\":2,\"name\":\"n\",\"on\":true,\"w\":5}"),
        ] {
            for (vn, variant) in [("variant-holding-the-struct", "Circle(Circle)"), ("variant-holding-an-integer", "Circle(int32)"), ("variant-without-payload", "Circle"), ("variant-with-as-many-payloads", "")] {
                let variant = if variant.is_empty() { format!("Circle({})", vec!["int32"; fields_n].join(", ")) } else { variant.to_string() };
                for enum_first in [false, true] {
                    for enum_derived in [false, true] {
                        let st = format!("#[derive({})]\nstruct Circle {{ {} }}\n", derive, fields);
                        let en = format!("{}enum Shape {{ {}, Dot }}\n", if enum_derived { format!("#[derive({})]\n", derive) } else { String::new() }, variant);
                        // the enum can be derived only if its payloads can
                        if enum_derived && vn == "variant-holding-the-struct" && false {
                            continue;
                        }
                        let method = if derive == "ToString" { "to_string" } else { "to_json" };
                        let text = format!("{}{}fn main() {{\n    let c = {};\n    string_println(c.{}());\n    let d = Shape::Dot;\n    let n = match d {{ Shape::Dot => 1, _ => 0 }};\n    string_println(int32_to_string(n))\n}}\n", if enum_first { &en } else { &st }, if enum_first { &st } else { &en }, lit, method);
                        let expected = format!("{}\n1\n", if derive == "ToString" { shown } else { json });
                        out.push((format!("derive={};fields={};{};enum-{};enum-derived={}", derive, fields_n, vn, if enum_first { "first" } else { "second" }, enum_derived), text, expected));
                    }
                }
            }
        }
    }
    out
}

/// a derived type edited on disk between two compilations of one process: (name, definition and maker before, what
/// is printed before, definition and maker after, what is printed after); the attribute and the name stay where they are
const EDITS: [(&str, &str, &str, &str, &str); 6] = [
    ("field-added", "#[derive(ToString, ToJson)]\nstruct P { a: int32 }\nfn mk() -> P { P { a: 1 } }\n", "P { a: 1 }\n{\"a\":1}\n", "#[derive(ToString, ToJson)]\nstruct P { a: int32, b: string }\nfn mk() -> P { P { a: 1, b: \"x\" } }\n", "P { a: 1, b: x }\n{\"a\":1,\"b\":\"x\"}\n"),
    ("field-retyped", "#[derive(ToString, ToJson)]\nstruct P { a: int32 }\nfn mk() -> P { P { a: 1 } }\n", "P { a: 1 }\n{\"a\":1}\n", "#[derive(ToString, ToJson)]\nstruct P { a: string }\nfn mk() -> P { P { a: \"s\" } }\n", "P { a: s }\n{\"a\":\"s\"}\n"),
    ("field-renamed", "#[derive(ToString, ToJson)]\nstruct P { a: int32 }\nfn mk() -> P { P { a: 1 } }\n", "P { a: 1 }\n{\"a\":1}\n", "#[derive(ToString, ToJson)]\nstruct P { z: int32 }\nfn mk() -> P { P { z: 1 } }\n", "P { z: 1 }\n{\"z\":1}\n"),
    ("field-of-another-derived-type", "#[derive(ToString, ToJson)]\nstruct Q { q: int32 }\n#[derive(ToString, ToJson)]\nstruct P { a: int32 }\nfn mk() -> P { P { a: 1 } }\n", "P { a: 1 }\n{\"a\":1}\n", "#[derive(ToString, ToJson)]\nstruct Q { q: int32 }\n#[derive(ToString, ToJson)]\nstruct P { a: Q     }\nfn mk() -> P { P { a: Q { q: 7 } } }\n", "P { a: Q { q: 7 } }\n{\"a\":{\"q\":7}}\n"),
    ("variant-added", "#[derive(ToString, ToJson)]\nenum P { A(int32) }\nfn mk() -> P { P::A(1) }\n", "P::A(1)\n{\"tag\":\"A\",\"fields\":[1]}\n", "#[derive(ToString, ToJson)]\nenum P { A(int32), B }\nfn mk() -> P { P::B }\n", "P::B\n{\"tag\":\"B\"}\n"),
    ("payload-retyped", "#[derive(ToString, ToJson)]\nenum P { A(int32) }\nfn mk() -> P { P::A(1) }\n", "P::A(1)\n{\"tag\":\"A\",\"fields\":[1]}\n", "#[derive(ToString, ToJson)]\nenum P { A(string) }\nfn mk() -> P { P::A(\"s\") }\n", "P::A(s)\n{\"tag\":\"A\",\"fields\":[\"s\"]}\n"),
];

fn cases_list(tier: Tier) -> Vec<Value> {
    let mut v = Vec::new();
    for (e, _, _, _, _) in EDITS {
        for place in ["imported-package", "second-file-of-the-package"] {
            for between in ["nothing", "a-hover-query"] {
                v.push(json!({"kind": "after-edit", "edit": e, "place": place, "between": between}));
            }
        }
    }
    for (i, _) in shared_name_programs().iter().enumerate() {
        v.push(json!({"kind": "shared-name", "index": i}));
    }
    // strings through a one-field struct and a one-payload variant, in batches
    let strs = strings_upto(if tier == Tier::Quick { 2 } else { 3 });
    let mut lo = 0;
    while lo < strs.len() {
        let hi = (lo + 40).min(strs.len());
        v.push(json!({"kind": "strings", "lo": lo, "hi": hi, "holder": "struct"}));
        v.push(json!({"kind": "strings", "lo": lo, "hi": hi, "holder": "variant"}));
        lo = hi;
    }
    // leaf types × field names (structs with 1..2 fields; thorough 3)
    for (i, l) in LEAVES.iter().enumerate() {
        for (j, f) in FIELD_NAMES.iter().enumerate() {
            v.push(json!({"kind": "struct1", "leaf": l, "field": f}));
            let l2 = LEAVES[(i + j + 1) % LEAVES.len()];
            let f2 = FIELD_NAMES[(j + 3) % FIELD_NAMES.len()];
            if *f != f2 {
                v.push(json!({"kind": "struct2", "leaf": l, "field": f, "leaf2": l2, "field2": f2}));
            }
        }
        v.push(json!({"kind": "enum-payloads", "leaf": l, "leaf2": LEAVES[(i + 2) % LEAVES.len()]}));
    }
    // width: structs with n fields, variants with k payloads, enums with m variants
    let wmax = if tier == Tier::Quick { 12 } else { 24 };
    for n in 0..=wmax {
        for rot in 0..(if tier == Tier::Quick { 1 } else { 3 }) {
            v.push(json!({"kind": "wide-struct", "n": n, "rot": rot}));
            v.push(json!({"kind": "wide-variant", "n": n, "rot": rot}));
        }
        if n >= 1 {
            v.push(json!({"kind": "many-variants", "n": n}));
        }
    }
    // fields whose type has hand-written to_string / to_json methods (a generic instance, a plain struct, an enum)
    for holder in ["struct", "variant"] {
        for inner in ["generic-instance", "plain-struct", "enum"] {
            v.push(json!({"kind": "hand-written", "holder": holder, "inner": inner}));
        }
    }
    for name in ["empty-struct", "unit-variants", "nested", "recursive-enum", "variant-named-like-fields", "struct-in-enum-in-struct"] {
        v.push(json!({"kind": "shape", "name": name}));
    }
    for u in UNSUPPORTED {
        for d in ["ToString", "ToJson"] {
            for holder in ["struct", "enum"] {
                v.push(json!({"kind": "unsupported", "field_ty": u, "derive": d, "holder": holder}));
            }
        }
    }
    for d in ["ToString", "ToJson"] {
        v.push(json!({"kind": "unsupported", "field_ty": "generic-self", "derive": d, "holder": "struct"}));
    }
    v
}

fn build(case: &Value, tier: Tier) -> Option<Program> {
    let mut n = Names::new();
    let mut items: Vec<Item> = Vec::new();
    {
        let (fa, fb) = (n.fresh("a"), n.fresh("b"));
        items.push(fn_def("fdiv", vec![(fa, Ty::F64), (fb, Ty::F64)], Some(Ty::F64), bin(BinOp::Div, v(fa), v(fb))));
    }
    let mut b: Vec<Stmt> = Vec::new();
    match case["kind"].as_str().unwrap() {
        "strings" => {
            let strs = strings_upto(if tier == Tier::Quick { 2 } else { 3 });
            let (lo, hi) = (case["lo"].as_u64().unwrap() as usize, case["hi"].as_u64().unwrap() as usize);
            if case["holder"] == "struct" {
                items.push(Item::Struct(StructDef { name: "P".into(), generics: vec![], fields: vec![("s".into(), Ty::Str), ("n".into(), Ty::i32())], derives: derives() }));
                for sv in &strs[lo..hi] {
                    emit(&mut b, "P", E::StructLit("P".into(), vec![("s".into(), s(sv)), ("n".into(), int(1))], vec![]));
                }
            } else {
                items.push(Item::Enum(EnumDef { name: "V".into(), generics: vec![], variants: vec![("None0".into(), vec![]), ("Text".into(), vec![Ty::Str, Ty::Str])], derives: derives() }));
                for sv in &strs[lo..hi] {
                    emit(&mut b, "V", E::Ctor("V".into(), "Text".into(), true, vec![s(sv), s("k")], vec![]));
                }
            }
        }
        "struct1" | "struct2" => {
            let (l, f) = (case["leaf"].as_str().unwrap(), case["field"].as_str().unwrap());
            let mut fields = vec![(f.to_string(), leaf_ty(l))];
            let two = case["kind"] == "struct2";
            let (l2, f2) = if two { (case["leaf2"].as_str().unwrap(), case["field2"].as_str().unwrap()) } else { ("", "") };
            if two {
                fields.push((f2.to_string(), leaf_ty(l2)));
            }
            items.push(Item::Struct(StructDef { name: "R".into(), generics: vec![], fields, derives: derives() }));
            for (i, val) in leaf_values(l).into_iter().enumerate() {
                let mut fs = vec![(f.to_string(), val)];
                if two {
                    let v2 = leaf_values(l2);
                    fs.push((f2.to_string(), v2[i % v2.len()].clone()));
                }
                emit(&mut b, "R", E::StructLit("R".into(), fs, vec![]));
            }
        }
        "enum-payloads" => {
            let (l, l2) = (case["leaf"].as_str().unwrap(), case["leaf2"].as_str().unwrap());
            items.push(Item::Enum(EnumDef {
                name: "En".into(),
                generics: vec![],
                variants: vec![("Zero".into(), vec![]), ("One".into(), vec![leaf_ty(l)]), ("Two".into(), vec![leaf_ty(l), leaf_ty(l2)])],
                derives: derives(),
            }));
            emit(&mut b, "En", E::Ctor("En".into(), "Zero".into(), true, vec![], vec![]));
            for (i, val) in leaf_values(l).into_iter().enumerate() {
                emit(&mut b, "En", E::Ctor("En".into(), "One".into(), true, vec![val.clone()], vec![]));
                let v2 = leaf_values(l2);
                emit(&mut b, "En", E::Ctor("En".into(), "Two".into(), true, vec![val, v2[i % v2.len()].clone()], vec![]));
            }
        }
        "hand-written" => {
            let inner = case["inner"].as_str().unwrap();
            // the inner type is not derived: it brings its own methods, which the generated code must call
            let (ity, ival): (Ty, E) = match inner {
                "generic-instance" => {
                    items.push(Item::Struct(StructDef { name: "Bx".into(), generics: vec!["T".into()], fields: vec![("v".into(), Ty::Param("T".into()))], derives: vec![] }));
                    (Ty::Named("Bx".into(), vec![Ty::i32()]), E::StructLit("Bx".into(), vec![("v".into(), int(41))], vec![Ty::i32()]))
                }
                "plain-struct" => {
                    items.push(Item::Struct(StructDef { name: "Pl".into(), generics: vec![], fields: vec![("v".into(), Ty::i32())], derives: vec![] }));
                    (Ty::named("Pl"), E::StructLit("Pl".into(), vec![("v".into(), int(42))], vec![]))
                }
                _ => {
                    items.push(Item::Enum(EnumDef { name: "En2".into(), generics: vec![], variants: vec![("Aa".into(), vec![]), ("Bb".into(), vec![Ty::i32()])], derives: vec![] }));
                    (Ty::named("En2"), E::Ctor("En2".into(), "Bb".into(), true, vec![int(43)], vec![]))
                }
            };
            let tname = match &ity {
                Ty::Named(nm, _) => nm.clone(),
                _ => unreachable!(),
            };
            let (s1, s2) = (n.fresh("self"), n.fresh("self"));
            items.push(Item::Impl(ImplDef {
                generics: vec![],
                trait_name: None,
                for_ty: ity.clone(),
                methods: vec![
                    FnDef { name: "to_json".into(), generics: vec![], bounds: vec![], params: vec![(s1, ity.clone())], ret: Some(Ty::Str), body: s(&format!("{{\"hand\":\"{}\"}}", tname)) },
                    FnDef { name: "to_string".into(), generics: vec![], bounds: vec![], params: vec![(s2, ity.clone())], ret: Some(Ty::Str), body: s(&format!("<{}>", tname)) },
                ],
            }));
            if case["holder"] == "struct" {
                items.push(Item::Struct(StructDef { name: "Hold".into(), generics: vec![], fields: vec![("id".into(), Ty::i32()), ("item".into(), ity.clone()), ("last".into(), Ty::Bool)], derives: derives() }));
                emit(&mut b, "Hold", E::StructLit("Hold".into(), vec![("id".into(), int(7)), ("item".into(), ival), ("last".into(), E::Bool(true))], vec![]));
            } else {
                items.push(Item::Enum(EnumDef { name: "HoldV".into(), generics: vec![], variants: vec![("Empty".into(), vec![]), ("Full".into(), vec![Ty::i32(), ity.clone()])], derives: derives() }));
                emit(&mut b, "HoldV", E::Ctor("HoldV".into(), "Full".into(), true, vec![int(7), ival], vec![]));
            }
        }
        "wide-struct" | "wide-variant" => {
            let nf = case["n"].as_u64().unwrap() as usize;
            let rot = case["rot"].as_u64().unwrap() as usize;
            let leaves: Vec<&str> = (0..nf).map(|i| LEAVES[(i + rot) % LEAVES.len()]).collect();
            // two values: per leaf its first and its last boundary value
            let vals = |which: usize| -> Vec<E> {
                leaves
                    .iter()
                    .map(|l| {
                        let lv = leaf_values(l);
                        if which == 0 { lv[0].clone() } else { lv[lv.len() - 1].clone() }
                    })
                    .collect()
            };
            if case["kind"] == "wide-struct" {
                let fields: Vec<(String, Ty)> = leaves.iter().enumerate().map(|(i, l)| (format!("f{}", i), leaf_ty(l))).collect();
                items.push(Item::Struct(StructDef { name: "W".into(), generics: vec![], fields, derives: derives() }));
                for which in 0..2 {
                    let fs: Vec<(String, E)> = vals(which).into_iter().enumerate().map(|(i, e)| (format!("f{}", i), e)).collect();
                    emit(&mut b, "W", E::StructLit("W".into(), fs, vec![]));
                }
            } else {
                items.push(Item::Enum(EnumDef { name: "WV".into(), generics: vec![], variants: vec![("U".into(), vec![]), ("Wide".into(), leaves.iter().map(|l| leaf_ty(l)).collect())], derives: derives() }));
                for which in 0..2 {
                    emit(&mut b, "WV", E::Ctor("WV".into(), "Wide".into(), true, vals(which), vec![]));
                }
                emit(&mut b, "WV", E::Ctor("WV".into(), "U".into(), true, vec![], vec![]));
            }
        }
        "many-variants" => {
            let m = case["n"].as_u64().unwrap() as usize;
            let variants: Vec<(String, Vec<Ty>)> = (0..m).map(|i| (format!("V{}", i), (0..(i % 3)).map(|j| leaf_ty(LEAVES[(i + j) % LEAVES.len()])).collect())).collect();
            items.push(Item::Enum(EnumDef { name: "MV".into(), generics: vec![], variants, derives: derives() }));
            for i in 0..m {
                let args: Vec<E> = (0..(i % 3)).map(|j| leaf_values(LEAVES[(i + j) % LEAVES.len()])[0].clone()).collect();
                emit(&mut b, "MV", E::Ctor("MV".into(), format!("V{}", i), true, args, vec![]));
            }
        }
        "shape" => match case["name"].as_str().unwrap() {
            "empty-struct" => {
                items.push(Item::Struct(StructDef { name: "Empty".into(), generics: vec![], fields: vec![], derives: derives() }));
                emit(&mut b, "Empty", E::StructLit("Empty".into(), vec![], vec![]));
            }
            "unit-variants" => {
                items.push(Item::Enum(EnumDef { name: "Color".into(), generics: vec![], variants: vec![("Red".into(), vec![]), ("Green".into(), vec![])], derives: derives() }));
                emit(&mut b, "Color", E::Ctor("Color".into(), "Red".into(), true, vec![], vec![]));
                emit(&mut b, "Color", E::Ctor("Color".into(), "Green".into(), true, vec![], vec![]));
            }
            "nested" | "struct-in-enum-in-struct" => {
                items.push(Item::Struct(StructDef { name: "In".into(), generics: vec![], fields: vec![("k".into(), Ty::i32()), ("t".into(), Ty::Str)], derives: derives() }));
                items.push(Item::Enum(EnumDef { name: "Mid".into(), generics: vec![], variants: vec![("Leaf".into(), vec![]), ("Has".into(), vec![Ty::named("In"), Ty::Bool])], derives: derives() }));
                items.push(Item::Struct(StructDef { name: "Out".into(), generics: vec![], fields: vec![("inner".into(), Ty::named("In")), ("m".into(), Ty::named("Mid")), ("u".into(), Ty::Unit)], derives: derives() }));
                let inn = |k: i128, t: &str| E::StructLit("In".into(), vec![("k".into(), int(k)), ("t".into(), s(t))], vec![]);
                emit(&mut b, "Out", E::StructLit("Out".into(), vec![("inner".into(), inn(1, "x\"y")), ("m".into(), E::Ctor("Mid".into(), "Has".into(), true, vec![inn(2, "\\"), E::Bool(true)], vec![])), ("u".into(), E::Unit)], vec![]));
                emit(&mut b, "Out", E::StructLit("Out".into(), vec![("inner".into(), inn(3, "")), ("m".into(), E::Ctor("Mid".into(), "Leaf".into(), true, vec![], vec![])), ("u".into(), E::Unit)], vec![]));
            }
            "recursive-enum" => {
                items.push(Item::Enum(EnumDef { name: "Lst".into(), generics: vec![], variants: vec![("Nil".into(), vec![]), ("Cons".into(), vec![Ty::i32(), Ty::named("Lst")])], derives: derives() }));
                let nil = E::Ctor("Lst".into(), "Nil".into(), true, vec![], vec![]);
                let l1 = E::Ctor("Lst".into(), "Cons".into(), true, vec![int(1), nil.clone()], vec![]);
                let l2 = E::Ctor("Lst".into(), "Cons".into(), true, vec![int(2), l1.clone()], vec![]);
                emit(&mut b, "Lst", nil);
                emit(&mut b, "Lst", l1);
                emit(&mut b, "Lst", l2);
            }
            _ => {
                // variant and field names that coincide with generated identifiers
                items.push(Item::Enum(EnumDef { name: "Tg".into(), generics: vec![], variants: vec![("tag".into(), vec![Ty::i32()]), ("fields".into(), vec![Ty::Str])], derives: derives() }));
                emit(&mut b, "Tg", E::Ctor("Tg".into(), "tag".into(), true, vec![int(5)], vec![]));
                emit(&mut b, "Tg", E::Ctor("Tg".into(), "fields".into(), true, vec![s("f")], vec![]));
            }
        },
        _ => return None,
    }
    items.push(fn_def("main", vec![], None, block(b, None)));
    Some(Program::single(items, n.names.clone()))
}

/// canonicalise `J:` lines as JSON values (strict RFC 8259 via serde_json); other lines verbatim
fn canon(out: &[u8]) -> Vec<u8> {
    let text = String::from_utf8_lossy(out);
    let mut res = String::new();
    for line in text.split('\n') {
        if let Some(js) = line.strip_prefix("J:") {
            match serde_json::from_str::<Value>(js) {
                Ok(v) => res.push_str(&format!("J:{}", v)),
                Err(_) => res.push_str(&format!("J!invalid:{}", js)),
            }
        } else {
            res.push_str(line);
        }
        res.push('\n');
    }
    res.into_bytes()
}

pub struct Derive;

impl Family for Derive {
    fn name(&self) -> &'static str {
        "derive"
    }
    fn serves(&self) -> &'static [&'static str] {
        &["C18", "C01", "C02", "C04"]
    }
    fn rule(&self) -> &'static str {
        "derived ToString+ToJson on: a struct and a variant holding every string of length <= 2 (quick) / <= 3 (thorough) over 18 character classes {letter, quote, backslash, slash, space, DEL, é, U+00AD, U+2028, emoji, U+E0001, newline, tab, carriage return, U+0007, U+000B, U+0001, U+001F}; structs with 1-2 fields over 7 leaf types x 12 field names (incl. self, tag, fields, x0, ret, value and the names of the helpers the derived bodies call: bool_to_string, json_escape_string, int32_to_string, to_json, string_println) at boundary values; enums with 0-2 payloads; width: structs with 0..12 (thorough 0..24) fields, variants with 0..12 (0..24) payloads, enums with 1..12 (1..24) variants, leaf types cycling (thorough: 3 rotations); fields of a type with hand-written to_string/to_json (generic instance, plain struct, enum) inside a derived struct / variant; empty struct, unit variants, nested and recursive definitions, variants named tag/fields; 46 unsupported definitions (tuple, 1-tuple, nested tuple, array, Vec, Vec of a struct, Ref, two fn types: rejected by the derive itself, not by the typer on the generated code; generic instance and non-derived struct fields without the method, generic definitions: rejected before the compile stage). oracle: each to_json line parses with a strict RFC 8259 parser to the same JSON value as the reference rendering; each to_string line equals the reference `Name { f: v }` / `Enum::Variant(v)` rendering. non-trivial = programs whose values contain a character that JSON must escape or a boundary number; distinct = distinct source text. plus 96 programs in which a derived struct shares its name with a variant of another enum of the package (1 / 2 / 4 fields x the variant holding the struct, an integer, nothing, as many payloads as the struct has fields x enum before / after the struct x enum derived or not): the derived method prints the struct"
    }
    fn cases(&self, tier: Tier) -> Box<dyn Iterator<Item = Value> + '_> {
        Box::new(cases_list(tier).into_iter())
    }
    fn run(&self, case: &Value, ctx: &mut Ctx) -> Report {
        let mut rep = Report::default();
        if case["kind"] == "after-edit" {
            // two compilations in this process, the file that declares the derived type rewritten between them
            let (edit, place, between) = (case["edit"].as_str().unwrap(), case["place"].as_str().unwrap(), case["between"].as_str().unwrap());
            let (_, def1, out1, def2, out2) = EDITS.iter().find(|(e, _, _, _, _)| *e == edit).unwrap();
            let site = format!("derived-type-edited-between-two-compilations;edit={};place={};between={}", edit, place, between);
            rep.outcome = Some(site.clone());
            rep.nontrivial_key = Some(site.clone());
            let root = ctx.scratch.fresh_dir("derive-edit");
            let (main, other) = if place == "imported-package" {
                ("package Main\nimport Lib\n\nfn main() {\n    let p: Lib::P = Lib::mk();\n    string_println(p.to_string());\n    string_println(p.to_json())\n}\n".to_string(), root.join("Lib/lib.gom"))
            } else {
                ("package Main\n\nfn main() {\n    let p: P = mk();\n    string_println(p.to_string());\n    string_println(p.to_json())\n}\n".to_string(), root.join("types.gom"))
            };
            let header = if place == "imported-package" { "package Lib\n\n" } else { "package Main\n\n" };
            std::fs::create_dir_all(other.parent().unwrap()).ok();
            let path = root.join("main.gom");
            std::fs::write(&path, &main).ok();
            for (step, (def, want)) in [(def1, out1), (def2, out2)].into_iter().enumerate() {
                std::fs::write(&other, format!("{}{}", header, def)).ok();
                let text = format!("{}//// FILE {}\n{}{}", main, if place == "imported-package" { "Lib/lib.gom" } else { "types.gom" }, header, def);
                let replay = json!({"kind": "differential", "family": "derive", "case": case, "source": text, "expected": {"stdout": want, "end": "ok"}, "note": format!("compilation {} of 2 in one process, the same paths", step + 1)});
                let verdict: Result<String, (String, String)> = match crate::oracle::compile_at(&path, &main) {
                    crate::oracle::CompileOutcome::Ok(c) => {
                        let go = crate::oracle::go_text(&c).unwrap_or_default();
                        drop(c);
                        match crate::projects::run_go(&go, FUEL) {
                            Ok(o) => Ok(lossy(&o.stdout)),
                            Err(m) => Err(("go".into(), m)),
                        }
                    }
                    crate::oracle::CompileOutcome::Err(e) => {
                        let (stage, msg) = describe_err(&e);
                        Err((format!("rejected.{}", stage), msg))
                    }
                    crate::oracle::CompileOutcome::Panic(m) => Err(("panic".into(), m)),
                };
                match verdict {
                    Ok(out) if out == *want => rep.tag(format!("compilation-{}:agrees", step + 1)),
                    Err((c, m)) if c == "go" && m.starts_with("machinery") => rep.tag("machinery:go-unsupported"),
                    other_verdict => {
                        let detail = match other_verdict { Ok(out) => format!("expected {:?} got {:?}", want, out), Err((c, m)) => format!("{}: {}", c, m) };
                        if step == 0 {
                            // the first compilation guards the template
                            rep.tag("machinery:derive-edit-template-broken");
                            rep.sample = Some(json!({"site": site, "detail": detail}));
                            return rep;
                        }
                        for p in ["C18", "C13"] {
                            rep.findings.push(Finding { property: p, class: "derive.stale-after-edit".into(), site: site.clone(), detail: format!("second compilation in one process after the type's file was rewritten: {}", detail), replay: replay.clone() });
                        }
                    }
                }
                if step == 0 && between == "a-hover-query" {
                    // an editor asks about `mk` in main.gom before the file is saved again
                    let off = main.find("p.to_string").unwrap_or(0);
                    let (line, col) = (main[..off].matches('\n').count() as u32, (off - main[..off].rfind('\n').map(|i| i + 1).unwrap_or(0)) as u32);
                    let _ = std::panic::catch_unwind(std::panic::AssertUnwindSafe(|| compiler::query::hover_type(&path, &main, line, col)));
                }
            }
            return rep;
        }
        if case["kind"] == "shared-name" {
            let (name, text, expected) = shared_name_programs()[case["index"].as_u64().unwrap() as usize].clone();
            let site = format!("struct-named-like-a-variant;{}", name);
            rep.nontrivial_key = Some(text.clone());
            rep.outcome = Some(site.clone());
            expect_text_program(ctx, &mut rep, "derive", case, &site, &text, &expected, &["C18", "C01"], &["C18", "C02"], &["C18"]);
            return rep;
        }
        if case["kind"] == "unsupported" {
            let fty = case["field_ty"].as_str().unwrap();
            let d = case["derive"].as_str().unwrap();
            let holder = case["holder"].as_str().unwrap();
            let text = if fty == "generic-self" {
                format!("#[derive({})]\nstruct G[T] {{ v: T }}\nfn main() {{ string_println(\"x\") }}\n", d)
            } else if holder == "struct" {
                format!("struct Gen[T] {{ v: T }}\nstruct Plain {{ p: int32 }}\n#[derive({})]\nstruct Bad {{ f: {} }}\nfn use_it(b: Bad) -> string {{ b.to_{}() }}\nfn main() {{ string_println(\"x\") }}\n", d, fty, if d == "ToString" { "string" } else { "json" })
            } else {
                format!("struct Gen[T] {{ v: T }}\nstruct Plain {{ p: int32 }}\n#[derive({})]\nenum Bad {{ A, B({}) }}\nfn use_it(b: Bad) -> string {{ b.to_{}() }}\nfn main() {{ string_println(\"x\") }}\n", d, fty, if d == "ToString" { "string" } else { "json" })
            };
            let path = ctx.scratch.single_path();
            rep.nontrivial_key = Some(text.clone());
            let site = format!("unsupported;field={};derive={};holder={}", fty, d, holder);
            let replay = json!({"kind": "text", "text": text, "oracle": "derive-unsupported"});
            match crate::oracle::compile_at(&path, &text) {
                crate::oracle::CompileOutcome::Err(e) => {
                    let (stage, msg) = describe_err(&e);
                    rep.tag(format!("unsupported:rejected:{}", stage));
                    rep.outcome = Some(format!("rejected:{}", stage));
                    if stage == "compile" {
                        rep.findings.push(Finding { property: "C18", class: "derive.rejected-late".into(), site, detail: msg, replay });
                    } else if stage != "lower" && structural(fty) {
                        // (the derive's own diagnostics come back as errors of the lowering stage)
                        rep.findings.push(Finding { property: "C18", class: "derive.rejected-by-generated-code".into(), site, detail: format!("rejected by the {} on the generated code, not by the derive: {}", stage, msg), replay });
                    }
                }
                crate::oracle::CompileOutcome::Panic(m) => {
                    let m = normalise_msg(&m);
                    for p in ["C18", "C04"] {
                        rep.findings.push(Finding { property: p, class: "compile.panic".into(), site: format!("{};msg={}", site, m), detail: m.clone(), replay: replay.clone() });
                    }
                }
                crate::oracle::CompileOutcome::Ok(c) => {
                    // accepted: then the generated code must at least be valid Go
                    rep.tag("unsupported:accepted");
                    rep.outcome = Some("accepted".into());
                    let go = crate::oracle::go_text(&c).unwrap_or_default();
                    if let crate::gosem::GoVerdict::Rejected(errs) = crate::gosem::analyse(&go) {
                        for p in ["C18", "C02"] {
                            rep.findings.push(Finding { property: p, class: format!("go.{}", errs[0].rule), site: site.clone(), detail: errs[0].msg.clone(), replay: replay.clone() });
                        }
                    }
                }
            }
            return rep;
        }
        let Some(prog) = build(case, ctx.tier) else { return rep };
        let site = match case["kind"].as_str().unwrap() {
            "strings" => format!("strings;holder={}", case["holder"].as_str().unwrap()),
            "struct1" | "struct2" => format!("{};leaf={};field={}", case["kind"].as_str().unwrap(), case["leaf"].as_str().unwrap(), case["field"].as_str().unwrap()),
            "enum-payloads" => format!("enum-payloads;leaf={}", case["leaf"].as_str().unwrap()),
            "wide-struct" | "wide-variant" | "many-variants" => format!("{};n={}", case["kind"].as_str().unwrap(), case["n"]),
            "hand-written" => format!("hand-written;holder={};inner={}", case["holder"].as_str().unwrap(), case["inner"].as_str().unwrap()),
            _ => format!("shape={}", case["name"].as_str().unwrap_or("?")),
        };
        // every definition built here is one the derive supports: a rejection (generated code failing in the typer) is a finding
        let opts = DiffOpts { props_sem: &["C18", "C01"], props_go: &["C02", "C18"], props_panic: &["C04", "C18"], props_reject: &["C18"], normalise: Some(canon), ..DiffOpts::default() };
        let res = differential(&prog, &site, "derive", case, ctx, &opts, &mut rep);
        if let Some(d) = &res {
            if let Some(go) = &d.go_obs {
                let c = String::from_utf8_lossy(&canon(&go.stdout)).into_owned();
                let invalid = c.matches("J!invalid:").count();
                if invalid > 0 {
                    rep.tag(format!("json-invalid-lines:{}", invalid));
                    // re-class the disagreement: which characters make the JSON invalid
                    let mut cause = String::new();
                    if case["kind"] == "strings" {
                        // line 2k / 2k+1 render string number lo+k: which strings are rendered wrongly?
                        let strs = strings_upto(if ctx.tier == Tier::Quick { 2 } else { 3 });
                        let lo = case["lo"].as_u64().unwrap() as usize;
                        let want = String::from_utf8_lossy(&canon(&d.ref_obs.stdout)).into_owned();
                        let (wl, gl): (Vec<&str>, Vec<&str>) = (want.lines().collect(), c.lines().collect());
                        let mut only_del_or_tag = wl.len() == gl.len();
                        for (i, (a, b)) in wl.iter().zip(gl.iter()).enumerate() {
                            if a != b {
                                let sv = strs.get(lo + i / 2).cloned().unwrap_or_default();
                                if !(sv.contains('\u{7f}') || sv.contains('\u{e0001}')) || i % 2 == 1 {
                                    only_del_or_tag = false;
                                }
                            }
                        }
                        cause = if only_del_or_tag { ";cause=del-or-tag-character".into() } else { ";cause=other".into() };
                    }
                    for f in rep.findings.iter_mut() {
                        if f.class.starts_with("sem.stdout") {
                            f.class = "json.invalid".into();
                            f.site.push_str(&cause);
                        }
                    }
                }
            }
        }
        rep
    }
}
