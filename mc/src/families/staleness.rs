//! C15: linking never combines packages built against different interfaces.
//! Explicit-state breadth-first search over histories of {edit, check, build, link} on small
//! package graphs, every transition executing the real check_package / build_package / read_core /
//! link_cores on real files; a symbolic-version reference model predicts, in every state, whether
//! link must succeed. Plus: every single-leaf corruption of the JSON artifacts.

use crate::drive::*;
use crate::families::common::*;
use crate::projects::*;
use compiler::pipeline::separate::{build_package, check_package, link_cores, read_core};
use serde_json::{Value, json};
use std::collections::{BTreeMap, HashSet, VecDeque};
use std::panic::{AssertUnwindSafe, catch_unwind};
use std::path::Path;

pub const KINDS: [&str; 19] = [
    "fn-added", "fn-removed", "sig-changed", "struct-field-added", "struct-field-added-before", "struct-field-retyped", "enum-variant-added", "enum-payload-changed",
    "trait-method-added", "impl-added", "impl-removed", "type-renamed", "generic-param-added", "bound-added", "bound-removed", "bound-changed",
    // two inherent impls for two instances of one generic struct, each with a bounded method of one name
    "method-bound-changed-first-impl", "method-bound-changed-second-impl",
    // the last of three variants removed, and package B (where it has dependencies) matches on that variant of theirs:
    // a stale core of B then names a variant that is gone, and B cannot be rebuilt until its source follows
    "enum-variant-removed-used-by-b",
];
pub const GRAPHS: [&str; 5] = ["chain", "diamond", "fan", "triangle", "triangle-rev"];

pub(crate) fn graph(name: &str) -> Vec<(&'static str, Vec<&'static str>)> {
    match name {
        "chain" => vec![("Main", vec!["A"]), ("A", vec!["B"]), ("B", vec![])],
        "diamond" => vec![("Main", vec!["A", "B"]), ("A", vec!["C"]), ("B", vec!["C"]), ("C", vec![])],
        // a package that is both a direct and an indirect dependency of Main, sorting before / after the
        // package through which it is reached
        "triangle" => vec![("Main", vec!["A", "B"]), ("B", vec!["A"]), ("A", vec![])],
        "triangle-rev" => vec![("Main", vec!["A", "B"]), ("A", vec!["B"]), ("B", vec![])],
        _ => vec![("Main", vec!["A", "B"]), ("A", vec![]), ("B", vec![])],
    }
}

/// variant: 0 = v0, 1 = body-only edit, 2 = interface-changing edit of `kind`
pub(crate) fn lib_source(l: &str, deps: &[&str], variant: u8, kind: &str, indirect: bool) -> String {
    let k = if variant == 1 { 20 } else { 10 };
    let iface = variant == 2;
    let mut s = format!("package {}\n", l);
    for d in deps {
        s.push_str(&format!("import {}\n", d));
    }
    s.push('\n');
    let sname = if iface && kind == "type-renamed" { format!("S{}x", l) } else { format!("S{}", l) };
    let fields = if iface && kind == "struct-field-added" {
        "a: int32, b: int32"
    } else if iface && kind == "struct-field-added-before" {
        "b: int32, a: int32"
    } else if iface && kind == "struct-field-retyped" {
        "a: bool"
    } else {
        "a: int32"
    };
    let gparam = if iface && kind == "generic-param-added" { "[T]" } else { "" };
    s.push_str(&format!("struct {}{} {{ {} }}\n", sname, gparam, fields));
    let variants = if kind == "enum-variant-removed-used-by-b" {
        if iface { format!("X{}, Y{}(int32)", l, l) } else { format!("X{}, Y{}(int32), Z{}", l, l, l) }
    } else if iface && kind == "enum-variant-added" {
        format!("X{}, Y{}(int32), Z{}", l, l, l)
    } else if iface && kind == "enum-payload-changed" {
        format!("X{}, Y{}(bool)", l, l)
    } else {
        format!("X{}, Y{}(int32)", l, l)
    };
    s.push_str(&format!("enum E{} {{ {} }}\n", l, variants));
    if iface && kind == "trait-method-added" {
        s.push_str(&format!("trait T{} {{ fn t(Self) -> int32; fn t2(Self) -> int32; }}\n", l));
        s.push_str(&format!("impl T{} for int32 {{ fn t(self: int32) -> int32 {{ self }} fn t2(self: int32) -> int32 {{ self }} }}\n", l));
    } else {
        s.push_str(&format!("trait T{} {{ fn t(Self) -> int32; }}\n", l));
        if !(iface && kind == "impl-removed") {
            s.push_str(&format!("impl T{} for int32 {{ fn t(self: int32) -> int32 {{ self }} }}\n", l));
        }
    }
    if iface && kind == "impl-added" {
        s.push_str(&format!("impl T{} for bool {{ fn t(self: bool) -> int32 {{ 1 }} }}\n", l));
    }
    if iface && kind == "fn-added" {
        s.push_str(&format!("fn g{}() -> int32 {{ 1 }}\n", l));
    }
    if !(iface && kind == "fn-removed") {
        if iface && kind == "sig-changed" {
            s.push_str(&format!("fn h{}(y: int32) -> int32 {{ y }}\n", l));
        } else {
            s.push_str(&format!("fn h{}() -> int32 {{ 0 }}\n", l));
        }
    }
    // a second trait and two generic functions, one bounded and one not: the bounds are part of what
    // a dependent is compiled against
    s.push_str(&format!("trait U{} {{ fn u(Self) -> int32; }}\nimpl U{} for int32 {{ fn u(self: int32) -> int32 {{ self + 1 }} }}\n", l, l));
    if iface && kind == "bound-removed" {
        s.push_str(&format!("fn q{}[T](x: T) -> int32 {{ 0 }}\n", l));
    } else if iface && kind == "bound-changed" {
        s.push_str(&format!("fn q{}[T: U{}](x: T) -> int32 {{ U{}::u(x) }}\n", l, l, l));
    } else {
        s.push_str(&format!("fn q{}[T: T{}](x: T) -> int32 {{ T{}::t(x) }}\n", l, l, l));
    }
    if iface && kind == "bound-added" {
        s.push_str(&format!("fn r{}[T: T{}](x: T) -> int32 {{ T{}::t(x) }}\n", l, l, l));
    } else {
        s.push_str(&format!("fn r{}[T](x: T) -> int32 {{ 0 }}\n", l));
    }
    s.push_str(&format!("struct Bx{}[T] {{ v: T }}\n", l));
    for (which, inst) in [("method-bound-changed-first-impl", "int32"), ("method-bound-changed-second-impl", "bool")] {
        let (tr, m) = if iface && kind == which { (format!("U{}", l), "u") } else { (format!("T{}", l), "t") };
        s.push_str(&format!("impl Bx{l}[{inst}] {{ fn run[V: {tr}](self: Bx{l}[{inst}], w: V) -> int32 {{ {tr}::{m}(w) }} }}\n", l = l, inst = inst, tr = tr, m = m));
    }
    // values of the enum and of the struct are built, taken apart and kept in a tuple, a vector and a
    // closure (the core file then holds constructor indices, field indices and arities)
    let (vy, vx) = (format!("Y{}", l), format!("X{}", l));
    if !(iface && matches!(kind, "enum-payload-changed" | "struct-field-retyped" | "type-renamed" | "generic-param-added")) {
        s.push_str(&format!("fn mk{l}(k: int32) -> E{l} {{ if k > 0 {{ {vy}(k) }} else {{ {vx} }} }}\n", l = l, vy = vy, vx = vx));
        s.push_str(&format!("fn un{l}(e: E{l}) -> int32 {{ match e {{ {vx} => 0, {vy}(w) => w, _ => 2 }} }}\n", l = l, vy = vy, vx = vx));
        s.push_str(&format!("fn shapes{l}(k: int32) -> int32 {{ let t = (k, {sn} {{ a: k{extra} }}); let c = |q: int32| q + t.0; let w = vec_push(vec_new(), t.1.a); c(un{l}(mk{l}(k))) + vec_get(w, 0) }}\n", l = l, sn = sname, extra = if iface && matches!(kind, "struct-field-added" | "struct-field-added-before") { ", b: 0" } else { "" }));
        // a value of the struct for other packages to pass on
        s.push_str(&format!("fn new{l}() -> {sn} {{ {sn} {{ a: 7{extra} }} }}\n", l = l, sn = sname, extra = if iface && matches!(kind, "struct-field-added" | "struct-field-added-before") { ", b: 0" } else { "" }));
    } else if iface && kind == "struct-field-retyped" {
        s.push_str(&format!("fn new{l}() -> {sn} {{ {sn} {{ a: true }} }}\n", l = l, sn = sname));
    }
    if indirect {
        for d in deps {
            s.push_str(&format!("fn get{d}() -> {d}::S{d} {{ {d}::new{d}() }}\n", d = d));
        }
    }
    if kind == "enum-variant-removed-used-by-b" && l == "B" {
        for d in deps {
            s.push_str(&format!("fn last{d}(e: {d}::E{d}) -> int32 {{ match e {{ {d}::E{d}::Z{d} => 3, _ => 0 }} }}\nfn made{d}() -> int32 {{ last{d}({d}::E{d}::Z{d}) }}\n", d = d));
        }
    }
    let mut body = format!("x + {}", k);
    for d in deps {
        body.push_str(&format!(" + {}::f{}(x)", d, d));
    }
    s.push_str(&format!("fn f{}(x: int32) -> int32 {{ {} }}\n", l, body));
    s
}

/// `indirect`: (package imported by Main, package it imports that Main does not) - Main reads a field of a
/// struct of the second that a function of the first hands on
pub(crate) fn main_source(deps: &[&str], indirect: &[(String, String)]) -> String {
    let mut s = String::from("package Main\n");
    for d in deps {
        s.push_str(&format!("import {}\n", d));
    }
    let mut sum = String::from("0");
    for d in deps {
        sum.push_str(&format!(" + {}::f{}(1)", d, d));
    }
    for (via, x) in indirect {
        sum.push_str(&format!(" + {}::get{}().a", via, x));
    }
    s.push_str(&format!("\nfn main() {{ string_println(int32_to_string({})) }}\n", sum));
    s
}

#[derive(Clone, Debug, PartialEq, Eq, Hash, PartialOrd, Ord)]
struct Art {
    /// content of <P>.interface / <P>.core on disk
    iface: Option<std::sync::Arc<String>>,
    core: Option<std::sync::Arc<String>>,
    /// reference model: symbolic versions
    m_iface: Option<String>,
    m_core: Option<(String, Vec<(String, String)>, u8)>, // (self version, recorded dep versions, body constant variant)
    /// the dependency hashes in the .core file were overwritten after the build (action `tamper`)
    tampered: bool,
}

#[derive(Clone, Debug, PartialEq, Eq, Hash, PartialOrd, Ord)]
struct St {
    variants: Vec<u8>, // per package (Main always 0)
    arts: Vec<Art>,
}

#[derive(Clone, Debug)]
enum Act {
    Edit(usize, u8),
    Check(usize),
    Build(usize),
    /// the user pastes the hash from the link error into the stale package's .core file: the
    /// top-level `deps` entries are overwritten with the hashes of the dependencies' current cores
    Tamper(usize),
    Link,
}

fn key(st: &St) -> String {
    let mut k = format!("{:?}|", st.variants);
    for a in &st.arts {
        k.push_str(&format!("{:x}:{:x};", a.iface.as_ref().map(|s| fnv(s)).unwrap_or(0), a.core.as_ref().map(|s| fnv(s)).unwrap_or(0)));
        // the model's view is part of the state: two histories that leave the same bytes on disk but
        // that the model tells apart must not be merged (that would hide exactly the divergence sought)
        k.push_str(&format!("{:x};", fnv(&format!("{:?}|{:?}", a.m_iface, a.m_core))));
    }
    k
}

fn fnv(s: &str) -> u64 {
    let mut h: u64 = 0xcbf29ce484222325;
    for b in s.as_bytes() {
        h ^= *b as u64;
        h = h.wrapping_mul(0x100000001b3);
    }
    h
}

struct World<'a> {
    g: Vec<(&'static str, Vec<&'static str>)>,
    kind: &'a str,
    root: std::path::PathBuf,
    out: std::path::PathBuf,
    /// Main uses a struct of a package it does not import, through a package it imports
    indirect: bool,
}

impl<'a> World<'a> {
    /// (package imported by Main, package imported by that one and not by Main)
    fn indirect_uses(&self) -> Vec<(String, String)> {
        let mut v = Vec::new();
        if self.indirect {
            let main_deps = &self.g[0].1;
            for d in main_deps {
                for x in &self.g[self.idx(d)].1 {
                    if !main_deps.contains(x) {
                        v.push((d.to_string(), x.to_string()));
                    }
                }
            }
        }
        v
    }
    fn restore(&self, st: &St) {
        let _ = std::fs::remove_dir_all(&self.root);
        let _ = std::fs::remove_dir_all(&self.out);
        std::fs::create_dir_all(&self.out).unwrap();
        for (i, (p, deps)) in self.g.iter().enumerate() {
            let (path, src) = if *p == "Main" { (self.root.join("main.gom"), main_source(deps, &self.indirect_uses())) } else { (self.root.join(p).join("lib.gom"), lib_source(p, deps, st.variants[i], self.kind, self.indirect)) };
            std::fs::create_dir_all(path.parent().unwrap()).unwrap();
            std::fs::write(path, src).unwrap();
            if let Some(s) = &st.arts[i].iface {
                std::fs::write(self.out.join(format!("{}.interface", p)), &**s).unwrap();
            }
            if let Some(s) = &st.arts[i].core {
                std::fs::write(self.out.join(format!("{}.core", p)), &**s).unwrap();
            }
        }
    }
    fn pkg(&self, i: usize) -> PkgInfo {
        let (p, deps) = &self.g[i];
        PkgInfo { name: p.to_string(), files: vec![if *p == "Main" { "main.gom".to_string() } else { format!("{}/lib.gom", p) }], imports: deps.iter().map(|d| d.to_string()).collect() }
    }
    fn idx(&self, name: &str) -> usize {
        self.g.iter().position(|(p, _)| *p == name).unwrap()
    }
    /// expected program output if everything built is linked
    fn expected(&self, st: &St) -> String {
        fn f(w: &World, st: &St, i: usize) -> i64 {
            let (_, deps) = &w.g[i];
            let body = st.arts[i].m_core.as_ref().map(|c| c.2).unwrap_or(0);
            let mut v = 1 + if body == 1 { 20 } else { 10 };
            for d in deps {
                v += f(w, st, w.idx(d));
            }
            v
        }
        let (_, deps) = &self.g[0];
        let mut sum = 7 * self.indirect_uses().len() as i64;
        for d in deps {
            sum += f(self, st, self.idx(d));
        }
        format!("{}\n", sum)
    }
}

pub struct Staleness;

impl Family for Staleness {
    fn name(&self) -> &'static str {
        "staleness"
    }
    fn serves(&self) -> &'static [&'static str] {
        &["C15", "C04"]
    }
    fn level(&self) -> &'static str {
        "model_checking"
    }
    fn case_timeout(&self, _tier: Tier) -> u64 {
        900
    }
    fn rule(&self) -> &'static str {
        "graphs {chain Main->A->B, diamond Main->{A,B}->C, fan Main->{A,B}, triangle Main->{A,B} with B->A, and with A->B} x 19 kinds of interface-changing edit (fn added/removed/signature changed, struct field added after / before the others / retyped, enum variant added/payload changed/removed while package B matches on it (B then cannot be rebuilt and its stale core names a variant that is gone), trait method added, impl added/removed, type renamed, generic parameter added, trait bound of a generic function added/removed/changed, bound of a method changed in the first / second of two inherent impls for two instances of one generic struct that give the method one name); each library has source variants {v0, body-only edit, interface-changing edit}; actions = edit(pkg,variant), check(pkg), build(pkg), tamper(pkg) (overwrite the dependency hashes at the top of a stale .core file with the current ones, as a user pasting the hash from the link error would), link; breadth-first search over all histories to depth 5 (quick) / 7 (thorough) with states deduplicated by (source variants, artifact file contents, the model's versions); every transition runs the real functions on real files. Reference model: symbolic interface versions (pkg, interface variant, versions of deps at build time). Oracle in every state: the dependency hashes a built/checked package records are those of the interface files it was built against; build/check succeed iff the model says the dependencies' interfaces exist; link succeeds iff every core exists and every recorded dependency version equals the version embedded in that dependency's core; a successful link prints the value denoted by the sources that were built; body-only edits leave the interface bytes unchanged and interface edits change the hash; crash points of a write of A's .interface / .core (every prefix on a grid of all cut points in the first and last 256 bytes and every 61st between; the first k bytes followed by the rest of the artifact of another version): refused, or exactly one of the two complete versions; chain and diamond x 4 kinds also with a Main that reads a field of a struct of a package it does not import, handed on by one it imports (refused by the type checker today; whenever it is built, the interface file of the indirect package is a version Main was built against and must be the linked one). non-trivial = states in which some package is stale; distinct = distinct states"
    }
    fn cases(&self, tier: Tier) -> Box<dyn Iterator<Item = Value> + '_> {
        let mut v = Vec::new();
        for g in GRAPHS {
            for k in KINDS {
                // package B has no dependencies in the chain and in the reversed triangle: nothing there names the removed variant
                if k == "enum-variant-removed-used-by-b" && !matches!(g, "diamond" | "triangle") {
                    continue;
                }
                if tier == Tier::Quick && g != "chain" && !matches!(k, "fn-added" | "struct-field-retyped" | "impl-removed" | "enum-variant-removed-used-by-b") {
                    continue;
                }
                v.push(json!({"kind": "history", "graph": g, "edit": k}));
            }
        }
        // Main reads a field of a struct of a package it does not import (handed on by one it imports): refused
        // today; if it is ever built, the interface it was read from is one Main was built against
        for g in ["chain", "diamond"] {
            for k in ["struct-field-added", "struct-field-added-before", "struct-field-retyped", "fn-added"] {
                v.push(json!({"kind": "history", "graph": g, "edit": k, "indirect": true}));
            }
        }
        for g in ["chain"] {
            v.push(json!({"kind": "corruption", "graph": g, "target": "interface"}));
            v.push(json!({"kind": "corruption", "graph": g, "target": "core"}));
        }
        Box::new(v.into_iter())
    }
    fn run(&self, case: &Value, ctx: &mut Ctx) -> Report {
        if case["kind"] == "corruption" {
            return corruption(case, ctx);
        }
        let mut rep = Report::default();
        let gname = case["graph"].as_str().unwrap();
        let kind = case["edit"].as_str().unwrap();
        let indirect = case["indirect"].as_bool().unwrap_or(false);
        let w = World { g: graph(gname), kind, root: ctx.scratch.fresh_dir("stale-src"), out: ctx.scratch.fresh_dir("stale-out"), indirect };
        let n = w.g.len();
        let depth_max = if ctx.tier == Tier::Quick { 5 } else { 7 };
        let site = format!("graph={};edit={}{}", gname, kind, if indirect { ";main-uses-an-indirect-struct" } else { "" });
        let init = St { variants: vec![0; n], arts: vec![Art { iface: None, core: None, m_iface: None, m_core: None, tampered: false }; n] };
        let mut seen: HashSet<String> = HashSet::new();
        seen.insert(key(&init));
        let mut frontier: VecDeque<(St, Vec<String>)> = VecDeque::new();
        frontier.push_back((init.clone(), vec![]));
        // second root: everything built bottom-up from v0 (most staleness scenarios start from a built project)
        {
            let mut st = init.clone();
            let mut ok = true;
            for i in (0..n).rev() {
                w.restore(&st);
                let pkg = w.pkg(i);
                let dep_vers: Vec<(String, String)> = w.g[i].1.iter().map(|d| (d.to_string(), st.arts[w.idx(d)].m_iface.clone().unwrap_or_default())).collect();
                let self_ver = format!("{}#0[{}]", pkg.name, dep_vers.iter().map(|(_, v)| v.clone()).collect::<Vec<_>>().join(","));
                match catch_unwind(AssertUnwindSafe(|| build_package(inputs(&w.root, &pkg, &w.out)))) {
                    Ok(Ok(unit)) => {
                        st.arts[i].iface = Some(std::sync::Arc::new(serde_json::to_string_pretty(&unit.interface).unwrap()));
                        st.arts[i].core = Some(std::sync::Arc::new(serde_json::to_string_pretty(&unit).unwrap()));
                        st.arts[i].m_iface = Some(self_ver.clone());
                        st.arts[i].m_core = Some((self_ver, dep_vers, 0));
                    }
                    _ => {
                        if !(indirect && i == 0) {
                            ok = false
                        }
                    }
                }
            }
            if ok && seen.insert(key(&st)) {
                frontier.push_back((st, vec!["<all packages built from v0>".to_string()]));
            } else if !ok {
                rep.tag("machinery:base-build-failed");
            }
        }
        let mut transitions = 0u64;
        let mut stale_states = 0u64;
        let mut links_ok = 0u64;
        let mut links_fail = 0u64;
        let mut reported: HashSet<String> = HashSet::new();
        let mut iface_v0: BTreeMap<usize, String> = BTreeMap::new();
        let mut push = |rep: &mut Report, class: &str, detail: String, hist: &Vec<String>| {
            if reported.insert(class.to_string()) {
                // a panic while building / linking artifacts the compiler wrote itself is a crash as well
                if class.ends_with(".panic") {
                    rep.findings.push(Finding { property: "C04", class: class.to_string(), site: site.clone(), detail: detail.clone(), replay: json!({"kind": "history", "graph": gname, "edit": kind, "history": hist, "detail": detail}) });
                }
                rep.findings.push(Finding {
                    property: "C15",
                    class: class.to_string(),
                    site: site.clone(),
                    detail: detail.clone(),
                    replay: json!({"kind": "history", "graph": gname, "edit": kind, "history": hist, "detail": detail}),
                });
            }
        };
        while let Some((st, hist)) = frontier.pop_front() {
            if hist.iter().filter(|h| !h.starts_with('<')).count() >= depth_max {
                continue;
            }
            let mut acts: Vec<Act> = Vec::new();
            for i in 1..n {
                for v in 0..3u8 {
                    if st.variants[i] != v {
                        acts.push(Act::Edit(i, v));
                    }
                }
            }
            for i in 0..n {
                acts.push(Act::Build(i));
                if i > 0 {
                    acts.push(Act::Check(i));
                }
                if st.arts[i].core.is_some() && !w.g[i].1.is_empty() {
                    acts.push(Act::Tamper(i));
                }
            }
            acts.push(Act::Link);
            for act in acts {
                transitions += 1;
                let mut next = st.clone();
                let mut h2 = hist.clone();
                match &act {
                    Act::Edit(i, v) => {
                        h2.push(format!("edit({},v{})", w.g[*i].0, v));
                        next.variants[*i] = *v;
                    }
                    Act::Check(i) | Act::Build(i) => {
                        let is_build = matches!(act, Act::Build(_));
                        h2.push(format!("{}({})", if is_build { "build" } else { "check" }, w.g[*i].0));
                        w.restore(&st);
                        let pkg = w.pkg(*i);
                        let deps_ok = w.g[*i].1.iter().all(|d| st.arts[w.idx(d)].m_iface.is_some());
                        let dep_vers: Vec<(String, String)> = w.g[*i].1.iter().map(|d| (d.to_string(), st.arts[w.idx(d)].m_iface.clone().unwrap_or_default())).collect();
                        // a Main that reads a struct of a package it does not import can only have been built by
                        // reading that package's interface file: it is then a version Main was built against
                        let mut dep_vers = dep_vers;
                        if *i == 0 {
                            for (_, x) in w.indirect_uses() {
                                dep_vers.push((x.clone(), st.arts[w.idx(&x)].m_iface.clone().unwrap_or_else(|| "<absent>".into())));
                            }
                        }
                        let iface_variant = if st.variants[*i] == 2 { 1 } else { 0 };
                        let self_ver = format!("{}#{}[{}]", pkg.name, iface_variant, dep_vers.iter().map(|(_, v)| v.clone()).collect::<Vec<_>>().join(","));
                        // B names a variant of its dependencies that their edited interface no longer has
                        let names_a_removed_variant = w.kind == "enum-variant-removed-used-by-b" && pkg.name == "B" && dep_vers.iter().any(|(_, v)| v.contains("#1"));
                        if names_a_removed_variant {
                            let r = catch_unwind(AssertUnwindSafe(|| if is_build { build_package(inputs(&w.root, &pkg, &w.out)).map(|_| ()) } else { check_package(inputs(&w.root, &pkg, &w.out)).map(|_| ()) }));
                            match r {
                                Ok(Ok(())) => push(&mut rep, "build.succeeded-naming-a-removed-variant", format!("after {:?}", h2), &h2),
                                Ok(Err(_)) => rep.tag("dependent-names-a-removed-variant:rejected"),
                                Err(p) => push(&mut rep, "build.panic", normalise_msg(&crate::oracle::panic_message(p)), &h2),
                            }
                        } else if is_build {
                            let r = catch_unwind(AssertUnwindSafe(|| build_package(inputs(&w.root, &pkg, &w.out))));
                            match r {
                                Ok(Ok(unit)) => {
                                    if !deps_ok {
                                        push(&mut rep, "build.succeeded-without-dependency-interface", format!("after {:?}", h2), &h2);
                                    }
                                    if indirect && *i == 0 {
                                        rep.tag("main-using-an-indirect-struct:built");
                                    }
                                    let ij = serde_json::to_string_pretty(&unit.interface).unwrap();
                                    let cj = serde_json::to_string_pretty(&unit).unwrap();
                                    // the hashes a package records are those of the interface files it was built against
                                    for d in &w.g[*i].1 {
                                        let used = st.arts[w.idx(d)].iface.as_ref().and_then(|t| serde_json::from_str::<Value>(t).ok()).and_then(|v| v["interface_hash"].as_str().map(|x| x.to_string()));
                                        let recorded = unit.interface.deps.get(*d).cloned();
                                        if used.is_some() && recorded != used {
                                            push(&mut rep, "build.recorded-hash-differs-from-interface-used", format!("package {} records {:?} for {} but was built against {:?}; history {:?}", pkg.name, recorded, d, used, h2), &h2);
                                        }
                                    }
                                    // hash discipline
                                    if st.variants[*i] == 0 && dep_vers.iter().all(|(_, v)| !v.contains("#1")) {
                                        iface_v0.entry(*i).or_insert_with(|| unit.interface.interface_hash.clone());
                                    }
                                    next.arts[*i].iface = Some(std::sync::Arc::new(ij));
                                    next.arts[*i].core = Some(std::sync::Arc::new(cj));
                                    next.arts[*i].tampered = false;
                                    next.arts[*i].m_iface = Some(self_ver.clone());
                                    next.arts[*i].m_core = Some((self_ver, dep_vers, st.variants[*i]));
                                }
                                Ok(Err(e)) => {
                                    if indirect && *i == 0 && describe_err(&e).0 == "typer" {
                                        // naming the fields of a struct of a package that is not imported may be refused
                                        rep.tag("main-using-an-indirect-struct:rejected");
                                    } else if deps_ok {
                                        push(&mut rep, "build.failed-although-dependencies-present", format!("{:?} after {:?}", describe_err(&e), h2), &h2);
                                    }
                                }
                                Err(p) => push(&mut rep, "build.panic", normalise_msg(&crate::oracle::panic_message(p)), &h2),
                            }
                        } else {
                            let r = catch_unwind(AssertUnwindSafe(|| check_package(inputs(&w.root, &pkg, &w.out))));
                            match r {
                                Ok(Ok(unit)) => {
                                    if !deps_ok {
                                        push(&mut rep, "check.succeeded-without-dependency-interface", format!("after {:?}", h2), &h2);
                                    }
                                    for d in &w.g[*i].1 {
                                        let used = st.arts[w.idx(d)].iface.as_ref().and_then(|t| serde_json::from_str::<Value>(t).ok()).and_then(|v| v["interface_hash"].as_str().map(|x| x.to_string()));
                                        let recorded = unit.deps.get(*d).cloned();
                                        if used.is_some() && recorded != used {
                                            push(&mut rep, "check.recorded-hash-differs-from-interface-used", format!("package {} records {:?} for {} but was checked against {:?}; history {:?}", pkg.name, recorded, d, used, h2), &h2);
                                        }
                                    }
                                    next.arts[*i].iface = Some(std::sync::Arc::new(serde_json::to_string_pretty(&unit).unwrap()));
                                    next.arts[*i].m_iface = Some(self_ver);
                                }
                                Ok(Err(e)) => {
                                    if deps_ok {
                                        push(&mut rep, "check.failed-although-dependencies-present", format!("{:?} after {:?}", describe_err(&e), h2), &h2);
                                    }
                                }
                                Err(p) => push(&mut rep, "check.panic", normalise_msg(&crate::oracle::panic_message(p)), &h2),
                            }
                        }
                    }
                    Act::Tamper(i) => {
                        h2.push(format!("tamper({})", w.g[*i].0));
                        let mut changed = false;
                        if let Some(core_text) = &st.arts[*i].core {
                            if let Ok(mut cv) = serde_json::from_str::<Value>(core_text) {
                                for d in &w.g[*i].1 {
                                    let dep_hash = st.arts[w.idx(d)].core.as_ref().and_then(|t| serde_json::from_str::<Value>(t).ok()).and_then(|v| v["interface"]["interface_hash"].as_str().map(|x| x.to_string()));
                                    if let (Some(h), Some(cur)) = (dep_hash, cv["deps"][*d].as_str().map(|x| x.to_string())) {
                                        if h != cur {
                                            cv["deps"][*d] = json!(h);
                                            changed = true;
                                        }
                                    }
                                }
                                if changed {
                                    next.arts[*i].core = Some(std::sync::Arc::new(serde_json::to_string_pretty(&cv).unwrap()));
                                    next.arts[*i].tampered = true;
                                }
                            }
                        }
                        if !changed {
                            continue;
                        }
                        // the model is unchanged: the package is as stale as before, so link must still fail
                    }
                    Act::Link => {
                        h2.push("link".to_string());
                        w.restore(&st);
                        // model prediction
                        let all_cores = st.arts.iter().all(|a| a.m_core.is_some());
                        let fresh = all_cores
                            && (0..n).all(|i| {
                                let (_, deps, _) = st.arts[i].m_core.as_ref().unwrap();
                                deps.iter().all(|(d, v)| &st.arts[w.idx(d)].m_core.as_ref().unwrap().0 == v)
                            });
                        if all_cores && !fresh {
                            stale_states += 1;
                        }
                        let r = catch_unwind(AssertUnwindSafe(|| {
                            let mut units = Vec::new();
                            for (p, _) in &w.g {
                                units.push(read_core(&w.out.join(format!("{}.core", p)))?);
                            }
                            link_cores(units)
                        }));
                        match r {
                            Ok(Ok(linked)) => {
                                links_ok += 1;
                                if !fresh {
                                    push(&mut rep, "link.succeeded-with-stale-package", format!("history {:?}", h2), &h2);
                                } else {
                                    let go = linked.go.to_pretty(&linked.goenv, 120);
                                    match run_go(&go, FUEL) {
                                        Ok(o) => {
                                            if lossy(&o.stdout) != w.expected(&st) {
                                                push(&mut rep, "link.output-differs-from-built-sources", format!("expected {:?} got {:?} after {:?}", w.expected(&st), lossy(&o.stdout), h2), &h2);
                                            }
                                        }
                                        Err(m) => {
                                            if !m.starts_with("machinery") {
                                                push(&mut rep, "link.go-invalid", m, &h2);
                                            }
                                        }
                                    }
                                }
                            }
                            Ok(Err(_)) => {
                                links_fail += 1;
                                // (hashes pasted into a .core file need not be those of what it was built
                                // against: only untouched artifacts promise that fresh means linkable)
                                if fresh && !st.arts.iter().any(|a| a.tampered) {
                                    push(&mut rep, "link.failed-although-all-fresh", format!("history {:?}", h2), &h2);
                                }
                            }
                            Err(p) => push(&mut rep, "link.panic", normalise_msg(&crate::oracle::panic_message(p)), &h2),
                        }
                    }
                }
                let k = key(&next);
                if seen.insert(k) {
                    frontier.push_back((next, h2));
                }
            }
        }
        // direct hash discipline: v0 vs body-only vs interface edit of the leaf-most library
        {
            let leaf = n - 1;
            let mut hashes = Vec::new();
            for v in 0..3u8 {
                let mut st = St { variants: vec![0; n], arts: vec![Art { iface: None, core: None, m_iface: None, m_core: None, tampered: false }; n] };
                st.variants[leaf] = v;
                w.restore(&st);
                match catch_unwind(AssertUnwindSafe(|| check_package(inputs(&w.root, &w.pkg(leaf), &w.out)))) {
                    Ok(Ok(u)) => hashes.push(Some(u.interface_hash)),
                    _ => hashes.push(None),
                }
            }
            if let (Some(h0), Some(h1)) = (&hashes[0], &hashes[1]) {
                if h0 != h1 {
                    push(&mut rep, "hash.body-only-edit-changed-interface-hash", format!("{} vs {}", h0, h1), &vec![]);
                }
            }
            match (&hashes[0], &hashes[2]) {
                (Some(h0), Some(h2)) => {
                    if h0 == h2 {
                        push(&mut rep, "hash.interface-edit-kept-interface-hash", format!("edit kind {}", kind), &vec![]);
                    }
                }
                _ => rep.tag("machinery:variant-does-not-typecheck"),
            }
        }
        rep.states = seen.len() as u64;
        rep.transitions = transitions;
        rep.sub_evaluations = transitions;
        rep.tag(format!("links-ok:{}", links_ok));
        rep.tag(format!("links-failed:{}", links_fail));
        rep.tag(format!("stale-link-states:{}", stale_states));
        if stale_states > 0 {
            rep.nontrivial_key = Some(site.clone());
        }
        for k in seen.iter().take(2000) {
            rep.more_keys.push(fnv(&format!("{}{}", site, k)));
        }
        rep.outcome = Some(format!("{}:{}:{}", site, links_ok, links_fail));
        rep.sample = Some(json!({"graph": gname, "edit": kind, "depth": depth_max, "states": seen.len(), "transitions": transitions, "links_ok": links_ok, "links_failed": links_fail, "stale_link_states": stale_states}));
        rep
    }
}

// ------------------------------------------------------------------ artifact corruption

fn leaves(v: &Value, path: &mut Vec<String>, out: &mut Vec<(Vec<String>, Value)>) {
    match v {
        Value::Object(m) => {
            for (k, x) in m {
                path.push(k.clone());
                out.push((path.clone(), Value::Null)); // key deletion marker
                leaves(x, path, out);
                path.pop();
            }
        }
        Value::Array(a) => {
            for (i, x) in a.iter().enumerate() {
                path.push(i.to_string());
                leaves(x, path, out);
                path.pop();
            }
            if !a.is_empty() {
                path.push("#dup".into());
                out.push((path.clone(), Value::Null));
                path.pop();
                path.push("#drop".into());
                out.push((path.clone(), Value::Null));
                path.pop();
            }
        }
        leaf => out.push((path.clone(), leaf.clone())),
    }
}

fn mutate(root: &Value, path: &[String], leaf: &Value) -> Vec<Value> {
    fn at<'a>(v: &'a mut Value, path: &[String]) -> Option<&'a mut Value> {
        let mut cur = v;
        for p in path {
            cur = match cur {
                Value::Object(m) => m.get_mut(p)?,
                Value::Array(a) => a.get_mut(p.parse::<usize>().ok()?)?,
                _ => return None,
            };
        }
        Some(cur)
    }
    let mut out = Vec::new();
    let last = path.last().map(|s| s.as_str()).unwrap_or("");
    if last == "#dup" || last == "#drop" {
        let mut r = root.clone();
        if let Some(Value::Array(a)) = at(&mut r, &path[..path.len() - 1]) {
            if last == "#dup" {
                let f = a[0].clone();
                a.push(f);
            } else {
                a.pop();
            }
            out.push(r);
        }
        return out;
    }
    if leaf.is_null() {
        // either a real null leaf or a key-deletion marker
        let mut r = root.clone();
        if let Some(Value::Object(m)) = at(&mut r, &path[..path.len() - 1]) {
            if m.remove(last).is_some() {
                out.push(r);
            }
        }
        return out;
    }
    let variants: Vec<Value> = match leaf {
        Value::Number(nm) => {
            if let Some(i) = nm.as_u64() {
                vec![json!(i + 1), json!(i.saturating_sub(1))]
            } else if let Some(i) = nm.as_i64() {
                vec![json!(i + 1)]
            } else {
                vec![json!(nm.as_f64().unwrap_or(0.0) + 1.0)]
            }
        }
        Value::String(s) => vec![json!(format!("{}x", s)), json!(if s.len() > 1 { s[1..].to_string() } else { "y".to_string() })],
        Value::Bool(b) => vec![json!(!b)],
        _ => vec![],
    };
    for nv in variants {
        let mut r = root.clone();
        if let Some(slot) = at(&mut r, path) {
            if *slot != nv {
                *slot = nv;
                out.push(r);
            }
        }
    }
    out
}

fn corruption(case: &Value, ctx: &mut Ctx) -> Report {
    let mut rep = Report::default();
    let gname = case["graph"].as_str().unwrap();
    let target = case["target"].as_str().unwrap();
    let w = World { g: graph(gname), kind: "fn-added", root: ctx.scratch.fresh_dir("corr-src"), out: ctx.scratch.fresh_dir("corr-out"), indirect: false };
    let n = w.g.len();
    let st = St { variants: vec![0; n], arts: vec![Art { iface: None, core: None, m_iface: None, m_core: None, tampered: false }; n] };
    w.restore(&st);
    // build everything bottom-up
    let mut files: BTreeMap<String, String> = BTreeMap::new();
    for i in (0..n).rev() {
        let pkg = w.pkg(i);
        match build_package(inputs(&w.root, &pkg, &w.out)) {
            Ok(u) => {
                files.insert(format!("{}.interface", pkg.name), write_interface(&w.out, &u.interface));
                files.insert(format!("{}.core", pkg.name), write_core(&w.out, &u));
            }
            Err(_) => {
                rep.tag("machinery:corruption-base-build-failed");
                return rep;
            }
        }
    }
    let link_all = |out: &Path, g: &Vec<(&'static str, Vec<&'static str>)>| -> Result<String, String> {
        let r = catch_unwind(AssertUnwindSafe(|| {
            let mut units = Vec::new();
            for (p, _) in g {
                units.push(read_core(&out.join(format!("{}.core", p)))?);
            }
            link_cores(units)
        }));
        match r {
            Ok(Ok(l)) => Ok(l.go.to_pretty(&l.goenv, 120)),
            Ok(Err(e)) => Err(format!("rejected: {}", describe_err(&e).1)),
            Err(p) => Err(format!("panic: {}", normalise_msg(&crate::oracle::panic_message(p)))),
        }
    };
    let base_go = match link_all(&w.out, &w.g) {
        Ok(g) => g,
        Err(_) => {
            rep.tag("machinery:corruption-base-link-failed");
            return rep;
        }
    };
    let victim = "A";
    let fname = format!("{}.{}", victim, target);
    let original: Value = serde_json::from_str(&files[&fname]).unwrap();
    let mut ls = Vec::new();
    leaves(&original, &mut Vec::new(), &mut ls);
    let mut count = 0u64;
    let mut rejected = 0u64;
    let mut harmless = 0u64;
    let mut reported: HashSet<String> = HashSet::new();
    let mut reject_samples: Vec<String> = Vec::new();
    let mut reject_cats: BTreeMap<String, u64> = BTreeMap::new();
    let mut other_samples: Vec<String> = Vec::new();
    for (path, leaf) in &ls {
        for mutated in mutate(&original, path, leaf) {
            count += 1;
            rep.more_keys.push(fnv(&format!("{}{:?}{}", fname, path, mutated)));
            std::fs::write(w.out.join(&fname), serde_json::to_string_pretty(&mutated).unwrap()).unwrap();
            // how the mutated artifact is consumed: an interface is loaded by building the dependent (Main);
            // a core is loaded by read_core + link
            let verdict: Result<String, String> = if target == "interface" {
                let pkg = w.pkg(0);
                match catch_unwind(AssertUnwindSafe(|| build_package(inputs(&w.root, &pkg, &w.out)))) {
                    Ok(Ok(u)) => Ok(serde_json::to_string(&u.core_ir).unwrap()),
                    Ok(Err(e)) => Err(format!("rejected: {}", describe_err(&e).1)),
                    Err(p) => Err(format!("panic: {}", normalise_msg(&crate::oracle::panic_message(p)))),
                }
            } else {
                link_all(&w.out, &w.g)
            };
            let top = path.first().cloned().unwrap_or_default();
            match verdict {
                Err(m) if m.starts_with("panic") => {
                    if reported.insert(format!("panic:{}", top)) {
                        for p in ["C15", "C04"] {
                            rep.findings.push(Finding { property: p, class: "artifact.panic".into(), site: format!("file={};field={};msg={}", target, top, m), detail: format!("mutating {:?}: {}", path, m), replay: json!({"kind": "corruption", "file": fname, "path": path, "mutated": mutated}) });
                        }
                    }
                }
                Err(m) => {
                    rejected += 1;
                    let cat = if m.contains("failed to parse") { "parse" } else if m.contains("failed validation") { "validation" } else if m.contains("interface_hash") { "hash" } else { "other" };
                    *reject_cats.entry(cat.to_string()).or_insert(0u64) += 1;
                    if cat == "other" && other_samples.len() < 5 {
                        other_samples.push(format!("{:?}: {}", path, m.chars().take(200).collect::<String>()));
                    }
                    if reject_samples.len() < 12 && !reject_samples.iter().any(|x: &String| x.ends_with(&m.chars().rev().take(50).collect::<String>().chars().rev().collect::<String>())) {
                        reject_samples.push(format!("{:?}: {}", path, m.chars().take(160).collect::<String>()));
                    }
                }
                Ok(result) => {
                    // accepted: must be semantically identical to the original
                    let same = if target == "interface" {
                        // Main built against the altered interface must produce the same core
                        let base_main: Value = serde_json::from_str(&files["Main.core"]).unwrap();
                        serde_json::to_string(&base_main["core_ir"]).unwrap() == result
                    } else {
                        result == base_go
                    };
                    if same {
                        harmless += 1;
                    } else if reported.insert(format!("accepted:{}", top)) {
                        rep.findings.push(Finding {
                            property: "C15",
                            class: "artifact.altered-file-accepted".into(),
                            site: format!("file={};field={}", target, top),
                            detail: format!("mutating {:?} of {} was accepted and changed the result", path, fname),
                            replay: json!({"kind": "corruption", "file": fname, "path": path, "mutated_leaf": leaf}),
                        });
                    }
                }
            }
        }
    }
    // crash points of a write: every prefix of the file (all cut points in the first and last 256 bytes, every
    // 61st in between), and a torn overwrite - the first k bytes of the file followed by the rest of another
    // version of it (the artifact of the interface-changing variant), k on the same grid. The loader must
    // refuse the file or read exactly one of the two complete versions.
    {
        let newer = &files[&fname];
        let older: String = {
            let w2 = World { g: graph(gname), kind: "fn-added", root: ctx.scratch.fresh_dir("corr-src2"), out: ctx.scratch.fresh_dir("corr-out2"), indirect: false };
            let mut st2 = st.clone();
            let ai = w2.idx(victim);
            st2.variants[ai] = 2;
            w2.restore(&st2);
            // dependencies of the victim first
            let mut text = String::new();
            for i in (0..n).rev() {
                let pkg = w2.pkg(i);
                if let Ok(u) = build_package(inputs(&w2.root, &pkg, &w2.out)) {
                    write_interface(&w2.out, &u.interface);
                    let c = write_core(&w2.out, &u);
                    if pkg.name == victim {
                        text = if target == "interface" { serde_json::to_string_pretty(&u.interface).unwrap() } else { c };
                    }
                }
            }
            text
        };
        let grid = |len: usize| -> Vec<usize> { (0..len).filter(|k| *k < 256 || *k + 256 >= len || k % 61 == 0).collect() };
        let mut torn: Vec<(String, String)> = Vec::new();
        for k in grid(newer.len()) {
            if newer.is_char_boundary(k) {
                torn.push((format!("prefix-of-{}-bytes", k), newer[..k].to_string()));
            }
        }
        if !older.is_empty() && older != *newer {
            for k in grid(newer.len().min(older.len())) {
                if newer.is_char_boundary(k) && older.is_char_boundary(k) {
                    torn.push((format!("first-{}-bytes-then-the-other-version", k), format!("{}{}", &newer[..k], &older[k..])));
                }
            }
        } else {
            rep.tag("machinery:no-second-version-for-torn-writes");
        }
        let other_go: Option<String> = None;
        let _ = other_go;
        for (what, content) in torn {
            count += 1;
            std::fs::write(w.out.join(&fname), &content).unwrap();
            let verdict: Result<String, String> = if target == "interface" {
                let pkg = w.pkg(0);
                match catch_unwind(AssertUnwindSafe(|| build_package(inputs(&w.root, &pkg, &w.out)))) {
                    Ok(Ok(u)) => Ok(serde_json::to_string(&u.core_ir).unwrap()),
                    Ok(Err(e)) => Err(format!("rejected: {}", describe_err(&e).1)),
                    Err(p) => Err(format!("panic: {}", normalise_msg(&crate::oracle::panic_message(p)))),
                }
            } else {
                link_all(&w.out, &w.g)
            };
            match verdict {
                Err(m) if m.starts_with("panic") => {
                    if reported.insert(format!("torn-panic:{}", m)) {
                        for p in ["C15", "C04"] {
                            rep.findings.push(Finding { property: p, class: "artifact.panic".into(), site: format!("file={};torn-write;msg={}", target, m), detail: format!("{}: {}", what, m), replay: json!({"kind": "corruption", "file": fname, "torn": what, "content": content}) });
                        }
                    }
                }
                Err(_) => {
                    rejected += 1;
                    rep.tag("torn-write:rejected");
                }
                Ok(_) => {
                    // accepted: the content must be one of the two complete versions
                    if content == *newer || content == older {
                        harmless += 1;
                        rep.tag("torn-write:a-complete-version");
                    } else if reported.insert("torn-accepted".to_string()) {
                        rep.findings.push(Finding {
                            property: "C15",
                            class: "artifact.torn-file-accepted".into(),
                            site: format!("file={};torn-write", target),
                            detail: format!("{} of {} was accepted", what, fname),
                            replay: json!({"kind": "corruption", "file": fname, "torn": what, "content": content}),
                        });
                    }
                }
            }
        }
    }
    // restore and version checks
    std::fs::write(w.out.join(&fname), &files[&fname]).unwrap();
    // "written by another format version": the version field differs and the file is otherwise
    // self-consistent (hashes recomputed the way that other compiler would have written them);
    // also the plain edit of the field alone
    let rehash = |iface: &Value| -> Option<String> {
        let u: compiler::artifact::InterfaceUnit = serde_json::from_value(iface.clone()).ok()?;
        Some(u.compute_hash())
    };
    let mut versioned: Vec<(String, Value)> = Vec::new();
    for field in ["format_version", "compiler_abi"] {
        for newv in [0u32, 2, 99] {
            let mut m = original.clone();
            m[field] = json!(newv);
            versioned.push((format!("{}={};plain-edit", field, newv), m.clone()));
            if target == "interface" {
                if let Some(h) = rehash(&m) {
                    m["interface_hash"] = json!(h);
                    versioned.push((format!("{}={};self-consistent", field, newv), m));
                }
            } else {
                // the embedded interface written by the other version as well
                let mut m2 = original.clone();
                m2["interface"][field] = json!(newv);
                if let Some(h) = rehash(&m2["interface"]) {
                    m2["interface"]["interface_hash"] = json!(h);
                    versioned.push((format!("interface.{}={};self-consistent", field, newv), m2.clone()));
                    m2[field] = json!(newv);
                    versioned.push((format!("{}+interface.{}={};self-consistent", field, field, newv), m2));
                }
            }
        }
    }
    for (what, m) in versioned {
        count += 1;
        std::fs::write(w.out.join(&fname), serde_json::to_string_pretty(&m).unwrap()).unwrap();
        let accepted = if target == "interface" {
            matches!(catch_unwind(AssertUnwindSafe(|| build_package(inputs(&w.root, &w.pkg(0), &w.out)))), Ok(Ok(_)))
        } else {
            // read_core is the loading step; a later hash comparison at link time is a different check
            matches!(catch_unwind(AssertUnwindSafe(|| read_core(&w.out.join(&fname)))), Ok(Ok(_)))
        };
        if accepted {
            rep.tag("version:accepted");
            rep.findings.push(Finding {
                property: "C15",
                class: "artifact.other-format-version-accepted".into(),
                site: format!("file={};{}", target, what),
                detail: format!("{} with {} was accepted", fname, what),
                replay: json!({"kind": "corruption", "file": fname, "version_edit": what, "content": m}),
            });
        } else {
            rep.tag("version:rejected");
            rejected += 1;
        }
    }
    std::fs::write(w.out.join(&fname), &files[&fname]).unwrap();
    rep.sub_evaluations = count;
    rep.states = count;
    rep.transitions = count;
    rep.tag(format!("mutations-rejected:{}", rejected));
    rep.tag(format!("mutations-harmless:{}", harmless));
    rep.outcome = Some(format!("{}:{}:{}", fname, rejected, harmless));
    rep.sample = Some(json!({"file": fname, "leaves": ls.len(), "mutations": count, "rejected": rejected, "accepted_but_identical": harmless, "rejection_samples": reject_samples, "rejection_categories": reject_cats, "other_rejections": other_samples}));
    rep
}
