//! C09 (schedules): `go e` starts exactly one concurrent activation and the spawner continues.
//! For small programs with 1–2 goroutines the set of observable outcomes of the emitted Go over ALL
//! interleavings (controlled scheduler inside the Go interpreter, yielding at every Ref operation,
//! print and loop back-edge) must equal that of the reference semantics explored the same way.

use crate::drive::*;
use crate::families::common::*;
use crate::oracle::*;
use crate::sched;
use crate::ug::ast::*;
use crate::ug::build::*;
use crate::ug::print;
use serde_json::{Value, json};
use std::collections::BTreeSet;

pub const PROGRAMS: [&str; 12] = [
    "racy-read", "spin-wait", "lost-update", "print-race", "capture-by-value", "nested-go", "two-workers", "spawner-continues",
    "go-in-loop", "flag-handshake", "no-wait", "ref-in-struct",
];

fn rget(r: VarId) -> E {
    bi("ref_get", vec![v(r)])
}
fn rset(r: VarId, e: E) -> E {
    bi("ref_set", vec![v(r), e])
}
fn go_(body: E) -> E {
    E::Go(Box::new(E::Closure(vec![], Box::new(body))))
}
fn spin_until(r: VarId, n: i128) -> E {
    E::While(Box::new(bin(BinOp::Lt, rget(r), int(n))), Box::new(block(vec![], Some(E::Unit))))
}

pub fn build(name: &str) -> Program {
    let mut n = Names::new();
    let mut items: Vec<Item> = Vec::new();
    let mut b: Vec<Stmt> = Vec::new();
    match name {
        "racy-read" => {
            let r = n.fresh("r");
            b.push(let_(r, bi("ref", vec![int(0)])));
            b.push(st(go_(block(vec![st(rset(r, int(1)))], None))));
            b.push(st(println(i2s(rget(r)))));
        }
        "spin-wait" => {
            let sig = n.fresh("signal");
            let p = n.fresh("s");
            items.push(fn_def("child", vec![(p, Ty::Ref(Box::new(Ty::i32())))], Some(Ty::Unit), block(vec![st(println(s("child")))], Some(rset(p, int(1))))));
            b.push(let_(sig, bi("ref", vec![int(0)])));
            b.push(st(go_(block(vec![], Some(call("child", vec![v(sig)]))))));
            b.push(st(spin_until(sig, 1)));
            b.push(st(println(s("main"))));
        }
        "lost-update" => {
            let r = n.fresh("r");
            let d = n.fresh("done");
            b.push(let_(r, bi("ref", vec![int(0)])));
            b.push(let_(d, bi("ref", vec![int(0)])));
            for _ in 0..2 {
                let t = n.fresh("t");
                b.push(st(go_(block(vec![let_(t, rget(r)), st(rset(r, add(v(t), int(1)))), st(rset(d, add(rget(d), int(1))))], None))));
            }
            // wait until at least one finished twice-incremented counter is visible, bounded by both
            b.push(st(spin_until(d, 1)));
            b.push(st(println(i2s(rget(r)))));
        }
        "print-race" => {
            b.push(st(go_(block(vec![st(println(s("g")))], None))));
            b.push(st(println(s("m"))));
        }
        "capture-by-value" => {
            let x = n.fresh("x");
            let d = n.fresh("done");
            b.push(let_(d, bi("ref", vec![int(0)])));
            b.push(let_(x, int(1)));
            b.push(st(go_(block(vec![st(println(i2s(v(x)))), st(rset(d, int(1)))], None))));
            let x2 = n.fresh_exact("x");
            b.push(let_(x2, int(2)));
            b.push(st(spin_until(d, 1)));
            b.push(st(println(i2s(v(x2)))));
        }
        "nested-go" => {
            let d = n.fresh("done");
            b.push(let_(d, bi("ref", vec![int(0)])));
            b.push(st(go_(block(
                vec![st(println(s("outer"))), st(go_(block(vec![st(println(s("inner"))), st(rset(d, add(rget(d), int(1))))], None))), st(rset(d, add(rget(d), int(1))))],
                None,
            ))));
            b.push(st(spin_until(d, 1)));
            b.push(st(println(s("main"))));
        }
        "two-workers" => {
            let d1 = n.fresh("d");
            let d2 = n.fresh("d");
            b.push(let_(d1, bi("ref", vec![int(0)])));
            b.push(let_(d2, bi("ref", vec![int(0)])));
            b.push(st(go_(block(vec![st(println(s("a"))), st(rset(d1, int(1)))], None))));
            b.push(st(go_(block(vec![st(println(s("b"))), st(rset(d2, int(1)))], None))));
            b.push(st(spin_until(d1, 1)));
            b.push(st(spin_until(d2, 1)));
            b.push(st(println(s("main"))));
        }
        "spawner-continues" => {
            let d = n.fresh("done");
            b.push(let_(d, bi("ref", vec![int(0)])));
            b.push(st(go_(block(vec![st(spin_until(d, 1)), st(println(s("released"))), st(rset(d, int(2)))], None))));
            // the spawner must get here although the goroutine cannot finish before it does
            b.push(st(println(s("spawner"))));
            b.push(st(rset(d, int(1))));
            b.push(st(spin_until(d, 2)));
            b.push(st(println(s("end"))));
        }
        "go-in-loop" => {
            let i = n.fresh("i");
            let d = n.fresh("done");
            b.push(let_(i, bi("ref", vec![int(0)])));
            b.push(let_(d, bi("ref", vec![int(0)])));
            let k = n.fresh("k");
            b.push(st(E::While(
                Box::new(bin(BinOp::Lt, rget(i), int(2))),
                Box::new(block(
                    vec![
                        let_(k, rget(i)),
                        st(go_(block(vec![st(println(add(s("w"), i2s(v(k))))), st(rset(d, add(rget(d), int(1))))], None))),
                        st(rset(i, add(rget(i), int(1)))),
                    ],
                    None,
                )),
            )));
            b.push(st(spin_until(d, 1)));
            b.push(st(println(s("main"))));
        }
        "flag-handshake" => {
            let a = n.fresh("a");
            let c = n.fresh("c");
            b.push(let_(a, bi("ref", vec![int(0)])));
            b.push(let_(c, bi("ref", vec![int(0)])));
            b.push(st(go_(block(vec![st(spin_until(a, 1)), st(println(s("pong"))), st(rset(c, int(1)))], None))));
            b.push(st(println(s("ping"))));
            b.push(st(rset(a, int(1))));
            b.push(st(spin_until(c, 1)));
            b.push(st(println(s("done"))));
        }
        "no-wait" => {
            let r = n.fresh("r");
            b.push(let_(r, bi("ref", vec![int(0)])));
            b.push(st(go_(block(vec![st(rset(r, int(1))), st(println(s("g1"))), st(rset(r, int(2)))], None))));
            b.push(st(println(i2s(rget(r)))));
            b.push(st(println(i2s(rget(r)))));
        }
        _ => {
            items.push(Item::Struct(StructDef { name: "Cell2".into(), generics: vec![], fields: vec![("slot".into(), Ty::Ref(Box::new(Ty::i32()))), ("tag".into(), Ty::i32())], derives: vec![] }));
            let c = n.fresh("cell");
            b.push(let_(c, E::StructLit("Cell2".into(), vec![("slot".into(), bi("ref", vec![int(0)])), ("tag".into(), int(7))], vec![])));
            b.push(st(go_(block(vec![st(bi("ref_set", vec![E::Field(Box::new(v(c)), "slot".into()), E::Field(Box::new(v(c)), "tag".into())]))], None))));
            b.push(st(println(i2s(bi("ref_get", vec![E::Field(Box::new(v(c)), "slot".into())])))));
        }
    }
    items.push(fn_def("main", vec![], Some(Ty::Unit), block(b, None)));
    Program::single(items, n.names.clone())
}

pub struct Schedules;

impl Family for Schedules {
    fn name(&self) -> &'static str {
        "schedules"
    }
    fn serves(&self) -> &'static [&'static str] {
        &["C09"]
    }
    fn level(&self) -> &'static str {
        "model_checking"
    }
    fn workers(&self) -> usize {
        12
    }
    fn case_timeout(&self, _tier: Tier) -> u64 {
        600
    }
    fn rule(&self) -> &'static str {
        "12 programs with a spawner and 1-2 `go` closures (racy read, spin-wait, lost update, print race, by-value capture, nested go, two workers, spawner continues, go in a loop, handshake, no wait, ref inside a struct); stateless DFS over every schedule of the emitted Go (run by the Go interpreter under a controlled scheduler) and of the reference semantics, yielding at every Ref operation, print and loop back-edge (quick: preemption bound 2; thorough: preemption bounds 2, 3, 4, 6, 8 and unbounded in turn, each capped at 50000 schedules per side - the largest bound that completes decides and is reported per program); oracle: equal sets of terminal observations (stdout, end); states = scheduling points visited, transitions = schedules executed; non-trivial = programs with > 1 distinct outcome"
    }
    fn cases(&self, _tier: Tier) -> Box<dyn Iterator<Item = Value> + '_> {
        Box::new(PROGRAMS.iter().map(|p| json!({"program": p})))
    }
    fn run(&self, case: &Value, ctx: &mut Ctx) -> Report {
        let name = case["program"].as_str().unwrap();
        let prog = build(name);
        {
            let (cap, bounds): (u64, Vec<Option<u32>>) = if ctx.tier == Tier::Quick { (20_000, vec![Some(2)]) } else { (50_000, vec![Some(2), Some(3), Some(4), Some(6), Some(8), None]) };
            explore_program(name, &prog, ctx, cap, bounds)
        }
    }
}

/// Explore every schedule of one program on both sides (emitted Go under the Go interpreter, reference
/// semantics) and compare the sets of terminal observations. Shared by `schedules` and `goforms`.
pub fn explore_program(name: &str, prog: &Program, ctx: &mut Ctx, cap: u64, bounds: Vec<Option<u32>>) -> Report {
    {
        let mut rep = Report::default();
        let text = print::print_main(prog);
        // quick: preemption bound 2. thorough: the bound is iterated 2, 3, 4, ... and finally dropped; the
        // largest bound whose exploration of both sides completes under the cap is the one that decides
        // (a capped exploration never does), and it is reported.
        let fuel = 200_000;
        let path = ctx.scratch.single_path();
        let comp = match compile_at(&path, &text) {
            CompileOutcome::Ok(c) => c,
            CompileOutcome::Err(e) => {
                rep.tag("machinery:schedule-program-rejected");
                rep.sample = Some(json!({"program": name, "error": describe_err(&e).1}));
                return rep;
            }
            CompileOutcome::Panic(m) => {
                rep.findings.push(Finding { property: "C09", class: "compile.panic".into(), site: format!("program={}", name), detail: m, replay: json!({"kind": "schedules", "source": text}) });
                return rep;
            }
        };
        let go = go_text(&comp).unwrap_or_default();
        let gp = match crate::gosem::analyse(&go) {
            crate::gosem::GoVerdict::Ok(p) => p,
            other => {
                rep.findings.push(Finding {
                    property: "C09",
                    class: "go.invalid".into(),
                    site: format!("program={}", name),
                    detail: format!("{:?}", other).chars().take(300).collect(),
                    replay: json!({"kind": "schedules", "source": text}),
                });
                return rep;
            }
        };
        let go_points = std::cell::Cell::new(0u64);
        let mut run_go = |prefix: &[usize]| {
            let (r, trace, div) = sched::go_side::run_with_schedule(gp.clone(), fuel, prefix);
            go_points.set(go_points.get() + trace.len() as u64);
            let mut o = obs_of_go(&r);
            if div {
                o.end = NEnd::GoPanic("diverged".into());
            }
            (o, trace)
        };
        let mut decided: Option<(Option<u32>, sched::Exploration<Obs>, sched::Exploration<Obs>)> = None;
        let mut capped_at: Option<Option<u32>> = None;
        let ref_points = std::cell::Cell::new(0u64);
        let mut run_ref = |prefix: &[usize]| {
            let (r, trace, div) = sched::ref_side::run_with_schedule(prog, fuel, prefix);
            ref_points.set(ref_points.get() + trace.len() as u64);
            let mut o = obs_of_ref(&r);
            if div {
                o.end = NEnd::GoPanic("diverged".into());
            }
            (o, trace)
        };
        for bound in bounds {
            let g = sched::explore(&mut run_go, bound, cap);
            let r = sched::explore(&mut run_ref, bound, cap);
            if g.capped || r.capped {
                capped_at = Some(bound);
                if decided.is_none() {
                    decided = Some((bound, g, r));
                }
                break;
            }
            let closed = bound.is_none();
            decided = Some((bound, g, r));
            if closed {
                break;
            }
        }
        let (bound_used, ex_go, ex_ref) = decided.unwrap();
        rep.tag(format!("preemption-bound-completed:{}", match (ex_go.capped || ex_ref.capped, bound_used) { (true, _) => "none".to_string(), (false, Some(b)) => b.to_string(), (false, None) => "unbounded".to_string() }));
        if let Some(b) = capped_at {
            rep.tag(format!("cap-hit-at-bound:{}", b.map(|x| x.to_string()).unwrap_or_else(|| "unbounded".into())));
        }
        rep.states = go_points.get() + ref_points.get();
        rep.transitions = ex_go.schedules + ex_ref.schedules;
        rep.sub_evaluations = ex_go.schedules + ex_ref.schedules;
        let set_go: BTreeSet<Obs> = ex_go.outcomes.keys().cloned().collect();
        let set_ref: BTreeSet<Obs> = ex_ref.outcomes.keys().cloned().collect();
        let show = |s: &BTreeSet<Obs>| s.iter().map(|o| format!("{:?}/{}", lossy(&o.stdout), end_tag(&o.end))).collect::<Vec<_>>();
        rep.tag(format!("outcomes:{}", set_go.len()));
        if set_go.len() > 1 {
            rep.nontrivial_key = Some(name.to_string());
        }
        rep.outcome = Some(format!("{}:{:?}", name, show(&set_go)));
        if ex_go.capped || ex_ref.capped {
            rep.tag("machinery:schedule-cap-hit");
        } else if set_go != set_ref {
            let only_go: Vec<String> = show(&set_go.difference(&set_ref).cloned().collect());
            let only_ref: Vec<String> = show(&set_ref.difference(&set_go).cloned().collect());
            let witness = set_go.difference(&set_ref).next().and_then(|o| ex_go.outcomes.get(o)).map(|(_, p)| p.clone());
            rep.findings.push(Finding {
                property: "C09",
                class: "sched.outcome-sets-differ".into(),
                site: format!("program={}", name),
                detail: format!("only in emitted Go: {:?}; only in reference: {:?}", only_go, only_ref),
                replay: json!({"kind": "schedules", "program": name, "source": text, "go_schedule_witness": witness, "go_outcomes": show(&set_go), "ref_outcomes": show(&set_ref)}),
            });
        } else {
            rep.tag("outcome-sets-equal");
        }
        // replay determinism: the first schedule twice
        let (a, _) = run_go(&[]);
        let (b2, _) = run_go(&[]);
        if a != b2 {
            rep.tag("machinery:nondeterministic-replay");
        }
        rep.sample = Some(json!({"program": name, "source": text, "go_schedules": ex_go.schedules, "ref_schedules": ex_ref.schedules, "outcomes": show(&set_go), "max_choice_points": ex_go.max_choice_points}));
        rep
    }
}
