//! C04 / C03: type inference on unannotated closure parameters never diverges. Every application of
//! a polymorphic builtin (or of the parameter itself) to small argument expressions built from the
//! parameters: the occurs check must stop cyclic solutions (x = Ref[x], x = Vec[x], x = (x) -> y, …)
//! with a diagnostic; nothing may crash, overflow the stack or loop.

use crate::drive::*;
use crate::families::common::*;
use crate::oracle::*;
use serde_json::{Value, json};

const ATOMS: [&str; 10] = ["x", "y", "ref(x)", "ref_get(x)", "vec_new()", "(x, x)", "[x, x]", "x(x)", "0", "vec_push(x, y)"];

fn bodies() -> Vec<String> {
    let mut v = Vec::new();
    for a in ATOMS {
        for f in ["ref", "ref_get", "vec_len", "x", "y"] {
            v.push(format!("{}({})", f, a));
        }
        v.push(format!("{}.0", a));
        for b in ATOMS {
            for f in ["ref_set", "vec_push", "vec_get", "array_get", "x", "y"] {
                v.push(format!("{}({}, {})", f, a, b));
            }
            v.push(format!("{} == {}", a, b));
            v.push(format!("({}, {})", a, b));
            v.push(format!("[{}, {}]", a, b));
            v.push(format!("if true {{ {} }} else {{ {} }}", a, b));
            v.push(format!("array_set({}, 0, {})", a, b));
        }
    }
    v
}

pub struct Inference;

impl Family for Inference {
    fn name(&self) -> &'static str {
        "inference"
    }
    fn serves(&self) -> &'static [&'static str] {
        &["C04", "C03"]
    }
    fn crash_properties(&self) -> &'static [&'static str] {
        &["C04", "C03"]
    }
    fn case_timeout(&self, _tier: Tier) -> u64 {
        30
    }
    fn rule(&self) -> &'static str {
        "closures with unannotated parameters `|x| B`, `|x, y| B` and a let-bound `|x| B` applied to itself, where B ranges over every application of {ref, ref_get, ref_set, vec_len, vec_push, vec_get, array_get, array_set, ==, tuple, array, if, projection, the parameters themselves} to arguments from {x, y, ref(x), ref_get(x), vec_new(), (x,x), [x,x], x(x), 0, vec_push(x,y)} (1160 bodies x 10 frames: unapplied, two parameters, applied to itself, applied later to two functions / two vectors / two integers / two arrays of length 3 / an array and an index / a reference and an integer / two tuples); oracle: the compiler returns (acceptance or diagnostics) without panic, stack overflow or hang; an accepted program passes the IR checker and the Go checker. non-trivial = bodies the typer rejects; distinct = distinct source text"
    }
    fn cases(&self, _tier: Tier) -> Box<dyn Iterator<Item = Value> + '_> {
        let n = bodies().len();
        Box::new((0..n).flat_map(|i| (0..10).map(move |fr| json!({"body": i, "frame": fr}))))
    }
    fn run(&self, case: &Value, ctx: &mut Ctx) -> Report {
        let mut rep = Report::default();
        let body = &bodies()[case["body"].as_u64().unwrap() as usize];
        let text = match case["frame"].as_u64().unwrap() {
            0 => format!("fn main() {{\n    let f = |x| {};\n    ()\n}}\n", body),
            1 => format!("fn main() {{\n    let f = |x, y| {};\n    ()\n}}\n", body),
            2 => format!("fn main() {{\n    let y = 1;\n    let f = |x| {};\n    let g = f(f);\n    ()\n}}\n", body),
            // the parameter types are only fixed by a later application: to functions, to vectors, to integers
            3 => format!("fn inc(k: int32) -> int32 {{ k + 1 }}\nfn dec(k: int32) -> int32 {{ k - 1 }}\nfn main() {{\n    let f = |x, y| {};\n    let r = f(inc, dec);\n    ()\n}}\n", body),
            4 => format!("fn main() {{\n    let w: Vec[int32] = vec_new();\n    let f = |x, y| {};\n    let r = f(w, w);\n    ()\n}}\n", body),
            5 => format!("fn main() {{\n    let f = |x, y| {};\n    let r = f(1, 2);\n    ()\n}}\n", body),
            // … to arrays of a fixed length (the builtins' signatures only know the wildcard length), to an
            // array and an index, to a reference and an integer, to tuples
            6 => format!("fn main() {{\n    let a3 = [1, 2, 3];\n    let f = |x, y| {};\n    let r = f(a3, a3);\n    ()\n}}\n", body),
            7 => format!("fn main() {{\n    let a3 = [1, 2, 3];\n    let f = |x, y| {};\n    let r = f(a3, 1);\n    ()\n}}\n", body),
            8 => format!("fn main() {{\n    let c = ref(1);\n    let f = |x, y| {};\n    let r = f(c, 2);\n    ()\n}}\n", body),
            _ => format!("fn main() {{\n    let t = (1, true);\n    let f = |x, y| {};\n    let r = f(t, t);\n    ()\n}}\n", body),
        };
        let site = format!("body={};frame={}", body, case["frame"]);
        let replay = json!({"kind": "text", "text": text, "oracle": "total"});
        rep.sample = Some(json!({"source": text}));
        let path = ctx.scratch.single_path();
        match compile_at(&path, &text) {
            CompileOutcome::Ok(c) => {
                rep.tag("accepted");
                rep.outcome = Some("accepted".into());
                for (stage, msg) in crate::irck::check_all(&c) {
                    rep.tag(format!("irck:{}", stage));
                    rep.findings.push(Finding { property: "C03", class: format!("irck.{}", stage), site: format!("{};msg={}", site, normalise_msg(&msg)), detail: msg, replay: replay.clone() });
                }
                // what the typer lets through must also be valid Go (an ill-typed operator use that
                // inference resolves too late shows up here)
                if let Ok(go) = go_text(&c) {
                    if let crate::gosem::GoVerdict::Rejected(errs) = crate::gosem::analyse(&go) {
                        rep.tag("go:rejected");
                        for p in ["C03", "C04"] {
                            if p == "C04" {
                                continue;
                            }
                            rep.findings.push(Finding { property: p, class: format!("go.{}", errs[0].rule), site: format!("{};goerr={}", site, normalise_msg(&errs[0].msg)), detail: format!("line {}: {}", errs[0].line, errs[0].msg), replay: json!({"kind": "text", "text": text, "oracle": "total", "go_text": go}) });
                        }
                    }
                }
            }
            CompileOutcome::Err(e) => {
                let (stage, msg) = describe_err(&e);
                rep.tag(format!("rejected:{}", stage));
                rep.nontrivial_key = Some(text.clone());
                rep.outcome = Some(format!("rejected:{}:{}", stage, normalise_msg(&msg).chars().take(40).collect::<String>()));
                if e.diagnostics().is_empty() {
                    rep.findings.push(Finding { property: "C04", class: "rejected-without-diagnostic".into(), site, detail: stage.to_string(), replay });
                }
            }
            CompileOutcome::Panic(m) => {
                let m = normalise_msg(&m);
                rep.findings.push(Finding { property: "C04", class: "compile.panic".into(), site: format!("{};msg={}", site, m), detail: m, replay });
            }
        }
        rep
    }
}
