//! C08: closures keep their lexical meaning after lambda lifting. Capture × nesting × flow lattice.

use crate::drive::*;
use crate::families::common::*;
use crate::ug::ast::*;
use crate::ug::build::*;
use serde_json::{Value, json};

pub const CAPTURES: [&str; 10] = ["none", "param", "let", "patvar", "ref", "closure", "topfn", "string-let", "fn-param", "fn-alias"];
pub const FLOWS: [&str; 27] = [
    "nested-tuple", "tuple-of-holder-var", "tuple-of-call-result", "struct-field-second", "struct-field-third",
    "let-call", "rebind", "tuple-elem", "struct-field", "struct-field-direct", "array-elem", "ref-content", "vec-elem", "returned-from-fn",
    "returned-from-closure", "argument", "if-result", "match-result", "generic-apply", "argument-twice", "tuple-direct", "stored-then-passed",
    // the closure inside the value a function returns, at every depth of tuple nesting
    "returned-in-tuple", "returned-in-nested-tuple", "returned-in-nested-tuple-second", "returned-in-deep-tuple", "returned-in-tuple-via-fn",
];

fn returned(flow: &str) -> bool {
    flow.starts_with("returned-in-") || flow == "returned-from-fn"
}
pub const VARIANTS: [&str; 4] = ["plain", "shadow-after", "mutate-ref-both", "call-twice"];

fn fn_ty() -> Ty {
    Ty::Fn(vec![Ty::i32()], Box::new(Ty::i32()))
}

struct Cx {
    n: Names,
    items: Vec<Item>,
    /// function-typed parameter the enclosing function must declare (capture kind "fn-param")
    fn_param: Option<VarId>,
}

fn ensure_twice(cx: &mut Cx) {
    if !cx.items.iter().any(|i| matches!(i, Item::Fn(f) if f.name == "twice")) {
        let x = cx.n.fresh("x");
        cx.items.push(fn_def("twice", vec![(x, Ty::i32())], Some(Ty::i32()), bin(BinOp::Mul, v(x), int(2))));
    }
}

/// build the closure-creating part: returns (statements before creation, closure expression, statements after the call that
/// observe shared state, captured binder to shadow)
fn make_closure(cx: &mut Cx, caps: &[&str], param: VarId, outer_param: Option<VarId>) -> (Vec<Stmt>, E, Vec<Stmt>, Option<VarId>, Option<VarId>) {
    let mut pre = Vec::new();
    let mut post = Vec::new();
    let a = cx.n.fresh("a");
    let mut sum: E = v(a);
    let mut shadowable = None;
    let mut the_ref = None;
    let mut wrap_in_match: Option<(VarId, E)> = None;
    for c in caps {
        match *c {
            "none" => {}
            "param" => {
                sum = add(sum, v(param));
                shadowable = Some(param);
            }
            "let" => {
                let l = cx.n.fresh("l");
                pre.push(let_(l, T6::I32.probe(2)));
                sum = add(sum, v(l));
                shadowable = Some(l);
            }
            "string-let" => {
                let sl = cx.n.fresh("sl");
                pre.push(let_(sl, T6::Str.probe(4)));
                sum = add(sum, bi("string_len", vec![v(sl)]));
            }
            "patvar" => {
                let m = cx.n.fresh("m");
                wrap_in_match = Some((m, T6::I32.probe(3)));
                sum = add(sum, v(m));
            }
            "ref" => {
                let r = cx.n.fresh("r");
                pre.push(let_(r, bi("ref", vec![int(10)])));
                // the closure both reads and updates the shared cell
                sum = add(sum, bi("ref_get", vec![v(r)]));
                post.push(st(T6::I32.show(bi("ref_get", vec![v(r)]))));
                the_ref = Some(r);
            }
            "closure" => {
                let inner = cx.n.fresh("inner");
                let q = cx.n.fresh("q");
                let k = cx.n.fresh("k");
                pre.push(let_(k, T6::I32.probe(5)));
                pre.push(let_(inner, E::Closure(vec![(q, Some(Ty::i32()))], Box::new(add(v(q), v(k))))));
                sum = add(sum, E::Call(Box::new(v(inner)), vec![int(100)]));
            }
            "topfn" => {
                ensure_twice(cx);
                sum = add(sum, call("twice", vec![v(a)]));
            }
            "fn-param" => {
                // a function-typed parameter of the enclosing function, used in callee position only
                ensure_twice(cx);
                let hf = match cx.fn_param {
                    Some(h) => h,
                    None => {
                        let h = cx.n.fresh("hf");
                        cx.fn_param = Some(h);
                        h
                    }
                };
                sum = add(sum, E::Call(Box::new(v(hf)), vec![E::Call(Box::new(v(hf)), vec![v(a)])]));
            }
            "fn-alias" => {
                // a local alias of a top-level function, used in callee position only
                ensure_twice(cx);
                let fal = cx.n.fresh("fal");
                pre.push(let_(fal, E::FnRef("twice".to_string(), vec![])));
                sum = add(sum, E::Call(Box::new(v(fal)), vec![v(a)]));
            }
            _ => {}
        }
    }
    let mut body_stmts = vec![st(T6::Unit.probe(9))];
    if let Some(r) = the_ref {
        body_stmts.push(st(bi("ref_set", vec![v(r), add(bi("ref_get", vec![v(r)]), int(1))])));
    }
    let mut body = block(body_stmts, Some(sum));
    let _ = &mut body;
    if let Some(op) = outer_param {
        body = add_tail(body, v(op));
    }
    let clo = E::Closure(vec![(a, Some(Ty::i32()))], Box::new(body));
    if let Some((m, scrut)) = wrap_in_match {
        // the closure is created inside a match arm and escapes through the match result
        if !cx.items.iter().any(|i| matches!(i, Item::Enum(e) if e.name == "Opt")) {
            cx.items.push(Item::Enum(EnumDef { name: "Opt".into(), generics: vec![], variants: vec![("Non".into(), vec![]), ("Som".into(), vec![Ty::i32()])], derives: vec![] }));
        }
        let z = cx.n.fresh("z");
        let e = E::Match(
            Box::new(E::Ctor("Opt".into(), "Som".into(), false, vec![scrut], vec![])),
            vec![
                (Pat::Ctor("Opt".into(), "Som".into(), false, vec![Pat::Var(m)]), clo),
                (Pat::Ctor("Opt".into(), "Non".into(), false, vec![]), E::Closure(vec![(z, Some(Ty::i32()))], Box::new(v(z)))),
            ],
        );
        return (pre, e, post, shadowable, the_ref);
    }
    (pre, clo, post, shadowable, the_ref)
}

/// add `extra` to the tail expression of a block
fn add_tail(b: E, extra: E) -> E {
    match b {
        E::Block(stmts, Some(t)) => E::Block(stmts, Some(Box::new(add(*t, extra)))),
        other => other,
    }
}

pub fn build(caps: &[&str], flow: &str, variant: &str, nesting: usize) -> Option<Program> {
    let mut cx = Cx { n: Names::new(), items: Vec::new(), fn_param: None };
    cx.items = prelude(&mut cx.n);
    let p = cx.n.fresh("p");
    let outer_param = if nesting >= 2 { Some(cx.n.fresh("op")) } else { None };
    let (mut pre, clo, post, shadowable, the_ref) = make_closure(&mut cx, caps, p, outer_param);
    let c = cx.n.fresh("c");
    let mut b: Vec<Stmt> = Vec::new();
    b.append(&mut pre);
    // nesting 2: the closure is created by an enclosing closure and captures that closure's parameter
    let clo = match outer_param {
        Some(op) => {
            let outer = cx.n.fresh("outer");
            b.push(let_(outer, E::Closure(vec![(op, Some(Ty::i32()))], Box::new(block(vec![st(T6::Unit.probe(8))], Some(clo))))));
            E::Call(Box::new(v(outer)), vec![int(1000)])
        }
        None => clo,
    };
    let res = cx.n.fresh("res");
    let arg = |k: i128| T6::I32.probe(k);
    // flows that need the closure bound to `c` first
    let needs_c = !returned(flow);
    if needs_c {
        b.push(let_(c, clo.clone()));
        b.push(st(println(s("created"))));
    }
    match variant {
        "shadow-after" => {
            let sh = shadowable?;
            let again = cx.n.fresh_exact(&cx.n.names[sh as usize].clone());
            b.push(let_(again, int(9999)));
        }
        "mutate-ref-both" => {
            let r = the_ref?;
            b.push(st(bi("ref_set", vec![v(r), int(50)])));
        }
        _ => {}
    }
    let call_expr: E = match flow {
        "let-call" => E::Call(Box::new(v(c)), vec![arg(7)]),
        "rebind" => {
            let g = cx.n.fresh("g");
            b.push(let_(g, v(c)));
            E::Call(Box::new(v(g)), vec![arg(7)])
        }
        "tuple-elem" => {
            let t = cx.n.fresh("t");
            let g = cx.n.fresh("g");
            b.push(let_(t, E::Tuple(vec![v(c), int(1)])));
            b.push(let_(g, E::Proj(Box::new(v(t)), 0)));
            E::Call(Box::new(v(g)), vec![arg(7)])
        }
        "tuple-direct" => {
            let t = cx.n.fresh("t");
            b.push(let_(t, E::Tuple(vec![int(1), v(c)])));
            E::Call(Box::new(E::Proj(Box::new(v(t)), 1)), vec![arg(7)])
        }
        // (calling a function-typed field in place, `h.f(x)` or `(h.f)(x)`, is read as a method call by goml)
        "struct-field-direct" => return None,
        "struct-field" => {
            cx.items.push(Item::Struct(StructDef { name: "Holder".into(), generics: vec![], fields: vec![("f".into(), fn_ty()), ("n".into(), Ty::i32())], derives: vec![] }));
            let h = cx.n.fresh("h");
            b.push(let_(h, E::StructLit("Holder".into(), vec![("f".into(), v(c)), ("n".into(), int(1))], vec![])));
            if flow == "struct-field" {
                let g = cx.n.fresh("g");
                b.push(let_(g, E::Field(Box::new(v(h)), "f".into())));
                E::Call(Box::new(v(g)), vec![arg(7)])
            } else {
                E::Call(Box::new(E::Field(Box::new(v(h)), "f".into())), vec![arg(7)])
            }
        }
        "nested-tuple" | "tuple-of-holder-var" | "tuple-of-call-result" => {
            // the closure sits one level down inside the tuple that is built: a nested tuple literal, a
            // variable of tuple-of-closure type, or the result of a call returning such a tuple
            let t = cx.n.fresh("t");
            let g = cx.n.fresh("g");
            let inner_ty = Ty::Tuple(vec![fn_ty(), Ty::i32()]);
            let outer = match flow {
                "nested-tuple" => E::Tuple(vec![E::Tuple(vec![v(c), int(1)]), int(2)]),
                "tuple-of-holder-var" => {
                    let pr = cx.n.fresh("pr");
                    b.push(let_(pr, E::Tuple(vec![v(c), int(1)])));
                    E::Tuple(vec![v(pr), int(2)])
                }
                _ => {
                    let q = cx.n.fresh("q");
                    cx.items.push(fn_def("wrap_pair", vec![(q, fn_ty())], Some(inner_ty.clone()), E::Tuple(vec![v(q), int(1)])));
                    E::Tuple(vec![call("wrap_pair", vec![v(c)]), int(2)])
                }
            };
            b.push(let_t(t, Ty::Tuple(vec![inner_ty.clone(), Ty::i32()]), outer));
            let inner = cx.n.fresh("inner");
            b.push(let_t(inner, inner_ty, E::Proj(Box::new(v(t)), 0)));
            b.push(let_(g, E::Proj(Box::new(v(inner)), 0)));
            E::Call(Box::new(v(g)), vec![arg(7)])
        }
        "struct-field-second" | "struct-field-third" => {
            // the function-typed field is not the first field of the struct
            let mut fields = vec![("n".to_string(), Ty::i32())];
            let mut lit = vec![("n".to_string(), int(1))];
            if flow == "struct-field-third" {
                fields.push(("t".into(), Ty::Str));
                lit.push(("t".into(), s("x")));
            }
            fields.push(("f".into(), fn_ty()));
            lit.push(("f".into(), v(c)));
            cx.items.push(Item::Struct(StructDef { name: "HolderN".into(), generics: vec![], fields, derives: vec![] }));
            let h = cx.n.fresh("h");
            let g = cx.n.fresh("g");
            b.push(let_(h, E::StructLit("HolderN".into(), lit, vec![])));
            b.push(st(T6::I32.show(E::Field(Box::new(v(h)), "n".into()))));
            b.push(let_(g, E::Field(Box::new(v(h)), "f".into())));
            E::Call(Box::new(v(g)), vec![arg(7)])
        }
        "array-elem" => {
            let arr = cx.n.fresh("arr");
            let g = cx.n.fresh("g");
            b.push(let_(arr, E::Array(vec![v(c), v(c)])));
            b.push(let_(g, bi("array_get", vec![v(arr), int(1)])));
            E::Call(Box::new(v(g)), vec![arg(7)])
        }
        "ref-content" => {
            let rc = cx.n.fresh("rc");
            let g = cx.n.fresh("g");
            b.push(let_(rc, bi("ref", vec![v(c)])));
            b.push(let_(g, bi("ref_get", vec![v(rc)])));
            E::Call(Box::new(v(g)), vec![arg(7)])
        }
        "vec-elem" => {
            let w = cx.n.fresh("w");
            let g = cx.n.fresh("g");
            b.push(let_t(w, Ty::Vec(Box::new(fn_ty())), bi("vec_new", vec![])));
            b.push(let_(g, bi("vec_get", vec![bi("vec_push", vec![v(w), v(c)]), int(0)])));
            E::Call(Box::new(v(g)), vec![arg(7)])
        }
        "returned-from-fn" | "returned-in-tuple" | "returned-in-nested-tuple" | "returned-in-nested-tuple-second" | "returned-in-deep-tuple" | "returned-in-tuple-via-fn" => {
            // only captures that live inside the maker make sense here: rebuild inside `mk`
            if caps.iter().any(|c| matches!(*c, "ref")) && variant == "mutate-ref-both" {
                return None;
            }
            let mut cx2 = Cx { n: std::mem::take(&mut cx.n), items: std::mem::take(&mut cx.items), fn_param: None };
            let q = cx2.n.fresh("q");
            if nesting >= 2 {
                return None;
            }
            let (pre2, clo2, _post2, _, _) = make_closure(&mut cx2, caps, q, None);
            let mut mk_params = vec![(q, Ty::i32())];
            let mut mk_args = vec![arg(6)];
            if let Some(hf2) = cx2.fn_param {
                mk_params.push((hf2, fn_ty()));
                mk_args.push(E::FnRef("twice".to_string(), vec![]));
            }
            // the shape of what `mk` returns around the closure, and the path of projections to it
            let pair = |a: Ty, b: Ty| Ty::Tuple(vec![a, b]);
            let (ret_ty, wrap, path): (Ty, Box<dyn Fn(E) -> E>, Vec<usize>) = match flow {
                "returned-in-tuple" | "returned-in-tuple-via-fn" => (pair(fn_ty(), Ty::i32()), Box::new(|c: E| E::Tuple(vec![c, int(1)])), vec![0]),
                "returned-in-nested-tuple" => (pair(pair(fn_ty(), Ty::i32()), Ty::i32()), Box::new(|c: E| E::Tuple(vec![E::Tuple(vec![c, int(1)]), int(2)])), vec![0, 0]),
                "returned-in-nested-tuple-second" => (pair(Ty::i32(), pair(Ty::i32(), fn_ty())), Box::new(|c: E| E::Tuple(vec![int(2), E::Tuple(vec![int(1), c])])), vec![1, 1]),
                "returned-in-deep-tuple" => (
                    pair(pair(pair(fn_ty(), Ty::i32()), Ty::i32()), Ty::i32()),
                    Box::new(|c: E| E::Tuple(vec![E::Tuple(vec![E::Tuple(vec![c, int(1)]), int(2)]), int(3)])),
                    vec![0, 0, 0],
                ),
                _ => (fn_ty(), Box::new(|c: E| c), vec![]),
            };
            cx2.items.push(fn_def("mk", mk_params.clone(), Some(ret_ty.clone()), block(pre2, Some(wrap(clo2)))));
            // a second function that returns the first one's result inside another tuple
            let (maker, ret_ty, path) = if flow == "returned-in-tuple-via-fn" {
                let params2: Vec<(VarId, Ty)> = mk_params.iter().map(|(_, t)| (cx2.n.fresh("m"), t.clone())).collect();
                let fwd: Vec<E> = params2.iter().map(|(id, _)| v(*id)).collect();
                let outer_ty = pair(ret_ty.clone(), Ty::Str);
                cx2.items.push(fn_def("mk_labelled", params2, Some(outer_ty.clone()), E::Tuple(vec![call("mk", fwd), s("label")])));
                ("mk_labelled", outer_ty, vec![0, 0])
            } else {
                ("mk", ret_ty, path)
            };
            cx.n = cx2.n;
            cx.items = cx2.items;
            // the statements of `pre` already ran in this function too; harmless (they only print probes)
            let mut cur = cx.n.fresh("g");
            b.push(let_t(cur, ret_ty.clone(), call(maker, mk_args)));
            b.push(st(println(s("created"))));
            let mut cur_ty = ret_ty;
            for i in path {
                let next = cx.n.fresh("g");
                let Ty::Tuple(parts) = cur_ty.clone() else { unreachable!() };
                cur_ty = parts[i].clone();
                b.push(let_t(next, cur_ty.clone(), E::Proj(Box::new(v(cur)), i)));
                cur = next;
            }
            E::Call(Box::new(v(cur)), vec![arg(7)])
        }
        "returned-from-closure" => {
            let mk = cx.n.fresh("mk");
            let u = cx.n.fresh("u");
            let g = cx.n.fresh("g");
            b.push(let_(mk, E::Closure(vec![(u, Some(Ty::i32()))], Box::new(block(vec![st(T6::I32.show(v(u)))], Some(v(c)))))));
            b.push(let_(g, E::Call(Box::new(v(mk)), vec![arg(6)])));
            E::Call(Box::new(v(g)), vec![arg(7)])
        }
        "argument" | "argument-twice" | "stored-then-passed" => {
            let f = cx.n.fresh("f");
            let x = cx.n.fresh("x");
            let body = if flow == "argument-twice" { add(E::Call(Box::new(v(f)), vec![v(x)]), E::Call(Box::new(v(f)), vec![v(x)])) } else { E::Call(Box::new(v(f)), vec![v(x)]) };
            cx.items.push(fn_def("app", vec![(f, fn_ty()), (x, Ty::i32())], Some(Ty::i32()), body));
            if flow == "stored-then-passed" {
                let t = cx.n.fresh("t");
                b.push(let_(t, E::Tuple(vec![v(c), int(0)])));
                call("app", vec![E::Proj(Box::new(v(t)), 0), arg(7)])
            } else {
                call("app", vec![v(c), arg(7)])
            }
        }
        "if-result" => {
            let g = cx.n.fresh("g");
            let z = cx.n.fresh("z");
            b.push(let_(g, if_(T6::Bool.probe(1), v(c), E::Closure(vec![(z, Some(Ty::i32()))], Box::new(v(z))))));
            E::Call(Box::new(v(g)), vec![arg(7)])
        }
        "match-result" => {
            let g = cx.n.fresh("g");
            let z = cx.n.fresh("z");
            b.push(let_(
                g,
                E::Match(
                    Box::new(T6::I32.probe(1)),
                    vec![(Pat::Int(1, IntKind::I32, false), v(c)), (Pat::Wild, E::Closure(vec![(z, Some(Ty::i32()))], Box::new(v(z))))],
                ),
            ));
            E::Call(Box::new(v(g)), vec![arg(7)])
        }
        "generic-apply" => {
            let f = cx.n.fresh("f");
            let x = cx.n.fresh("x");
            cx.items.push(Item::Fn(FnDef {
                name: "gapp".into(),
                generics: vec!["A".into(), "B".into()],
                bounds: vec![],
                params: vec![(f, Ty::Fn(vec![Ty::Param("A".into())], Box::new(Ty::Param("B".into())))), (x, Ty::Param("A".into()))],
                ret: Some(Ty::Param("B".into())),
                body: E::Call(Box::new(v(f)), vec![v(x)]),
            }));
            callg("gapp", vec![Ty::i32(), Ty::i32()], vec![v(c), arg(7)])
        }
        _ => return None,
    };
    b.push(let_(res, call_expr.clone()));
    b.push(st(T6::I32.show(v(res))));
    if variant == "call-twice" {
        if returned(flow) {
            return None;
        }
        let res2 = cx.n.fresh("res");
        b.push(let_(res2, E::Call(Box::new(v(c)), vec![int(1)])));
        b.push(st(T6::I32.show(v(res2))));
    }
    b.extend(post);
    b.push(st(println(s("done"))));
    let mut host_params = vec![(p, Ty::i32())];
    let mut host_args = vec![T6::I32.probe(1)];
    if let Some(hf) = cx.fn_param {
        host_params.push((hf, fn_ty()));
        host_args.push(E::FnRef("twice".to_string(), vec![]));
    }
    cx.items.push(fn_def("host", host_params, Some(Ty::Unit), block(b, None)));
    cx.items.push(fn_def("main", vec![], None, block(vec![st(call("host", host_args))], None)));
    Some(Program::single(cx.items, cx.n.names.clone()))
}

pub struct Closures;

fn capture_sets(tier: Tier) -> Vec<Vec<&'static str>> {
    let mut v: Vec<Vec<&'static str>> = CAPTURES.iter().map(|c| vec![*c]).collect();
    let pairs: Vec<(usize, usize)> = if tier == Tier::Quick {
        vec![(1, 2), (2, 4), (3, 4), (4, 5), (1, 6), (1, 8), (8, 9)]
    } else {
        let mut p = Vec::new();
        for i in 1..CAPTURES.len() {
            for j in (i + 1)..CAPTURES.len() {
                p.push((i, j));
            }
        }
        p
    };
    for (i, j) in pairs {
        v.push(vec![CAPTURES[i], CAPTURES[j]]);
    }
    v
}

impl Family for Closures {
    fn name(&self) -> &'static str {
        "closures"
    }
    fn serves(&self) -> &'static [&'static str] {
        &["C08", "C01", "C02", "C03", "C04"]
    }
    fn rule(&self) -> &'static str {
        "capture sets (all singles over {none, fn param, let, pattern variable, Ref cell, another closure, top-level fn, string let, function-typed parameter called in callee position only, local alias of a top-level fn called in callee position only}; selected pairs in quick, all pairs in thorough) x 27 flows of the closure value from creation to call (returned by a function directly, in a tuple, in a tuple nested two and three deep and in either position, in a tuple that a second function wraps in another; let, rebind, tuple element, nested tuple literal / tuple of a tuple-typed variable / tuple of a call result, struct field in first / second / third position, array element, Ref content, Vec element, returned from fn, returned from closure, argument, argument called twice, branch result of if/match, generic apply, …) x variants {plain, captured name shadowed after creation, captured Ref mutated from both sides, called twice} x nesting depth 1 (thorough: 1-2). non-trivial = programs whose closure captures at least one variable; distinct = distinct source text"
    }
    fn cases(&self, tier: Tier) -> Box<dyn Iterator<Item = Value> + '_> {
        let mut v = Vec::new();
        let nestings: Vec<usize> = if tier == Tier::Quick { vec![1] } else { vec![1, 2] };
        for caps in capture_sets(tier) {
            for flow in FLOWS {
                for var in VARIANTS {
                    for nest in &nestings {
                        v.push(json!({"captures": caps, "flow": flow, "variant": var, "nesting": nest}));
                    }
                }
            }
        }
        Box::new(v.into_iter())
    }
    fn run(&self, case: &Value, ctx: &mut Ctx) -> Report {
        let mut rep = Report::default();
        let caps: Vec<&str> = case["captures"].as_array().unwrap().iter().map(|x| x.as_str().unwrap()).collect();
        let (flow, variant) = (case["flow"].as_str().unwrap(), case["variant"].as_str().unwrap());
        let nesting = case["nesting"].as_u64().unwrap() as usize;
        let Some(prog) = build(&caps, flow, variant, nesting) else {
            rep.tag("inapplicable");
            return rep;
        };
        let site = format!("flow={};captures={};variant={};nesting={}", flow, caps.join("+"), variant, nesting);
        let opts = DiffOpts { props_sem: &["C08", "C01"], props_go: &["C02", "C08"], ..DiffOpts::default() };
        differential(&prog, &site, "closures", case, ctx, &opts, &mut rep);
        if caps == ["none"] {
            rep.nontrivial_key = None;
        }
        rep
    }
}
