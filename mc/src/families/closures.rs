//! C08: closures keep their lexical meaning after lambda lifting. Capture × nesting × flow lattice.

use crate::drive::*;
use crate::families::common::*;
use crate::ug::ast::*;
use crate::ug::build::*;
use serde_json::{Value, json};

pub const CAPTURES: [&str; 10] = ["none", "param", "let", "patvar", "ref", "closure", "topfn", "string-let", "fn-param", "fn-alias"];
pub const FLOWS: [&str; 27] = [
    "nested-tuple", "tuple-of-holder-var", "tuple-of-call-result", "struct-field-second", "struct-field-third",
    "let-call", "rebind", "tuple-elem", "struct-field", "struct-field-direct", "array-elem", "ref-content", "vec-elem", "returned-from-fn",
    "returned-from-closure", "argument", "if-result", "match-result", "generic-apply", "argument-twice", "tuple-direct", "stored-then-passed",
    // the closure inside the value a function returns, at every depth of tuple nesting
    "returned-in-tuple", "returned-in-nested-tuple", "returned-in-nested-tuple-second", "returned-in-deep-tuple", "returned-in-tuple-via-fn",
];

fn returned(flow: &str) -> bool {
    flow.starts_with("returned-in-") || flow == "returned-from-fn"
}
pub const VARIANTS: [&str; 4] = ["plain", "shadow-after", "mutate-ref-both", "call-twice"];

fn fn_ty() -> Ty {
    Ty::Fn(vec![Ty::i32()], Box::new(Ty::i32()))
}

struct Cx {
    n: Names,
    items: Vec<Item>,
    /// function-typed parameter the enclosing function must declare (capture kind "fn-param")
    fn_param: Option<VarId>,
}

fn ensure_twice(cx: &mut Cx) {
    if !cx.items.iter().any(|i| matches!(i, Item::Fn(f) if f.name == "twice")) {
        let x = cx.n.fresh("x");
        cx.items.push(fn_def("twice", vec![(x, Ty::i32())], Some(Ty::i32()), bin(BinOp::Mul, v(x), int(2))));
    }
}

/// build the closure-creating part: returns (statements before creation, closure expression, statements after the call that
/// observe shared state, captured binder to shadow)
fn make_closure(cx: &mut Cx, caps: &[&str], param: VarId, outer_param: Option<VarId>) -> (Vec<Stmt>, E, Vec<Stmt>, Option<VarId>, Option<VarId>) {
    let mut pre = Vec::new();
    let mut post = Vec::new();
    let a = cx.n.fresh("a");
    let mut sum: E = v(a);
    let mut shadowable = None;
    let mut the_ref = None;
    let mut wrap_in_match: Option<(VarId, E)> = None;
    for c in caps {
        match *c {
            "none" => {}
            "param" => {
                sum = add(sum, v(param));
                shadowable = Some(param);
            }
            "let" => {
                let l = cx.n.fresh("l");
                pre.push(let_(l, T6::I32.probe(2)));
                sum = add(sum, v(l));
                shadowable = Some(l);
            }
            "string-let" => {
                let sl = cx.n.fresh("sl");
                pre.push(let_(sl, T6::Str.probe(4)));
                sum = add(sum, bi("string_len", vec![v(sl)]));
            }
            "patvar" => {
                let m = cx.n.fresh("m");
                wrap_in_match = Some((m, T6::I32.probe(3)));
                sum = add(sum, v(m));
            }
            "ref" => {
                let r = cx.n.fresh("r");
                pre.push(let_(r, bi("ref", vec![int(10)])));
                // the closure both reads and updates the shared cell
                sum = add(sum, bi("ref_get", vec![v(r)]));
                post.push(st(T6::I32.show(bi("ref_get", vec![v(r)]))));
                the_ref = Some(r);
            }
            "closure" => {
                let inner = cx.n.fresh("inner");
                let q = cx.n.fresh("q");
                let k = cx.n.fresh("k");
                pre.push(let_(k, T6::I32.probe(5)));
                pre.push(let_(inner, E::Closure(vec![(q, Some(Ty::i32()))], Box::new(add(v(q), v(k))))));
                sum = add(sum, E::Call(Box::new(v(inner)), vec![int(100)]));
            }
            "topfn" => {
                ensure_twice(cx);
                sum = add(sum, call("twice", vec![v(a)]));
            }
            "fn-param" => {
                // a function-typed parameter of the enclosing function, used in callee position only
                ensure_twice(cx);
                let hf = match cx.fn_param {
                    Some(h) => h,
                    None => {
                        let h = cx.n.fresh("hf");
                        cx.fn_param = Some(h);
                        h
                    }
                };
                sum = add(sum, E::Call(Box::new(v(hf)), vec![E::Call(Box::new(v(hf)), vec![v(a)])]));
            }
            "fn-alias" => {
                // a local alias of a top-level function, used in callee position only
                ensure_twice(cx);
                let fal = cx.n.fresh("fal");
                pre.push(let_(fal, E::FnRef("twice".to_string(), vec![])));
                sum = add(sum, E::Call(Box::new(v(fal)), vec![v(a)]));
            }
            _ => {}
        }
    }
    let mut body_stmts = vec![st(T6::Unit.probe(9))];
    if let Some(r) = the_ref {
        body_stmts.push(st(bi("ref_set", vec![v(r), add(bi("ref_get", vec![v(r)]), int(1))])));
    }
    let mut body = block(body_stmts, Some(sum));
    let _ = &mut body;
    if let Some(op) = outer_param {
        body = add_tail(body, v(op));
    }
    let clo = E::Closure(vec![(a, Some(Ty::i32()))], Box::new(body));
    if let Some((m, scrut)) = wrap_in_match {
        // the closure is created inside a match arm and escapes through the match result
        if !cx.items.iter().any(|i| matches!(i, Item::Enum(e) if e.name == "Opt")) {
            cx.items.push(Item::Enum(EnumDef { name: "Opt".into(), generics: vec![], variants: vec![("Non".into(), vec![]), ("Som".into(), vec![Ty::i32()])], derives: vec![] }));
        }
        let z = cx.n.fresh("z");
        let e = E::Match(
            Box::new(E::Ctor("Opt".into(), "Som".into(), false, vec![scrut], vec![])),
            vec![
                (Pat::Ctor("Opt".into(), "Som".into(), false, vec![Pat::Var(m)]), clo),
                (Pat::Ctor("Opt".into(), "Non".into(), false, vec![]), E::Closure(vec![(z, Some(Ty::i32()))], Box::new(v(z)))),
            ],
        );
        return (pre, e, post, shadowable, the_ref);
    }
    (pre, clo, post, shadowable, the_ref)
}

/// add `extra` to the tail expression of a block
fn add_tail(b: E, extra: E) -> E {
    match b {
        E::Block(stmts, Some(t)) => E::Block(stmts, Some(Box::new(add(*t, extra)))),
        other => other,
    }
}

pub fn build(caps: &[&str], flow: &str, variant: &str, nesting: usize) -> Option<Program> {
    let mut cx = Cx { n: Names::new(), items: Vec::new(), fn_param: None };
    cx.items = prelude(&mut cx.n);
    let p = cx.n.fresh("p");
    let outer_param = if nesting >= 2 { Some(cx.n.fresh("op")) } else { None };
    let (mut pre, clo, post, shadowable, the_ref) = make_closure(&mut cx, caps, p, outer_param);
    let c = cx.n.fresh("c");
    let mut b: Vec<Stmt> = Vec::new();
    b.append(&mut pre);
    // nesting 2: the closure is created by an enclosing closure and captures that closure's parameter
    let clo = match outer_param {
        Some(op) => {
            let outer = cx.n.fresh("outer");
            b.push(let_(outer, E::Closure(vec![(op, Some(Ty::i32()))], Box::new(block(vec![st(T6::Unit.probe(8))], Some(clo))))));
            E::Call(Box::new(v(outer)), vec![int(1000)])
        }
        None => clo,
    };
    let res = cx.n.fresh("res");
    let arg = |k: i128| T6::I32.probe(k);
    // flows that need the closure bound to `c` first
    let needs_c = !returned(flow);
    if needs_c {
        b.push(let_(c, clo.clone()));
        b.push(st(println(s("created"))));
    }
    match variant {
        "shadow-after" => {
            let sh = shadowable?;
            let again = cx.n.fresh_exact(&cx.n.names[sh as usize].clone());
            b.push(let_(again, int(9999)));
        }
        "mutate-ref-both" => {
            let r = the_ref?;
            b.push(st(bi("ref_set", vec![v(r), int(50)])));
        }
        _ => {}
    }
    let call_expr: E = match flow {
        "let-call" => E::Call(Box::new(v(c)), vec![arg(7)]),
        "rebind" => {
            let g = cx.n.fresh("g");
            b.push(let_(g, v(c)));
            E::Call(Box::new(v(g)), vec![arg(7)])
        }
        "tuple-elem" => {
            let t = cx.n.fresh("t");
            let g = cx.n.fresh("g");
            b.push(let_(t, E::Tuple(vec![v(c), int(1)])));
            b.push(let_(g, E::Proj(Box::new(v(t)), 0)));
            E::Call(Box::new(v(g)), vec![arg(7)])
        }
        "tuple-direct" => {
            let t = cx.n.fresh("t");
            b.push(let_(t, E::Tuple(vec![int(1), v(c)])));
            E::Call(Box::new(E::Proj(Box::new(v(t)), 1)), vec![arg(7)])
        }
        // (calling a function-typed field in place, `h.f(x)` or `(h.f)(x)`, is read as a method call by goml)
        "struct-field-direct" => return None,
        "struct-field" => {
            cx.items.push(Item::Struct(StructDef { name: "Holder".into(), generics: vec![], fields: vec![("f".into(), fn_ty()), ("n".into(), Ty::i32())], derives: vec![] }));
            let h = cx.n.fresh("h");
            b.push(let_(h, E::StructLit("Holder".into(), vec![("f".into(), v(c)), ("n".into(), int(1))], vec![])));
            if flow == "struct-field" {
                let g = cx.n.fresh("g");
                b.push(let_(g, E::Field(Box::new(v(h)), "f".into())));
                E::Call(Box::new(v(g)), vec![arg(7)])
            } else {
                E::Call(Box::new(E::Field(Box::new(v(h)), "f".into())), vec![arg(7)])
            }
        }
        "nested-tuple" | "tuple-of-holder-var" | "tuple-of-call-result" => {
            // the closure sits one level down inside the tuple that is built: a nested tuple literal, a
            // variable of tuple-of-closure type, or the result of a call returning such a tuple
            let t = cx.n.fresh("t");
            let g = cx.n.fresh("g");
            let inner_ty = Ty::Tuple(vec![fn_ty(), Ty::i32()]);
            let outer = match flow {
                "nested-tuple" => E::Tuple(vec![E::Tuple(vec![v(c), int(1)]), int(2)]),
                "tuple-of-holder-var" => {
                    let pr = cx.n.fresh("pr");
                    b.push(let_(pr, E::Tuple(vec![v(c), int(1)])));
                    E::Tuple(vec![v(pr), int(2)])
                }
                _ => {
                    let q = cx.n.fresh("q");
                    cx.items.push(fn_def("wrap_pair", vec![(q, fn_ty())], Some(inner_ty.clone()), E::Tuple(vec![v(q), int(1)])));
                    E::Tuple(vec![call("wrap_pair", vec![v(c)]), int(2)])
                }
            };
            b.push(let_t(t, Ty::Tuple(vec![inner_ty.clone(), Ty::i32()]), outer));
            let inner = cx.n.fresh("inner");
            b.push(let_t(inner, inner_ty, E::Proj(Box::new(v(t)), 0)));
            b.push(let_(g, E::Proj(Box::new(v(inner)), 0)));
            E::Call(Box::new(v(g)), vec![arg(7)])
        }
        "struct-field-second" | "struct-field-third" => {
            // the function-typed field is not the first field of the struct
            let mut fields = vec![("n".to_string(), Ty::i32())];
            let mut lit = vec![("n".to_string(), int(1))];
            if flow == "struct-field-third" {
                fields.push(("t".into(), Ty::Str));
                lit.push(("t".into(), s("x")));
            }
            fields.push(("f".into(), fn_ty()));
            lit.push(("f".into(), v(c)));
            cx.items.push(Item::Struct(StructDef { name: "HolderN".into(), generics: vec![], fields, derives: vec![] }));
            let h = cx.n.fresh("h");
            let g = cx.n.fresh("g");
            b.push(let_(h, E::StructLit("HolderN".into(), lit, vec![])));
            b.push(st(T6::I32.show(E::Field(Box::new(v(h)), "n".into()))));
            b.push(let_(g, E::Field(Box::new(v(h)), "f".into())));
            E::Call(Box::new(v(g)), vec![arg(7)])
        }
        "array-elem" => {
            let arr = cx.n.fresh("arr");
            let g = cx.n.fresh("g");
            b.push(let_(arr, E::Array(vec![v(c), v(c)])));
            b.push(let_(g, bi("array_get", vec![v(arr), int(1)])));
            E::Call(Box::new(v(g)), vec![arg(7)])
        }
        "ref-content" => {
            let rc = cx.n.fresh("rc");
            let g = cx.n.fresh("g");
            b.push(let_(rc, bi("ref", vec![v(c)])));
            b.push(let_(g, bi("ref_get", vec![v(rc)])));
            E::Call(Box::new(v(g)), vec![arg(7)])
        }
        "vec-elem" => {
            let w = cx.n.fresh("w");
            let g = cx.n.fresh("g");
            b.push(let_t(w, Ty::Vec(Box::new(fn_ty())), bi("vec_new", vec![])));
            b.push(let_(g, bi("vec_get", vec![bi("vec_push", vec![v(w), v(c)]), int(0)])));
            E::Call(Box::new(v(g)), vec![arg(7)])
        }
        "returned-from-fn" | "returned-in-tuple" | "returned-in-nested-tuple" | "returned-in-nested-tuple-second" | "returned-in-deep-tuple" | "returned-in-tuple-via-fn" => {
            // only captures that live inside the maker make sense here: rebuild inside `mk`
            if caps.iter().any(|c| matches!(*c, "ref")) && variant == "mutate-ref-both" {
                return None;
            }
            let mut cx2 = Cx { n: std::mem::take(&mut cx.n), items: std::mem::take(&mut cx.items), fn_param: None };
            let q = cx2.n.fresh("q");
            if nesting >= 2 {
                return None;
            }
            let (pre2, clo2, _post2, _, _) = make_closure(&mut cx2, caps, q, None);
            let mut mk_params = vec![(q, Ty::i32())];
            let mut mk_args = vec![arg(6)];
            if let Some(hf2) = cx2.fn_param {
                mk_params.push((hf2, fn_ty()));
                mk_args.push(E::FnRef("twice".to_string(), vec![]));
            }
            // the shape of what `mk` returns around the closure, and the path of projections to it
            let pair = |a: Ty, b: Ty| Ty::Tuple(vec![a, b]);
            let (ret_ty, wrap, path): (Ty, Box<dyn Fn(E) -> E>, Vec<usize>) = match flow {
                "returned-in-tuple" | "returned-in-tuple-via-fn" => (pair(fn_ty(), Ty::i32()), Box::new(|c: E| E::Tuple(vec![c, int(1)])), vec![0]),
                "returned-in-nested-tuple" => (pair(pair(fn_ty(), Ty::i32()), Ty::i32()), Box::new(|c: E| E::Tuple(vec![E::Tuple(vec![c, int(1)]), int(2)])), vec![0, 0]),
                "returned-in-nested-tuple-second" => (pair(Ty::i32(), pair(Ty::i32(), fn_ty())), Box::new(|c: E| E::Tuple(vec![int(2), E::Tuple(vec![int(1), c])])), vec![1, 1]),
                "returned-in-deep-tuple" => (
                    pair(pair(pair(fn_ty(), Ty::i32()), Ty::i32()), Ty::i32()),
                    Box::new(|c: E| E::Tuple(vec![E::Tuple(vec![E::Tuple(vec![c, int(1)]), int(2)]), int(3)])),
                    vec![0, 0, 0],
                ),
                _ => (fn_ty(), Box::new(|c: E| c), vec![]),
            };
            cx2.items.push(fn_def("mk", mk_params.clone(), Some(ret_ty.clone()), block(pre2, Some(wrap(clo2)))));
            // a second function that returns the first one's result inside another tuple
            let (maker, ret_ty, path) = if flow == "returned-in-tuple-via-fn" {
                let params2: Vec<(VarId, Ty)> = mk_params.iter().map(|(_, t)| (cx2.n.fresh("m"), t.clone())).collect();
                let fwd: Vec<E> = params2.iter().map(|(id, _)| v(*id)).collect();
                let outer_ty = pair(ret_ty.clone(), Ty::Str);
                cx2.items.push(fn_def("mk_labelled", params2, Some(outer_ty.clone()), E::Tuple(vec![call("mk", fwd), s("label")])));
                ("mk_labelled", outer_ty, vec![0, 0])
            } else {
                ("mk", ret_ty, path)
            };
            cx.n = cx2.n;
            cx.items = cx2.items;
            // the statements of `pre` already ran in this function too; harmless (they only print probes)
            let mut cur = cx.n.fresh("g");
            b.push(let_t(cur, ret_ty.clone(), call(maker, mk_args)));
            b.push(st(println(s("created"))));
            let mut cur_ty = ret_ty;
            for i in path {
                let next = cx.n.fresh("g");
                let Ty::Tuple(parts) = cur_ty.clone() else { unreachable!() };
                cur_ty = parts[i].clone();
                b.push(let_t(next, cur_ty.clone(), E::Proj(Box::new(v(cur)), i)));
                cur = next;
            }
            E::Call(Box::new(v(cur)), vec![arg(7)])
        }
        "returned-from-closure" => {
            let mk = cx.n.fresh("mk");
            let u = cx.n.fresh("u");
            let g = cx.n.fresh("g");
            b.push(let_(mk, E::Closure(vec![(u, Some(Ty::i32()))], Box::new(block(vec![st(T6::I32.show(v(u)))], Some(v(c)))))));
            b.push(let_(g, E::Call(Box::new(v(mk)), vec![arg(6)])));
            E::Call(Box::new(v(g)), vec![arg(7)])
        }
        "argument" | "argument-twice" | "stored-then-passed" => {
            let f = cx.n.fresh("f");
            let x = cx.n.fresh("x");
            let body = if flow == "argument-twice" { add(E::Call(Box::new(v(f)), vec![v(x)]), E::Call(Box::new(v(f)), vec![v(x)])) } else { E::Call(Box::new(v(f)), vec![v(x)]) };
            cx.items.push(fn_def("app", vec![(f, fn_ty()), (x, Ty::i32())], Some(Ty::i32()), body));
            if flow == "stored-then-passed" {
                let t = cx.n.fresh("t");
                b.push(let_(t, E::Tuple(vec![v(c), int(0)])));
                call("app", vec![E::Proj(Box::new(v(t)), 0), arg(7)])
            } else {
                call("app", vec![v(c), arg(7)])
            }
        }
        "if-result" => {
            let g = cx.n.fresh("g");
            let z = cx.n.fresh("z");
            b.push(let_(g, if_(T6::Bool.probe(1), v(c), E::Closure(vec![(z, Some(Ty::i32()))], Box::new(v(z))))));
            E::Call(Box::new(v(g)), vec![arg(7)])
        }
        "match-result" => {
            let g = cx.n.fresh("g");
            let z = cx.n.fresh("z");
            b.push(let_(
                g,
                E::Match(
                    Box::new(T6::I32.probe(1)),
                    vec![(Pat::Int(1, IntKind::I32, false), v(c)), (Pat::Wild, E::Closure(vec![(z, Some(Ty::i32()))], Box::new(v(z))))],
                ),
            ));
            E::Call(Box::new(v(g)), vec![arg(7)])
        }
        "generic-apply" => {
            let f = cx.n.fresh("f");
            let x = cx.n.fresh("x");
            cx.items.push(Item::Fn(FnDef {
                name: "gapp".into(),
                generics: vec!["A".into(), "B".into()],
                bounds: vec![],
                params: vec![(f, Ty::Fn(vec![Ty::Param("A".into())], Box::new(Ty::Param("B".into())))), (x, Ty::Param("A".into()))],
                ret: Some(Ty::Param("B".into())),
                body: E::Call(Box::new(v(f)), vec![v(x)]),
            }));
            callg("gapp", vec![Ty::i32(), Ty::i32()], vec![v(c), arg(7)])
        }
        _ => return None,
    };
    b.push(let_(res, call_expr.clone()));
    b.push(st(T6::I32.show(v(res))));
    if variant == "call-twice" {
        if returned(flow) {
            return None;
        }
        let res2 = cx.n.fresh("res");
        b.push(let_(res2, E::Call(Box::new(v(c)), vec![int(1)])));
        b.push(st(T6::I32.show(v(res2))));
    }
    b.extend(post);
    b.push(st(println(s("done"))));
    let mut host_params = vec![(p, Ty::i32())];
    let mut host_args = vec![T6::I32.probe(1)];
    if let Some(hf) = cx.fn_param {
        host_params.push((hf, fn_ty()));
        host_args.push(E::FnRef("twice".to_string(), vec![]));
    }
    cx.items.push(fn_def("host", host_params, Some(Ty::Unit), block(b, None)));
    cx.items.push(fn_def("main", vec![], None, block(vec![st(call("host", host_args))], None)));
    Some(Program::single(cx.items, cx.n.names.clone()))
}

/// closures created inside a generic function that is instantiated at two types: what the closure
/// captures (nothing / only values whose types do not mention T / a value of type T) x how its body
/// depends on T (a statically dispatched trait call, the result type, a call of another generic)
fn generic_instance_programs() -> Vec<(String, String, String)> {
    let head = "trait Show { fn show(Self) -> string; }\nimpl Show for int32 { fn show(self: int32) -> string { \"i\" + int32_to_string(self) } }\nimpl Show for bool { fn show(self: bool) -> string { \"b\" + bool_to_string(self) } }\nimpl Show for string { fn show(self: string) -> string { \"s\" + self } }\nfn idg[U](u: U) -> U { u }\n";
    let captures = [("none", "", ""), ("string-only", "let prefix = \"p=\";\n    ", "prefix + "), ("int-and-string", "let prefix = \"p=\";\n    let k = 3;\n    ", "prefix + int32_to_string(k) + "), ("value-of-T", "let held = x;\n    ", "Show::show(held) + ")];
    let bodies = [("trait-call-path", "Show::show(y)"), ("trait-call-dot", "y.show()"), ("trait-call-then-concat", "Show::show(y) + \"!\""), ("pair-result", "Show::show(y) + Show::show(y)")];
    let binders = [("let-bound", true), ("anonymous-argument", false)];
    let mut out = Vec::new();
    for (cn, pre, lead) in captures {
        for (bn, body) in bodies {
            for (bind_name, let_bound) in binders {
                let generic = if let_bound {
                    format!("fn render[T: Show](x: T) -> string {{\n    {}let fmt = |y: T| {}{};\n    fmt(x)\n}}\n", pre, lead, body)
                } else {
                    format!("fn ap[A](f: (A) -> string, a: A) -> string {{ f(a) }}\nfn render[T: Show](x: T) -> string {{\n    {}let fmt = |y: T| {}{};\n    let again = |y: T| \"2\" + {}{};\n    fmt(x) + again(x)\n}}\n", pre, lead, body, lead, body)
                };
                let text = format!("{}{}fn main() {{\n    string_println(render(7));\n    string_println(render(true));\n    string_println(render(\"z\"));\n    string_println(render(8))\n}}\n", head, generic);
                let one = |shown: &str| -> String {
                    let lead_s = match cn {
                        "none" => String::new(),
                        "string-only" => "p=".to_string(),
                        "int-and-string" => "p=3".to_string(),
                        _ => shown.to_string(),
                    };
                    let body_s = if bn == "pair-result" { format!("{}{}", shown, shown) } else if bn == "trait-call-then-concat" { format!("{}!", shown) } else { shown.to_string() };
                    if let_bound { format!("{}{}", lead_s, body_s) } else { format!("{}{}2{}{}", lead_s, body_s, lead_s, body_s) }
                };
                let expected = format!("{}\n{}\n{}\n{}\n", one("i7"), one("btrue"), one("sz"), one("i8"));
                out.push((format!("captures={};body={};closure={}", cn, bn, bind_name), text, expected));
            }
        }
    }
    out
}

/// functions that return closures: where the function stands relative to its caller (before it, after
/// it, in another file of the package, in an imported package), whether it is generic, how the result is
/// used. (name, text, expected stdout)
fn returning_programs() -> Vec<(String, String, String)> {
    let makers: [(&str, &str, &str); 3] = [
        ("plain", "fn mk(n: int32) -> (int32) -> int32 { |x: int32| x + n }\n", "mk(3)"),
        ("generic", "fn mkg[T](v: T, n: int32) -> (int32) -> int32 { |x: int32| x + n }\n", "mkg(\"s\", 3)"),
        ("through-a-second-function", "fn inner(n: int32) -> (int32) -> int32 { |x: int32| x + n }\nfn mk(n: int32) -> (int32) -> int32 { inner(n + 1) }\n", "mk(2)"),
    ];
    // every use prints (4 + 3) = 7 first
    let uses: [(&str, &str, &str); 6] = [
        ("let-then-call", "    let a = MK;\n    string_println(int32_to_string(a(4)));\n", "7\n"),
        ("called-directly", "    string_println(int32_to_string(MK(4)));\n", "7\n"),
        ("two-results", "    let a = MK;\n    let b = MK;\n    string_println(int32_to_string(a(4) + b(10)));\n", "20\n"),
        ("inside-a-closure", "    let h = |z: int32| { let a = MK; a(z) };\n    string_println(int32_to_string(h(4)));\n", "7\n"),
        ("tuple-element", "    let t = (MK, 1);\n    string_println(int32_to_string(t.0(4) + t.1));\n", "8\n"),
        ("called-in-a-loop", "    let i = ref(0);\n    while ref_get(i) < 2 {\n        let a = MK;\n        string_println(int32_to_string(a(ref_get(i))));\n        ref_set(i, ref_get(i) + 1);\n    };\n", "3\n4\n"),
    ];
    let mut out = Vec::new();
    for (mn, maker, mk_call) in makers {
        for (un, body, expected) in uses {
            for place in ["before-the-caller", "after-the-caller", "other-file-of-the-package", "imported-package"] {
                let body = body.replace("MK", &if place == "imported-package" { format!("Lib::{}", mk_call) } else { mk_call.to_string() });
                let main = format!("fn main() {{\n{}}}\n", body);
                let text = match place {
                    "before-the-caller" => format!("{}{}", maker, main),
                    "after-the-caller" => format!("{}{}", main, maker),
                    "other-file-of-the-package" => format!("package Main\n\n{}//// FILE makers.gom\npackage Main\n\n{}", main, maker),
                    _ => format!("package Main\n\nimport Lib\n\n{}//// FILE Lib/lib.gom\npackage Lib\n\n{}", main, maker),
                };
                out.push((format!("function={};use={};placed={}", mn, un, place), text, expected.to_string()));
            }
        }
    }
    // a closure that returns a closure
    for (un, body, expected) in [
        ("let-then-call", "    let f = |a: int32| { let g = |b: int32| b + a; g };\n    let g1 = f(10);\n    string_println(int32_to_string(g1(100)));\n", "110\n"),
        ("called-directly", "    let f = |a: int32| { let g = |b: int32| b + a; g };\n    string_println(int32_to_string(f(10)(100)));\n", "110\n"),
        ("anonymous-inner", "    let f = |a: int32| |b: int32| b + a;\n    let g1 = f(10);\n    string_println(int32_to_string(g1(100)));\n", "110\n"),
    ] {
        out.push((format!("function=closure-returning-a-closure;use={};placed=local", un), format!("fn main() {{\n{}}}\n", body), expected.to_string()));
    }
    out
}

/// further closure programs: (name, text, expected stdout)
fn more_programs() -> Vec<(String, String, String)> {
    let mut out = Vec::new();
    let show = "trait Show { fn show(Self) -> string; }\nimpl Show for int32 { fn show(self: int32) -> string { \"i\" + int32_to_string(self) } }\nimpl Show for bool { fn show(self: bool) -> string { \"b\" + bool_to_string(self) } }\nimpl Show for string { fn show(self: string) -> string { \"s\" + self } }\n";
    // a closure inside a generic function whose own signature does not mention the type parameter: only
    // what it captures (or calls) depends on the instance
    for (cn, closure, call, one) in [
        ("captures-a-value-of-T", "let f = |k: int32| if k < n { Show::show(x) } else { \"late\" };", "f(1)", "§"),
        ("captures-a-value-of-T-no-parameters", "let f = || Show::show(x) + \"!\";", "f()", "§!"),
        ("captures-a-vector-of-T", "let v: Vec[T] = vec_push(vec_new(), x);\n    let f = |k: int32| { let e: T = vec_get(v, 0); Show::show(e) + int32_to_string(k) };", "f(n)", "§2"),
        ("calls-a-generic-function-at-T", "let f = |k: int32| pick(x, k);", "f(n)", "§"),
        ("passed-on-as-a-value", "let f = |k: int32| Show::show(x) + int32_to_string(k);", "ap(f, n)", "§2"),
        ("two-closures-one-signature", "let f = |k: int32| Show::show(x);\n    let g = |k: int32| Show::show(x) + int32_to_string(k + n);", "f(1) + g(1)", "§§3"),
    ] {
        let text = format!("{}fn pick[U: Show](u: U, k: int32) -> string {{ Show::show(u) }}\nfn ap(f: (int32) -> string, a: int32) -> string {{ f(a) }}\nfn later[T: Show](x: T, n: int32) -> string {{\n    {}\n    {}\n}}\nfn main() {{\n    string_println(later(7, 2));\n    string_println(later(\"seven\", 2));\n    string_println(later(true, 2));\n    string_println(later(8, 2))\n}}\n", show, closure, call);
        let expected: String = ["i7", "sseven", "btrue", "i8"].iter().map(|v| format!("{}\n", one.replace('§', v))).collect();
        out.push((format!("signature-without-the-type-parameter;{}", cn), text, expected));
    }
    // a let-bound closure used as a function value inside a block and again after it (or in the sibling block)
    for (bn, body, expected) in [
        ("if-branch-then-after", "let a = if k > 2 { ap(add, 1) } else { 0 };\n    let b = ap(add, a);\n    string_println(int32_to_string(b));", "7\n"),
        ("else-branch-then-after", "let a = if k > 5 { 0 } else { ap(add, 1) };\n    let b = ap(add, a);\n    string_println(int32_to_string(b));", "7\n"),
        ("both-branches", "let a = if k > 2 { ap(add, 1) } else { ap(add, 2) };\n    string_println(int32_to_string(a));", "4\n"),
        ("both-branches-then-after", "let a = if k > 5 { ap(add, 1) } else { ap(add, 2) };\n    let b = ap(add, a);\n    string_println(int32_to_string(b));", "8\n"),
        ("loop-body-then-after", "let i = ref(0);\n    while ref_get(i) < 2 {\n        ref_set(i, ap(add, ref_get(i)));\n    };\n    string_println(int32_to_string(ap(add, ref_get(i))));", "6\n"),
        ("loop-condition-and-body", "let i = ref(0);\n    while ap(add, ref_get(i)) < 9 {\n        ref_set(i, ap(add, ref_get(i)));\n    };\n    string_println(int32_to_string(ref_get(i)));", "6\n"),
        ("two-match-arms", "let a = match k { 1 => ap(add, 1), 3 => ap(add, 10), _ => 0 };\n    string_println(int32_to_string(a));", "13\n"),
        ("match-arm-then-after", "let a = match k { 3 => ap(add, 10), _ => 0 };\n    string_println(int32_to_string(ap(add, a)));", "16\n"),
        ("inside-another-closure-then-after", "let h = |z: int32| ap(add, z);\n    string_println(int32_to_string(h(1) + ap(add, 2)));", "9\n"),
        ("stored-in-a-branch-then-called-by-name", "let t: ((int32) -> int32, int32) = if k > 2 { (add, 1) } else { (add, 2) };\n    let g: (int32) -> int32 = t.0;\n    string_println(int32_to_string(g(t.1) + add(10)));", "17\n"),
        ("twice-in-one-expression", "string_println(int32_to_string(ap(add, 1) + ap(add, 2)));", "9\n"),
    ] {
        let text = format!("fn ap(f: (int32) -> int32, x: int32) -> int32 {{ f(x) }}\nfn main() {{\n    let k = 3;\n    let add = |x: int32| x + k;\n    {}\n}}\n", body);
        out.push((format!("value-use-in-a-block;{}", bn), text, expected.to_string()));
    }
    // two packages with the same binder names, indices and closure types: each function runs its own closure
    // twin files: two files that are the same text byte for byte except for one token inside a closure body, so
    // every closure of the one sits at the offsets of a closure of the other (what is keyed by a place in a file
    // must not be shared between files)
    for (tn, tmpl, ops, expected) in [
        ("returned-closure", "fn mk§(k: int32) -> (int32) -> int32 { |x: int32| x @ k }\n", ["+", "*"], "7\n12\n"),
        ("closure-passed-on", "fn ap§(f: (int32) -> int32, a: int32) -> int32 { f(a) }\nfn mk§(k: int32) -> (int32) -> int32 { let g = |x: int32| x @ k; |y: int32| ap§(g, y) }\n", ["+", "*"], "7\n12\n"),
        ("two-parameters", "fn mk§(k: int32) -> (int32) -> int32 { let g = |x: int32, y: int32| x @ y; |z: int32| g(z, k) }\n", ["+", "*"], "7\n12\n"),
        ("no-captures", "fn mk§(k: int32) -> (int32) -> int32 { |x: int32| x @ 3 }\n", ["+", "*"], "7\n12\n"),
        ("parameter-without-annotation", "fn mk§(k: int32) -> (int32) -> int32 { |x| x @ k }\n", ["+", "*"], "7\n12\n"),
        ("parameter-without-annotation-passed-on", "fn ap§(f: (int32) -> int32, a: int32) -> int32 { f(a) }\nfn mk§(k: int32) -> (int32) -> int32 { |y| ap§(|x| x @ k, y) }\n", ["+", "*"], "7\n12\n"),
        ("closure-in-a-match-arm", "fn mk§(k: int32) -> (int32) -> int32 { match k { 3 => |x: int32| x @ k, _ => |x: int32| x } }\n", ["+", "*"], "7\n12\n"),
    ] {
        // two packages with names of one length
        let text = format!(
            "package Main\nimport Aa\nimport Bb\n\nfn main() {{\n    string_println(int32_to_string((Aa::mk(3))(4)));\n    string_println(int32_to_string((Bb::mk(3))(4)))\n}}\n//// FILE Aa/lib.gom\npackage Aa\n\n{}//// FILE Bb/lib.gom\npackage Bb\n\n{}",
            tmpl.replace('§', "").replace('@', ops[0]),
            tmpl.replace('§', "").replace('@', ops[1])
        );
        out.push((format!("twin-files;two-packages;{}", tn), text, expected.to_string()));
        // two files of one package, the functions named with one letter each
        let text = format!(
            "package Main\n\nfn main() {{\n    string_println(int32_to_string((mkp(3))(4)));\n    string_println(int32_to_string((mkq(3))(4)))\n}}\n//// FILE one.gom\npackage Main\n\n{}//// FILE two.gom\npackage Main\n\n{}",
            tmpl.replace('§', "p").replace('@', ops[0]),
            tmpl.replace('§', "q").replace('@', ops[1])
        );
        out.push((format!("twin-files;two-files-of-one-package;{}", tn), text, expected.to_string()));
        // a library and a second file of Main
        let text = format!(
            "package Main\nimport Side\n\nfn main() {{\n    string_println(int32_to_string((mk(3))(4)));\n    string_println(int32_to_string((Side::mk(3))(4)))\n}}\n//// FILE more.gom\npackage Main\n\n{}//// FILE Side/lib.gom\npackage Side\n\n{}",
            tmpl.replace('§', "").replace('@', ops[0]),
            tmpl.replace('§', "").replace('@', ops[1])
        );
        out.push((format!("twin-files;second-file-and-library;{}", tn), text, expected.to_string()));
    }
    for (pn, main_body, lib_body, expected) in [
        ("no-captures", "let f = |x: int32| x + 1; f(n)", "let f = |x: int32| x * 2; f(n)", "11\n20\n"),
        ("same-captures", "let k = 3; let f = |x: int32| x + k; f(n)", "let k = 3; let f = |x: int32| x * k; f(n)", "13\n30\n"),
        ("passed-on-as-values", "let k = 3; let f = |x: int32| x + k; ap(f, n)", "let k = 3; let f = |x: int32| x * k; ap(f, n)", "13\n30\n"),
        ("anonymous", "ap(|x: int32| x + 1, n)", "ap(|x: int32| x * 2, n)", "11\n20\n"),
    ] {
        let text = format!("package Main\nimport Lib\n\nfn ap(f: (int32) -> int32, a: int32) -> int32 {{ f(a) }}\nfn step(n: int32) -> int32 {{ {} }}\nfn main() {{\n    string_println(int32_to_string(step(10)));\n    string_println(int32_to_string(Lib::step(10)))\n}}\n//// FILE Lib/lib.gom\npackage Lib\n\nfn ap(f: (int32) -> int32, a: int32) -> int32 {{ f(a) }}\nfn step(n: int32) -> int32 {{ {} }}\n", main_body, lib_body);
        out.push((format!("same-binders-in-two-packages;{}", pn), text, expected.to_string()));
    }
    // two packages whose functions bind one spelling at the same place in different ways (literal, computed
    // value, reference cell, tuple pattern, parameter), with 0 or 1 binding before it in either package: each
    // closure captures the binding of its own function
    let roles: [(&str, &str, &str, &str, i64); 5] = [
        // (name, parameter, statements binding k, use of k, value of the use when the argument is 10)
        ("literal", "n", "let k = 3;", "k", 3),
        ("computed", "n", "let k = n + 1;", "k", 11),
        ("cell", "n", "let k = ref(5);", "ref_get(k)", 5),
        ("tuple-pattern", "n", "let (k, w) = (n * 2, 0);", "k + w", 20),
        ("parameter", "k", "", "k", 10),
    ];
    for (mn, mparam, mbind, muse, mval) in roles {
        for (ln, lparam, lbind, luse, lval) in roles {
            for (mpad, lpad) in [(0, 0), (0, 1), (1, 0), (1, 1)] {
                let f = |param: &str, bind: &str, use_: &str, pad: i32, op: &str| {
                    format!("fn step({p}: int32) -> int32 {{ {pad}{bind} let f = |x: int32| x {op} {u}; f({p}) }}", p = param, pad = if pad == 1 { "let pad = 0; " } else { "" }, bind = bind, op = op, u = use_)
                };
                let text = format!(
                    "package Main\nimport Lib\n\n{}\nfn main() {{\n    string_println(int32_to_string(step(10)));\n    string_println(int32_to_string(Lib::step(10)))\n}}\n//// FILE Lib/lib.gom\npackage Lib\n\n{}\n",
                    f(mparam, mbind, muse, mpad, "+"),
                    f(lparam, lbind, luse, lpad, "*")
                );
                let expected = format!("{}\n{}\n", 10 + mval, 10 * lval);
                out.push((format!("one-spelling-bound-differently-in-two-packages;main={};lib={};pads={}{}", mn, ln, mpad, lpad), text, expected));
            }
        }
    }
    out
}

pub struct Closures;

fn capture_sets(tier: Tier) -> Vec<Vec<&'static str>> {
    let mut v: Vec<Vec<&'static str>> = CAPTURES.iter().map(|c| vec![*c]).collect();
    let pairs: Vec<(usize, usize)> = if tier == Tier::Quick {
        vec![(1, 2), (2, 4), (3, 4), (4, 5), (1, 6), (1, 8), (8, 9)]
    } else {
        let mut p = Vec::new();
        for i in 1..CAPTURES.len() {
            for j in (i + 1)..CAPTURES.len() {
                p.push((i, j));
            }
        }
        p
    };
    for (i, j) in pairs {
        v.push(vec![CAPTURES[i], CAPTURES[j]]);
    }
    v
}

impl Family for Closures {
    fn name(&self) -> &'static str {
        "closures"
    }
    fn serves(&self) -> &'static [&'static str] {
        &["C08", "C01", "C02", "C03", "C04"]
    }
    fn rule(&self) -> &'static str {
        "capture sets (all singles over {none, fn param, let, pattern variable, Ref cell, another closure, top-level fn, string let, function-typed parameter called in callee position only, local alias of a top-level fn called in callee position only}; selected pairs in quick, all pairs in thorough) x 27 flows of the closure value from creation to call (returned by a function directly, in a tuple, in a tuple nested two and three deep and in either position, in a tuple that a second function wraps in another; let, rebind, tuple element, nested tuple literal / tuple of a tuple-typed variable / tuple of a call result, struct field in first / second / third position, array element, Ref content, Vec element, returned from fn, returned from closure, argument, argument called twice, branch result of if/match, generic apply, …) x variants {plain, captured name shadowed after creation, captured Ref mutated from both sides, called twice} x nesting depth 1 (thorough: 1-2). plus 32 programs with closures inside a generic function instantiated at three types (captures: none / values whose types do not mention T / a value of type T; body: a trait call on the parameter in path or dot form, followed by a concatenation, used twice; one let-bound closure or two closures in one function). plus functions that return a closure: 3 functions (plain, generic, returning the result of a second such function) x 6 uses of the result (bound then called, called directly 'mk(3)(4)', two results, inside another closure, as a tuple element, in a loop) x 4 places of the function (before its caller, after it, in another file of the package, in an imported package), and 3 programs with a closure that returns a closure; 6 closures inside a generic function whose own signature does not mention the type parameter (only captures / callees do), at 3 types; 11 programs using one let-bound closure as a function value inside a block and again after it or in the sibling block (if, else, loop body / condition, match arms, another closure, a tuple built in a branch); 4 projects of two packages with the same binder names, indices and closure types but different bodies; 21 projects of twin files (two packages / two files of one package / a second file and a library that are the same text except for one token in a closure body: 7 closure forms, parameters with and without annotations); 100 projects of two packages whose functions bind one spelling in 5 ways (literal, computed value, cell, tuple pattern, parameter; every ordered pair) with 0 or 1 binding before it, each closure capturing the binding of its own function; projects of several packages run through whole-program compilation and through build + link. non-trivial = programs whose closure captures at least one variable; distinct = distinct source text"
    }
    fn cases(&self, tier: Tier) -> Box<dyn Iterator<Item = Value> + '_> {
        let mut v = Vec::new();
        for (i, _) in generic_instance_programs().iter().enumerate() {
            v.push(json!({"generic-instances": i}));
        }
        for (i, _) in returning_programs().iter().enumerate() {
            v.push(json!({"closure-returning": i}));
        }
        for (i, _) in more_programs().iter().enumerate() {
            v.push(json!({"more-programs": i}));
        }
        let nestings: Vec<usize> = if tier == Tier::Quick { vec![1] } else { vec![1, 2] };
        for caps in capture_sets(tier) {
            for flow in FLOWS {
                for var in VARIANTS {
                    for nest in &nestings {
                        v.push(json!({"captures": caps, "flow": flow, "variant": var, "nesting": nest}));
                    }
                }
            }
        }
        Box::new(v.into_iter())
    }
    fn run(&self, case: &Value, ctx: &mut Ctx) -> Report {
        let mut rep = Report::default();
        let text_program = if let Some(i) = case["generic-instances"].as_u64() {
            let (name, text, expected) = generic_instance_programs()[i as usize].clone();
            Some((format!("generic-instances;{}", name), text, expected))
        } else if let Some(i) = case["closure-returning"].as_u64() {
            let (name, text, expected) = returning_programs()[i as usize].clone();
            Some((format!("closure-returning;{}", name), text, expected))
        } else if let Some(i) = case["more-programs"].as_u64() {
            let (name, text, expected) = more_programs()[i as usize].clone();
            Some((name, text, expected))
        } else {
            None
        };
        if let Some((site, text, expected)) = text_program {
            rep.nontrivial_key = Some(text.clone());
            let replay = json!({"kind": "differential", "family": "closures", "case": case, "source": text, "expected": {"stdout": expected, "end": "ok"}});
            let (path, text) = materialize_text(ctx, &text);
            let comp = match crate::oracle::compile_at(&path, &text) {
                crate::oracle::CompileOutcome::Ok(c) => c,
                crate::oracle::CompileOutcome::Panic(m) => {
                    let m = normalise_msg(&m);
                    for p in ["C08", "C04"] {
                        rep.findings.push(Finding { property: p, class: "compile.panic".into(), site: format!("{};msg={}", site, m), detail: m.clone(), replay: replay.clone() });
                    }
                    return rep;
                }
                crate::oracle::CompileOutcome::Err(e) => {
                    let (stage, msg) = describe_err(&e);
                    rep.tag(format!("compile:rejected:{}", stage));
                    rep.findings.push(Finding { property: "C08", class: format!("compile.rejected.{}", stage), site: format!("{};msg={}", site, normalise_msg(&msg)), detail: msg, replay });
                    return rep;
                }
            };
            rep.tag("compile:ok");
            for (stage, msg) in crate::irck::check_all(&comp) {
                rep.findings.push(Finding { property: "C03", class: format!("irck.{}", stage), site: format!("{};msg={}", site, normalise_msg(&msg)), detail: msg, replay: replay.clone() });
            }
            let go = crate::oracle::go_text(&comp).unwrap_or_default();
            drop(comp);
            match crate::projects::run_go(&go, FUEL) {
                Ok(o) if lossy(&o.stdout) == expected && o.end == crate::oracle::NEnd::Ok => rep.tag("agree"),
                Ok(o) => {
                    rep.tag("disagree");
                    for p in ["C08", "C01"] {
                        rep.findings.push(Finding { property: p, class: "sem.stdout".into(), site: site.clone(), detail: format!("expected {:?} got {:?}/{}", expected, lossy(&o.stdout), end_tag(&o.end)), replay: replay.clone() });
                    }
                }
                Err(m) if m.starts_with("machinery") => rep.tag("machinery:go-unsupported"),
                Err(m) => {
                    rep.tag("go:rejected");
                    for p in ["C08", "C02"] {
                        rep.findings.push(Finding { property: p, class: m.split(':').next().unwrap_or("go.invalid").to_string(), site: format!("{};goerr={}", site, normalise_msg(&m)), detail: m.clone(), replay: replay.clone() });
                    }
                }
            }
            // projects of several packages also through `build` of every package and `link` (the packages are
            // lifted in another order there than under whole-program compilation)
            if replay["source"].as_str().unwrap_or("").contains("//// FILE ") {
                let full = replay["source"].as_str().unwrap_or("").to_string();
                match run_text_separate(ctx, &full) {
                    Ok(o) if lossy(&o.stdout) == expected && o.end == crate::oracle::NEnd::Ok => rep.tag("agree:build+link"),
                    Ok(o) => {
                        for p in ["C08", "C14"] {
                            rep.findings.push(Finding { property: p, class: "sem.stdout".into(), site: format!("{};pipeline=build+link", site), detail: format!("expected {:?} got {:?}/{}", expected, lossy(&o.stdout), end_tag(&o.end)), replay: replay.clone() });
                        }
                    }
                    Err((class, _)) if class.starts_with("machinery") => rep.tag("machinery:go-unsupported"),
                    Err((class, msg)) => {
                        for p in ["C08", "C14"] {
                            rep.findings.push(Finding { property: p, class: class.clone(), site: format!("{};pipeline=build+link;msg={}", site, normalise_msg(&msg)), detail: msg.clone(), replay: replay.clone() });
                        }
                    }
                }
            }
            return rep;
        }
        let caps: Vec<&str> = case["captures"].as_array().unwrap().iter().map(|x| x.as_str().unwrap()).collect();
        let (flow, variant) = (case["flow"].as_str().unwrap(), case["variant"].as_str().unwrap());
        let nesting = case["nesting"].as_u64().unwrap() as usize;
        let Some(prog) = build(&caps, flow, variant, nesting) else {
            rep.tag("inapplicable");
            return rep;
        };
        let site = format!("flow={};captures={};variant={};nesting={}", flow, caps.join("+"), variant, nesting);
        let opts = DiffOpts { props_sem: &["C08", "C01"], props_go: &["C02", "C08"], ..DiffOpts::default() };
        differential(&prog, &site, "closures", case, ctx, &opts, &mut rep);
        if caps == ["none"] {
            rep.nontrivial_key = None;
        }
        rep
    }
}
