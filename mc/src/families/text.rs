//! Text-level families for C12 (lossless syntax tree, exact positions) and C04 (never
//! crashes/hangs, diagnostics inside the text): all strings over a token-class alphabet up to a
//! length bound, and every prefix / single-character deletion of the corpus sources.

use crate::drive::*;
use crate::families::common::normalise_msg;
use crate::oracle::{CompileOutcome, compile_at, panic_message};
use serde_json::{Value, json};
use std::panic::{AssertUnwindSafe, catch_unwind};
use std::path::Path;

pub const ALPHABET: [&str; 30] = [
    "a", "7", "_", " ", "\n", "\"", "\\", "/", ".", ":", "=", "|", "&", "-", ">", "(", "{", "[", ",", ";", "#", "é", "😀", "f", "3", "\0", "\u{feff}", "\r", "\t", "\u{2028}",
];

/// characters editors and tools put into files without the user typing them
const INSERTED: [&str; 6] = ["\u{feff}", "\r", "\u{a0}", "\u{2028}", "\0", "\u{200b}"];

fn kinds(t: &str) -> String {
    // the key under which distinct inputs are counted; a lexer that panics is reported by `check_lossless`
    catch_unwind(AssertUnwindSafe(|| lexer::lex(t).iter().map(|k| format!("{:?}", k.kind)).collect::<Vec<_>>().join(","))).unwrap_or_else(|_| "lexer-panicked".into())
}

/// C12 oracle on one text. Returns (class, detail) for each violated clause.
pub fn check_lossless(t: &str) -> Vec<(String, String)> {
    let mut out = Vec::new();
    let r = catch_unwind(AssertUnwindSafe(|| {
        let mut v: Vec<(String, String)> = Vec::new();
        // 1. tokens tile the text on char boundaries
        let toks = lexer::lex(t);
        let mut pos: u32 = 0;
        for tk in &toks {
            let (s, e): (u32, u32) = (tk.range.start().into(), tk.range.end().into());
            if s != pos {
                v.push(("lex.gap".into(), format!("token starts at {} expected {}", s, pos)));
                break;
            }
            if e < s || (e as usize) > t.len() || !t.is_char_boundary(s as usize) || !t.is_char_boundary(e as usize) {
                v.push(("lex.range".into(), format!("token range {}..{} invalid", s, e)));
                break;
            }
            if &t[s as usize..e as usize] != tk.text {
                v.push(("lex.text".into(), "token text differs from its range".into()));
                break;
            }
            if e == s {
                v.push(("lex.empty-token".into(), format!("empty token at {}", s)));
                break;
            }
            pos = e;
        }
        if v.is_empty() && pos as usize != t.len() {
            v.push(("lex.short".into(), format!("tokens end at {} of {}", pos, t.len())));
        }
        // 2. parse: lossless
        let p1 = parser::parse(Path::new("x.gom"), t);
        let root = parser::syntax::MySyntaxNode::new_root(p1.green_node.clone());
        let back = root.text().to_string();
        if back != t {
            v.push(("cst.lossy".into(), format!("tree text {:?} != input {:?}", truncate(&back), truncate(t))));
        }
        // 3. every node/token range inside the text, children tile their parent
        for el in root.descendants_with_tokens() {
            let r = el.text_range();
            let (s, e): (u32, u32) = (r.start().into(), r.end().into());
            if e as usize > t.len() || s > e {
                v.push(("cst.range".into(), format!("element range {}..{} outside text of {}", s, e, t.len())));
                break;
            }
        }
        // 4. diagnostics inside the text, on char boundaries
        for d in p1.diagnostics().iter() {
            if let Some(r) = d.range() {
                let (s, e): (u32, u32) = (r.start().into(), r.end().into());
                if s > e || e as usize > t.len() || !t.is_char_boundary(s as usize) || !t.is_char_boundary(e as usize) {
                    v.push(("diag.range".into(), format!("diagnostic {:?} range {}..{} outside text of {}", d.message(), s, e, t.len())));
                    break;
                }
            }
        }
        // 5. determinism: parsing twice gives the same tree and the same diagnostics
        let p2 = parser::parse(Path::new("x.gom"), t);
        if p1.green_node != p2.green_node {
            v.push(("cst.nondeterministic".into(), "two parses gave different trees".into()));
        }
        let d1: Vec<String> = p1.diagnostics().iter().map(|d| format!("{:?}", d)).collect();
        let d2: Vec<String> = p2.diagnostics().iter().map(|d| format!("{:?}", d)).collect();
        if d1 != d2 {
            v.push(("diag.nondeterministic".into(), "two parses gave different diagnostics".into()));
        }
        (v, p1.has_errors())
    }));
    match r {
        Ok((v, _)) => out.extend(v),
        Err(p) => out.push(("panic".into(), normalise_msg(&panic_message(p)))),
    }
    out
}

fn truncate(s: &str) -> String {
    s.chars().take(60).collect()
}

/// C04 oracle on one text through `compile`: returns Ok/Err with ≥1 error diagnostic, never panics,
/// diagnostic ranges inside the text. Returns (stage tag, violations).
pub fn check_total(path: &Path, t: &str) -> (String, Vec<(String, String)>) {
    let mut v = Vec::new();
    let tag;
    match compile_at(path, t) {
        CompileOutcome::Ok(c) => {
            tag = "ok".to_string();
            if let Err(m) = crate::oracle::go_text(&c) {
                v.push(("gopp.panic".into(), normalise_msg(&m)));
            }
        }
        CompileOutcome::Panic(m) => {
            tag = "panic".to_string();
            v.push(("compile.panic".into(), normalise_msg(&m)));
        }
        CompileOutcome::Err(e) => {
            let (stage, _) = crate::families::common::describe_err(&e);
            tag = format!("err-{}", stage);
            let ds = e.diagnostics();
            if !ds.has_errors() {
                v.push(("err.no-diagnostic".into(), format!("Err({}) without an error diagnostic", stage)));
            }
            for d in ds.iter() {
                if let Some(r) = d.range() {
                    let (s, e2): (u32, u32) = (r.start().into(), r.end().into());
                    if s > e2 || e2 as usize > t.len() || !t.is_char_boundary(s as usize) || !t.is_char_boundary(e2 as usize) {
                        v.push(("diag.range".into(), format!("{} diagnostic range {}..{} outside text of {}", stage, s, e2, t.len())));
                        break;
                    }
                }
            }
        }
    }
    (tag, v)
}

pub const TOKENS: [&str; 40] = [
    "fn", "main", "(", ")", "{", "}", "let", "x", "=", "1", ";", ",", ":", "int32", "->", "=>", "match", "if", "else", "while", "|", "+", "-",
    "!", ".", "::", "\"s\"", "struct", "enum", "S", "impl", "trait", "for", "[", "]", "#", "true", "_", "go", "extern",
];

pub struct SeqFamily {
    pub name: &'static str,
    pub rule: &'static str,
    pub alphabet: &'static [&'static str],
    pub sep: &'static str,
    pub max_q: usize,
    pub max_t: usize,
    /// also evaluate each sequence embedded in `fn main() { … }`
    pub embed: bool,
}

pub fn strings() -> SeqFamily {
    SeqFamily {
        name: "strings",
        rule: "all strings over a 30-symbol alphabet (one or two representatives of every token class, multi-byte letters, quote, backslash, newline, NUL, byte order mark, carriage return, tab, U+2028) up to length 4 (quick) / 5 (thorough), each lexed, parsed twice and compiled; one case = all strings starting with one symbol; non-trivial/distinct = distinct token-kind sequences",
        alphabet: &ALPHABET,
        sep: "",
        max_q: 4,
        max_t: 5,
        embed: false,
    }
}

pub fn tokens() -> SeqFamily {
    SeqFamily {
        name: "tokens",
        rule: "all token sequences over a 40-token alphabet up to length 3 (quick) / 4 (thorough), joined by single spaces, each evaluated at top level and embedded in `fn main() { … }`; lexed, parsed twice and compiled; distinct = distinct token-kind sequences",
        alphabet: &TOKENS,
        sep: " ",
        max_q: 3,
        max_t: 4,
        embed: true,
    }
}

/// pieces numbers, projections and suffixes are made of, joined without blanks
const NUMERAL_PIECES: [&str; 17] = ["t", ".", "0", "1", "9", "10", "12", "1.5", "e", "f32", "i8", "_", " ", ";", "(", ")", "x"];

pub fn numerals() -> SeqFamily {
    SeqFamily {
        name: "numerals",
        rule: "all strings of up to 5 (quick) / 6 (thorough) pieces over 17 pieces that numbers, tuple projections and literal suffixes are made of (t . 0 1 9 10 12 1.5 e f32 i8 _ blank ; ( ) x), joined without blanks, each at top level and embedded in `fn main() { ... }`: projection chains with indices of different widths, floats next to projections, exponents, suffixes glued to digits; lexed, parsed and compiled; oracles: tokens tile the text, tree text = input, ranges inside the text, no panic; distinct = distinct token-kind sequences",
        alphabet: &NUMERAL_PIECES,
        sep: "",
        max_q: 5,
        max_t: 6,
        embed: true,
    }
}

impl Family for SeqFamily {
    fn name(&self) -> &'static str {
        self.name
    }
    fn serves(&self) -> &'static [&'static str] {
        &["C12", "C04"]
    }
    fn rule(&self) -> &'static str {
        self.rule
    }
    fn cases(&self, _tier: Tier) -> Box<dyn Iterator<Item = Value> + '_> {
        let mut v = vec![json!({"first": -1})];
        for i in 0..self.alphabet.len() {
            v.push(json!({"first": i}));
        }
        Box::new(v.into_iter())
    }
    fn case_timeout(&self, tier: Tier) -> u64 {
        match tier {
            Tier::Quick => 60,
            Tier::Thorough => 600,
        }
    }
    fn workers(&self) -> usize {
        16
    }
    fn run(&self, case: &Value, ctx: &mut Ctx) -> Report {
        let mut rep = Report::default();
        let first = case["first"].as_i64().unwrap();
        let maxlen = if ctx.tier == Tier::Quick { self.max_q } else { self.max_t };
        let alphabet = self.alphabet;
        let path = ctx.scratch.single_path();
        let mut seqs: std::collections::BTreeSet<u64> = std::collections::BTreeSet::new();
        let mut count = 0u64;
        let mut reported: std::collections::BTreeMap<String, u32> = std::collections::BTreeMap::new();
        let mut stage_counts: std::collections::BTreeMap<String, u64> = std::collections::BTreeMap::new();
        // one buffer that is edited in place: the text before and the text after at the same address
        let mut scratch = String::new();
        let mut visit = |t: &str, rep: &mut Report| {
            count += 1;
            // a history of two parses: the previous text of the same length, then this one written over it in place,
            // under one file name and with nothing in between - the second tree must be the tree of the second text
            if scratch.len() == t.len() && scratch != t {
                let stale = catch_unwind(AssertUnwindSafe(|| {
                    let _ = parser::parse(Path::new("x.gom"), &scratch);
                    scratch.clear();
                    scratch.push_str(t);
                    let again = parser::parse(Path::new("x.gom"), &scratch);
                    parser::syntax::MySyntaxNode::new_root(again.green_node.clone()).text().to_string()
                }));
                if let Ok(back) = stale {
                    if back != t {
                        let n = reported.entry("12cst.stale-after-edit-in-place".to_string()).or_insert(0);
                        *n += 1;
                        if *n <= 3 {
                            rep.findings.push(Finding {
                                property: "C12",
                                class: "cst.stale-after-edit-in-place".into(),
                                site: format!("kinds={}", kinds(t)),
                                detail: format!("a buffer was parsed, overwritten in place with {:?} and parsed again: the tree spells {:?}", t, truncate(&back)),
                                replay: json!({"kind": "text", "text": t, "oracle": "lossless"}),
                            });
                        }
                    }
                }
            }
            scratch.clear();
            scratch.push_str(t);
            let ks = kinds(t);
            seqs.insert(fnv(&ks));
            let mut viol = check_lossless(t);
            for (c, d) in viol.drain(..) {
                let n = reported.entry(format!("12{}", c)).or_insert(0);
                *n += 1;
                if *n <= 3 {
                    let site = if c == "panic" { format!("msg={}", d) } else { format!("kinds={}", ks) };
                    rep.findings.push(Finding {
                        property: "C12",
                        class: c.clone(),
                        site: site.clone(),
                        detail: format!("{:?}: {}", t, d),
                        replay: json!({"kind": "text", "text": t, "oracle": "lossless"}),
                    });
                    if c == "panic" {
                        rep.findings.push(Finding {
                            property: "C04",
                            class: "parse.panic".into(),
                            site,
                            detail: format!("{:?}: {}", t, d),
                            replay: json!({"kind": "text", "text": t, "oracle": "lossless"}),
                        });
                    }
                }
            }
            let (tag, viol) = check_total(&path, t);
            *stage_counts.entry(tag).or_insert(0) += 1;
            for (c, d) in viol {
                let n = reported.entry(format!("04{}", c)).or_insert(0);
                *n += 1;
                if *n <= 3 {
                    rep.findings.push(Finding {
                        property: "C04",
                        class: c.clone(),
                        site: format!("msg={}", d),
                        detail: format!("{:?}: {}", t, d),
                        replay: json!({"kind": "text", "text": t, "oracle": "total"}),
                    });
                }
            }
        };
        if first < 0 {
            visit("", &mut rep);
        } else {
            // all strings of length 1..=maxlen starting with ALPHABET[first]
            let n = alphabet.len();
            for len in 1..=maxlen {
                let mut idx = vec![0usize; len - 1];
                loop {
                    let mut t = String::from(alphabet[first as usize]);
                    for i in &idx {
                        t.push_str(self.sep);
                        t.push_str(alphabet[*i]);
                    }
                    visit(&t, &mut rep);
                    if self.embed {
                        let e = format!("fn main() {{ {} }}", t);
                        visit(&e, &mut rep);
                    }
                    // increment
                    let mut k = idx.len();
                    loop {
                        if k == 0 {
                            break;
                        }
                        k -= 1;
                        idx[k] += 1;
                        if idx[k] < n {
                            break;
                        }
                        idx[k] = 0;
                        if k == 0 {
                            k = usize::MAX;
                            break;
                        }
                    }
                    if idx.is_empty() || k == usize::MAX {
                        break;
                    }
                }
            }
        }
        for (k, v) in stage_counts {
            rep.tag(format!("stage:{}x{}", k, bucket(v)));
        }
        rep.tag(format!("strings:{}", count));
        rep.sub_evaluations = count;
        rep.more_keys = seqs.iter().cloned().collect();
        rep.outcome = Some(format!("first={}", first));
        rep.sample = Some(json!({"first_symbol": if first < 0 { "".to_string() } else { alphabet[first as usize].to_string() }, "strings": count, "distinct_token_kind_sequences": seqs.len()}));
        rep
    }
}

fn bucket(v: u64) -> String {
    // counts are reported exactly in the sample; tags carry the magnitude
    format!("{}", v)
}

fn fnv(s: &str) -> u64 {
    let mut h: u64 = 0xcbf29ce484222325;
    for b in s.as_bytes() {
        h ^= *b as u64;
        h = h.wrapping_mul(0x100000001b3);
    }
    h
}

// ------------------------------------------------------------------ corpus mutations

pub fn corpus_sources() -> Vec<(String, String)> {
    let mut v = Vec::new();
    let root = Path::new("/repo/crates/compiler/src/tests/pipeline");
    let mut dirs: Vec<_> = std::fs::read_dir(root).map(|r| r.filter_map(|e| e.ok()).map(|e| e.path()).collect()).unwrap_or_else(|_| Vec::new());
    dirs.sort();
    for d in dirs {
        let f = d.join("main.gom");
        if let Ok(s) = std::fs::read_to_string(&f) {
            v.push((d.file_name().unwrap().to_string_lossy().to_string(), s));
        }
    }
    v.push(("builtin.gom".into(), std::fs::read_to_string("/repo/crates/compiler/src/builtin.gom").unwrap_or_default()));
    v
}

pub struct CorpusMut;

impl Family for CorpusMut {
    fn name(&self) -> &'static str {
        "corpus-mut"
    }
    fn serves(&self) -> &'static [&'static str] {
        &["C12", "C04"]
    }
    fn rule(&self) -> &'static str {
        "every prefix (at every char boundary), every single-character deletion (quick: every 5th position) and every insertion of one of 6 characters that tools put into files (byte order mark, carriage return, no-break space, U+2028, NUL, zero-width space; at the start, at the end and at every 5th / 25th boundary) of the corpus sources and the builtin prelude, lexed, parsed twice, compiled; one case = one source file × mode; distinct = distinct mutated texts that still lex differently from the original"
    }
    fn cases(&self, _tier: Tier) -> Box<dyn Iterator<Item = Value> + '_> {
        let srcs = corpus_sources();
        let mut v = Vec::new();
        for (i, (_, src)) in srcs.iter().enumerate() {
            let nb = src.chars().count() + 1;
            let mut lo = 0;
            while lo < nb {
                let hi = (lo + 250).min(nb);
                v.push(json!({"file": i, "mode": "prefix", "lo": lo, "hi": hi}));
                v.push(json!({"file": i, "mode": "delete", "lo": lo, "hi": hi}));
                v.push(json!({"file": i, "mode": "insert", "lo": lo, "hi": hi}));
                lo = hi;
            }
        }
        Box::new(v.into_iter())
    }
    fn case_timeout(&self, tier: Tier) -> u64 {
        match tier {
            Tier::Quick => 60,
            Tier::Thorough => 900,
        }
    }
    fn run(&self, case: &Value, ctx: &mut Ctx) -> Report {
        let mut rep = Report::default();
        let srcs = corpus_sources();
        let (name, src) = &srcs[case["file"].as_u64().unwrap() as usize];
        let mode = case["mode"].as_str().unwrap();
        let stride = if ctx.tier == Tier::Quick { 5 } else { 1 };
        let path = ctx.scratch.single_path();
        let bounds: Vec<usize> = src.char_indices().map(|(i, _)| i).chain(std::iter::once(src.len())).collect();
        let mut count = 0u64;
        let orig_kinds = kinds(src);
        let mut texts_seen: std::collections::BTreeSet<u64> = std::collections::BTreeSet::new();
        let mut reported: std::collections::BTreeMap<String, u32> = std::collections::BTreeMap::new();
        let mut stage_counts: std::collections::BTreeMap<String, u64> = std::collections::BTreeMap::new();
        let (lo, hi) = (case["lo"].as_u64().unwrap() as usize, case["hi"].as_u64().unwrap() as usize);
        // insertions: one special character at the start, the end and every 5th (quick: 25th) of the other
        // boundaries
        let variants: Vec<&str> = if mode == "insert" { INSERTED.to_vec() } else { vec![""] };
        for (bi, &b) in bounds.iter().enumerate() {
          for ins in &variants {
            let edge = mode == "insert" && (b == 0 || b == src.len());
            let step = if mode == "insert" { stride * 5 } else { stride };
            if bi < lo || bi >= hi || (bi % step != 0 && !edge) {
                continue;
            }
            let t: String = if mode == "prefix" {
                src[..b].to_string()
            } else if mode == "insert" {
                format!("{}{}{}", &src[..b], ins, &src[b..])
            } else {
                if b >= src.len() {
                    continue;
                }
                let next = bounds[bi + 1];
                format!("{}{}", &src[..b], &src[next..])
            };
            count += 1;
            if kinds(&t) != orig_kinds {
                texts_seen.insert(fnv(&t));
            }
            for (c, d) in check_lossless(&t) {
                let n = reported.entry(format!("12{}", c)).or_insert(0);
                *n += 1;
                if *n <= 2 {
                    rep.findings.push(Finding {
                        property: "C12",
                        class: c.clone(),
                        site: format!("msg={}", normalise_msg(&d)),
                        detail: format!("{} {} at {}: {}", name, mode, b, d),
                        replay: json!({"kind": "text", "text": t, "oracle": "lossless"}),
                    });
                }
            }
            let (tag, viol) = check_total(&path, &t);
            *stage_counts.entry(tag).or_insert(0) += 1;
            for (c, d) in viol {
                let n = reported.entry(format!("04{}", c)).or_insert(0);
                *n += 1;
                if *n <= 2 {
                    rep.findings.push(Finding {
                        property: "C04",
                        class: c.clone(),
                        site: format!("msg={}", d),
                        detail: format!("{} {} at {}: {}", name, mode, b, d),
                        replay: json!({"kind": "text", "text": t, "oracle": "total"}),
                    });
                }
            }
          }
        }
        for (k, v) in stage_counts {
            rep.tag(format!("stage:{}x{}", k, v));
        }
        rep.sub_evaluations = count;
        rep.more_keys = texts_seen.iter().cloned().collect();
        rep.outcome = Some(format!("{}:{}:{}", name, mode, lo));
        rep.sample = Some(json!({"file": name, "mode": mode, "positions": [lo, hi], "texts": count}));
        rep
    }
}

// ------------------------------------------------------------------ nesting ladders (C04 L4)

/// constructs that are long rather than deep in the source text (each still a chain in some tree)
pub const BREADTH_LADDERS: [&str; 12] = [
    "else-if-chain", "let-sequence", "statement-sequence", "many-functions", "many-match-arms", "many-variants", "many-struct-fields", "many-arguments", "string-concat", "and-chain",
    "method-chain", "many-closures",
];

pub const LADDERS: [&str; 16] = [
    "parens", "unary-neg", "unary-not", "binary-left", "binary-right", "calls", "if-blocks", "closures", "tuples", "arrays", "types-tuple",
    "types-array", "patterns", "match-in-match", "field-chain", "generic-inst",
];

/// right-nested constructs that stay cheap when they are hundreds of levels deep: (construct,
/// deepest level in the quick tier, in the thorough tier). The first four are also run at every
/// depth 65..=300 (the parser's look budget is a small constant, so thresholds sit anywhere).
pub const DEEP_LADDERS: [(&str, usize, usize); 13] = [
    ("unary-neg", 1024, 4096),
    ("unary-not", 1024, 4096),
    ("parens", 1024, 4096),
    ("fn-types", 1024, 4096),
    ("ref-types", 1024, 2048),
    ("go-chain", 1024, 2048),
    ("binary-right", 1024, 2048),
    ("calls", 1024, 2048),
    ("if-blocks", 1024, 2048),
    ("types-array", 1024, 2048),
    ("match-in-match", 512, 1024),
    ("closures", 384, 1024),
    ("while-blocks", 384, 1024),
];
pub const DEEP_DEPTHS: [usize; 16] = [96, 128, 192, 256, 320, 384, 448, 512, 640, 768, 896, 1024, 1536, 2048, 3072, 4096];

/// what every ladder text is: a syntactically valid program, so the parser must accept it
/// (stages after the parser may reject the ones named here)
fn ladder_may_be_rejected_after_parsing(kind: &str) -> bool {
    // paths `A::A::…` name nothing; a method call on a call result needs an annotated receiver
    kind.starts_with("path-in-") || kind == "method-chain"
}

/// paths of d segments in every position a path can stand (the parser looks ahead over paths with a
/// bounded budget): every length, not only powers of two
pub const PATH_LADDERS: [&str; 6] = ["path-in-impl-header", "path-in-impl-for", "path-in-type", "path-in-expr", "path-in-pattern", "path-in-trait-bound"];

pub fn ladder_text(kind: &str, d: usize) -> Option<String> {
    let rep = |s: &str, n: usize| s.repeat(n);
    let path = |n: usize| vec!["A"; n.max(1)].join("::");
    Some(match kind {
        "path-in-impl-header" => format!("impl {} {{ }}\nfn main() {{ () }}", path(d)),
        "path-in-impl-for" => format!("struct T {{ a: int32 }}\nimpl {} for T {{ }}\nfn main() {{ () }}", path(d)),
        "path-in-type" => format!("fn f(x: {}) -> unit {{ () }}\nfn main() {{ () }}", path(d)),
        "path-in-expr" => format!("fn main() {{ let x = {}::f(1); () }}", path(d)),
        "path-in-pattern" => format!("fn main() {{ match 1 {{ {}(k) => (), _ => () }} }}", path(d)),
        "path-in-trait-bound" => format!("fn f[T: {}](x: T) -> unit {{ () }}\nfn main() {{ () }}", path(d)),
        "parens" => format!("fn main() {{ let x = {}1{}; string_println(int32_to_string(x)) }}", rep("(", d), rep(")", d)),
        "unary-neg" => format!("fn main() {{ let x = {}1; string_println(int32_to_string(x)) }}", rep("-", d)),
        "unary-not" => format!("fn main() {{ let x = {}true; string_println(bool_to_string(x)) }}", rep("!", d)),
        "binary-left" => format!("fn main() {{ let x = 1{}; string_println(int32_to_string(x)) }}", rep(" + 1", d)),
        "binary-right" => format!("fn main() {{ let x = {}1{}; string_println(int32_to_string(x)) }}", rep("1 + (", d), rep(")", d)),
        "calls" => format!("fn f(x: int32) -> int32 {{ x }}\nfn main() {{ let x = {}1{}; string_println(int32_to_string(x)) }}", rep("f(", d), rep(")", d)),
        "if-blocks" => format!(
            "fn main() {{ let x = {}1{}; string_println(int32_to_string(x)) }}",
            rep("if true { ", d),
            rep(" } else { 0 }", d)
        ),
        "closures" => format!("fn main() {{ let f = {}1; string_println(\"ok\") }}", rep("|| ", d)),
        "tuples" => format!("fn main() {{ let x = {}1, 2{}; string_println(\"ok\") }}", rep("(", d), rep(", 3)", d)),
        "arrays" => format!("fn main() {{ let x = {}1{}; string_println(\"ok\") }}", rep("[", d), rep("]", d)),
        "types-tuple" => format!("fn f(x: {}int32, bool{}) -> unit {{ () }}\nfn main() {{ string_println(\"ok\") }}", rep("(", d), rep(", bool)", d)),
        "types-array" => format!("fn f(x: {}int32{}) -> unit {{ () }}\nfn main() {{ string_println(\"ok\") }}", rep("[", d), rep("; 1]", d)),
        "patterns" => format!(
            "fn main() {{ let x = {}1, 2{}; let {}a, b{} = x; string_println(int32_to_string(a)) }}",
            rep("(", d),
            rep(", 3)", d),
            rep("(", d),
rep(", _)", d)
        ),
        "match-in-match" => format!(
            "fn main() {{ let x = {}1{}; string_println(int32_to_string(x)) }}",
            rep("match true { true => ", d),
            rep(", false => 0 }", d)
        ),
        "field-chain" => {
            // struct S0 { v: int32 } struct S1 { f: S0 } …; s.f.f.….v
            let mut t = String::from("struct S0 { v: int32 }\n");
            for i in 1..=d {
                t.push_str(&format!("struct S{} {{ f: S{} }}\n", i, i - 1));
            }
            t.push_str("fn main() {\n    let s0 = S0 { v: 7 };\n");
            for i in 1..=d {
                t.push_str(&format!("    let s{}: S{} = S{} {{ f: s{} }};\n", i, i, i, i - 1));
            }
            t.push_str(&format!("    string_println(int32_to_string(s{}{}.v))\n}}", d, rep(".f", d)));
            t
        }
        "go-chain" => format!("fn main() {{ {}(); string_println(\"ok\") }}", rep("go || ", d)),
        "fn-types" => format!("fn f(x: {}int32) -> unit {{ () }}\nfn main() {{ string_println(\"ok\") }}", rep("() -> ", d)),
        "ref-types" => format!("fn f(x: {}int32{}) -> unit {{ () }}\nfn main() {{ string_println(\"ok\") }}", rep("Ref[", d), rep("]", d)),
        "while-blocks" => format!("fn main() {{ {}(){}; string_println(\"ok\") }}", rep("while false { ", d), rep(" }", d)),
        "generic-inst" => {
            // Box[Box[…[int32]…]]
            format!(
                "struct B[T] {{ v: T }}\nfn id[T](x: T) -> T {{ x }}\nfn main() {{ let x: {}int32{} = id({}1{}); string_println(\"ok\") }}",
                rep("B[", d),
                rep("]", d),
                rep("B { v: ", d),
                rep(" }", d)
            )
        }
        "else-if-chain" => {
            let mut t = String::from("fn pick(k: int32) -> int32 {\n    if k == 0 { 0 }");
            for i in 1..=d {
                t.push_str(&format!(" else if k == {} {{ {} }}", i, i));
            }
            t.push_str(" else { 0 - 1 }\n}\nfn main() { string_println(int32_to_string(pick(3))) }");
            t
        }
        "let-sequence" => {
            let mut t = String::from("fn main() {\n    let a0 = 1;\n");
            for i in 1..=d {
                t.push_str(&format!("    let a{} = a{} + 1;\n", i, i - 1));
            }
            t.push_str(&format!("    string_println(int32_to_string(a{}))\n}}", d));
            t
        }
        "statement-sequence" => {
            let mut t = String::from("fn main() {\n");
            for i in 0..d {
                t.push_str(&format!("    string_println(\"{}\");\n", i));
            }
            t.push_str("    ()\n}");
            t
        }
        "many-functions" => {
            let mut t = String::from("fn f0() -> int32 { 0 }\n");
            for i in 1..=d {
                t.push_str(&format!("fn f{}() -> int32 {{ f{}() + 1 }}\n", i, i - 1));
            }
            t.push_str(&format!("fn main() {{ string_println(int32_to_string(f{}())) }}", d));
            t
        }
        "many-match-arms" => {
            let mut t = String::from("fn pick(k: int32) -> int32 {\n    match k {\n");
            for i in 0..d {
                t.push_str(&format!("        {} => {},\n", i, i + 1));
            }
            t.push_str("        _ => 0,\n    }\n}\nfn main() { string_println(int32_to_string(pick(2))) }");
            t
        }
        "many-variants" => {
            let mut t = String::from("enum E {\n");
            for i in 0..=d {
                t.push_str(&format!("    V{}(int32),\n", i));
            }
            t.push_str("}\nfn code(e: E) -> int32 {\n    match e {\n");
            for i in 0..=d {
                t.push_str(&format!("        V{}(x) => x + {},\n", i, i));
            }
            t.push_str(&format!("    }}\n}}\nfn main() {{ string_println(int32_to_string(code(V{}(1)))) }}", d));
            t
        }
        "many-struct-fields" => {
            let mut t = String::from("struct S {\n");
            for i in 0..=d {
                t.push_str(&format!("    f{}: int32,\n", i));
            }
            t.push_str("}\nfn main() {\n    let s = S {\n");
            for i in 0..=d {
                t.push_str(&format!("        f{}: {},\n", i, i));
            }
            t.push_str(&format!("    }};\n    string_println(int32_to_string(s.f{}))\n}}", d));
            t
        }
        "many-arguments" => {
            let params: Vec<String> = (0..=d).map(|i| format!("p{}: int32", i)).collect();
            let args: Vec<String> = (0..=d).map(|i| i.to_string()).collect();
            format!("fn f({}) -> int32 {{ p{} }}\nfn main() {{ string_println(int32_to_string(f({}))) }}", params.join(", "), d, args.join(", "))
        }
        "string-concat" => format!("fn main() {{ let s = \"a\"{}; string_println(s) }}", rep(" + \"b\"", d)),
        "and-chain" => format!("fn main() {{ let b = true{}; string_println(bool_to_string(b)) }}", rep(" && true", d)),
        "method-chain" => format!("struct S {{ v: int32 }}\nimpl S {{ fn inc(self: S) -> S {{ S {{ v: self.v + 1 }} }} }}\nfn main() {{ let s = S {{ v: 0 }}; let t: S = s{}; string_println(int32_to_string(t.v)) }}", rep(".inc()", d)),
        "many-closures" => {
            let mut t = String::from("fn main() {\n    let k = 1;\n");
            for i in 0..=d {
                t.push_str(&format!("    let c{} = |x: int32| x + k + {};\n", i, i));
            }
            t.push_str(&format!("    string_println(int32_to_string(c{}(1)))\n}}", d));
            t
        }
        _ => return None,
    })
}

pub struct Ladders;

impl Family for Ladders {
    fn name(&self) -> &'static str {
        "ladders"
    }
    fn serves(&self) -> &'static [&'static str] {
        &["C04", "C11", "C12"]
    }
    fn rule(&self) -> &'static str {
        "nesting ladders: 16 nesting constructs x depths 1,2,4,…,64 (thorough: 128), and 12 constructs that are long rather than deep (else-if chain, let / statement sequences, functions, match arms, variants, struct fields, arguments, string concatenation, && chain, method chain, closures) x lengths 1,2,4,…,512 (thorough: 2048), and paths of every length 1..160 (thorough: 300) in 6 positions (impl header, impl-for trait, type, expression, pattern, trait bound), and 13 right-nested constructs that stay cheap when deep (prefix - and !, parentheses, function / Ref / array types, go chains, right-nested + and calls, if / match / while / closure nesting) at depths 96..1024 (thorough: ..4096; the first four also at every depth 65..300); every ladder is a program of the documented grammar, so a rejection by the lexer or parser (and, except for the path and method-chain ladders, by any stage) is a finding for C11, a tree that is not the text a finding for C12; each compiled in a worker process on a thread with the stack the goml binary gives its compiler thread (1 GiB; the binary itself is run on the same ladders by the `cli` family); a stack overflow kills the worker and is attributed to the case; distinct = distinct (construct, depth)"
    }
    fn cases(&self, tier: Tier) -> Box<dyn Iterator<Item = Value> + '_> {
        let mut v = Vec::new();
        let maxd = if tier == Tier::Quick { 64 } else { 128 };
        for k in LADDERS {
            let mut d = 1;
            while d <= maxd {
                v.push(json!({"ladder": k, "depth": d}));
                d *= 2;
            }
        }
        for k in PATH_LADDERS {
            for d in 1..=(if tier == Tier::Quick { 160 } else { 300 }) {
                v.push(json!({"ladder": k, "depth": d}));
            }
        }
        for (i, (k, q, th)) in DEEP_LADDERS.iter().enumerate() {
            let top = if tier == Tier::Quick { *q } else { *th };
            if i < 4 {
                for d in 65..=300 {
                    v.push(json!({"ladder": k, "depth": d}));
                }
            }
            for d in DEEP_DEPTHS {
                if d <= top && !(i < 4 && d <= 300) {
                    v.push(json!({"ladder": k, "depth": d}));
                }
            }
        }
        let maxb = if tier == Tier::Quick { 512 } else { 2048 };
        for k in BREADTH_LADDERS {
            let mut d = 1;
            while d <= maxb {
                v.push(json!({"ladder": k, "depth": d}));
                d *= 2;
            }
        }
        // flat code of a few thousand lines (generated code is like this): time and memory must stay
        // in proportion (the workers of this family run under an address-space limit)
        for k in ["let-sequence", "statement-sequence", "many-functions", "many-match-arms", "string-concat"] {
            for d in if tier == Tier::Quick { vec![4096, 8192] } else { vec![4096, 8192, 16384, 32768] } {
                v.push(json!({"ladder": k, "depth": d}));
            }
        }
        Box::new(v.into_iter())
    }
    fn workers(&self) -> usize {
        16
    }
    fn worker_address_space_limit(&self) -> Option<u64> {
        // 1 GiB is the stack of the compiling thread; the rest is what a compilation of a few
        // thousand lines may take (a pass that copies the rest of the function at every statement
        // needs 2.6 GiB for 4000 statements)
        Some(3 << 30)
    }
    fn case_timeout(&self, tier: Tier) -> u64 {
        // some ladders are (polynomially) slow in the nesting depth; only non-termination is a verdict
        match tier {
            Tier::Quick => 60,
            Tier::Thorough => 300,
        }
    }
    fn run(&self, case: &Value, ctx: &mut Ctx) -> Report {
        let mut rep = Report::default();
        let kind = case["ladder"].as_str().unwrap();
        let d = case["depth"].as_u64().unwrap() as usize;
        let Some(t) = ladder_text(kind, d) else { return rep };
        let path = ctx.scratch.single_path();
        // the passes recurse over the tree; the goml binary runs them on a 1 GiB stack
        // (COMPILER_STACK_BYTES in main.rs, exercised for real by the `cli` family), so this
        // library-level ladder gets the same room
        let (lossless, (tag, viol)) = {
            let t2 = t.clone();
            let h = std::thread::Builder::new().stack_size(1 << 30).spawn(move || (check_lossless(&t2), check_total(&path, &t2))).expect("spawn ladder thread");
            match h.join() {
                Ok(r) => r,
                Err(p) => (Vec::new(), ("panic".to_string(), vec![("compile.panic".to_string(), normalise_msg(&crate::oracle::panic_message(p)))])),
            }
        };
        for (c, dd) in lossless {
            for property in ["C12", "C04"] {
                rep.findings.push(Finding {
                    property,
                    class: format!("parse.{}", c),
                    site: format!("ladder={};msg={}", kind, normalise_msg(&dd)),
                    detail: format!("depth {}: {}", d, dd),
                    replay: json!({"kind": "text", "text": t, "oracle": "lossless"}),
                });
            }
        }
        rep.tag(format!("ladder:{}:{}", kind, tag));
        // every ladder is a program of the documented grammar
        if tag == "err-parser" || tag == "err-lexer" || (tag.starts_with("err-") && !ladder_may_be_rejected_after_parsing(kind)) {
            rep.findings.push(Finding {
                property: "C11",
                class: format!("ladder.valid-program-rejected.{}", &tag[4..]),
                site: format!("ladder={}", kind),
                detail: format!("depth {}: a program of the documented grammar is rejected ({})", d, tag),
                replay: json!({"kind": "text", "text": t, "oracle": "total"}),
            });
        }
        for (c, dd) in viol {
            rep.findings.push(Finding {
                property: "C04",
                class: c,
                site: format!("ladder={};msg={}", kind, dd),
                detail: format!("depth {}: {}", d, dd),
                replay: json!({"kind": "text", "text": t, "oracle": "total"}),
            });
        }
        rep.nontrivial_key = Some(format!("{}@{}", kind, d));
        rep.outcome = Some(format!("{}:{}", kind, tag));
        rep.sample = Some(json!({"ladder": kind, "depth": d, "text_len": t.len(), "stage": tag}));
        rep
    }
}
